"""C11 — PoolScheduler._compute_fair_share is the max-min fair (water-filling) allocation.

Rows are written straight into `user_inst_coll_resources` of a started batchsim World (minimysql) and the REAL
`w.pools['standard'].scheduler._compute_fair_share(free)` is called, so the real GROUP BY ... HAVING query is part of the
code under test.  The oracle is an exact water-filling solver over fractions.Fraction.
"""
from __future__ import annotations

from fractions import Fraction

from vlib.runner import Result

PROPERTY = 'C11'
LEVEL = 'exploration'
RULE = ('case = (free_cores_mcpu, rows of user_inst_coll_resources [user, inst_coll, token, n_ready_jobs, ready_cores_mcpu, '
        'n_running_jobs, running_cores_mcpu]): 0-8 users of pool `standard`, (running, ready) cores multiples of 250 mcpu up to 64000 '
        'with deliberate ties and zeros, job counts consistent with cores (count >= 1 iff cores > 0), each user split over 1-5 token '
        'shards whose individual values may be negative (only sums matter), users whose sums are all zero, and rows of pool `highmem` '
        'that must be ignored; free in {negative, 0, tiny, fractions of the demand, = demand, > demand}. EXHAUSTIVE grid: all multisets '
        'of <= 3 users with (running, ready) in {0,250,500,1000}^2 x 13 free values. Oracle: exact water level L (Fractions) with '
        'sum_u clamp(L - running_u, 0, ready_u) = min(max(free,0), sum ready); 0 <= alloc_u <= ready_u; |alloc_u - ideal_u| <= 1; '
        'sum alloc <= max(free,0) + n_users; sum alloc >= min(max(free,0), sum ready) - n_users; a user left short by more than 1 has '
        'running + alloc within 1 of L (or alloc = 0 and running >= L - 1); keys = users with n_ready + n_running > 0 in `standard`. '
        'Non-trivial: >= 2 users with different running levels and 0 < free < sum ready.')
ASSUMPTIONS = [
    'rounding slack: the code rounds the final water-level step to the nearest integer (int(free/n + 0.5)), so each allocation is within '
    '1/2 mcpu of the exact one and the total within n/2 of the free cores; the oracle allows 1 mcpu per user (the statement says "by more than '
    'rounding" without fixing the rounding mode), so a floor instead of round-half-up is not distinguishable',
    'inputs are the states the triggers can produce after summing token shards: counts and cores non-negative, count >= 1 iff cores > 0',
]
TRUSTED = ['vlib/minimysql (GROUP BY / HAVING / SUM / CAST of the one query)', 'vlib/batchsim Sim start-up (real Pool/PoolScheduler objects)',
           'Fraction water-filling solver in checks/c11.py']

POOL = 'standard'
OTHER = 'highmem'
GRID_VALUES = [0, 250, 500, 1000]
GRID_FREE = [-500, 0, 1, 2, 125, 250, 333, 500, 750, 1000, 1001, 2000, 6000]


# ---------------------------------------------------------------------------------------------- oracle
def aggregate(rows, pool=POOL):
    """rows -> {user: [n_ready, ready, n_running, running]} summed over the token shards of `pool`."""
    agg = {}
    for user, ic, _tok, n_ready, ready, n_running, running in rows:
        if ic != pool:
            continue
        a = agg.setdefault(user, [0, 0, 0, 0])
        a[0] += n_ready
        a[1] += ready
        a[2] += n_running
        a[3] += running
    return agg


def water_level(users, demand):
    """users: {u: (running, ready)}; -> smallest L (Fraction) with f(L) = demand, f(L) = sum clamp(L - running, 0, ready).
    Requires 0 < demand <= sum ready."""
    pts = sorted({r for r, _ in users.values()} | {r + d for r, d in users.values()})

    def f(L):
        return sum(min(max(L - r, 0), d) for r, d in users.values())
    prev = pts[0]
    for b in pts[1:]:
        fb = f(b)
        if fb >= demand:
            slope = sum(1 for r, d in users.values() if r <= prev and r + d >= b and d > 0)
            fp = f(prev)
            if fp >= demand:
                return Fraction(prev)
            return Fraction(prev) + Fraction(demand - fp, slope)
        prev = b
    return Fraction(pts[-1])


def check_alloc(free, rows, result):
    """-> (nontrivial, classes, failures)"""
    fails = []
    classes = set()
    agg = aggregate(rows)
    present = {u: a for u, a in agg.items() if a[0] + a[2] > 0}
    desc = f'free={free} users(n_ready, ready, n_running, running)={sorted(agg.items())}'
    if isinstance(result, str):
        return False, [], [('call-raised', 'the scheduler computes a per-user allocation', f'{desc}: _compute_fair_share raised {result}')]
    if set(result) != set(present):
        fails.append(('result-keys', 'exactly the users with ready or running jobs in this pool get an entry',
                      f'{desc}: result keys {sorted(result)}, expected {sorted(present)}'))
        return False, sorted(classes), fails
    for u, a in present.items():
        r = result[u]
        got = [r['n_ready_jobs'], r['ready_cores_mcpu'], r['n_running_jobs'], r['running_cores_mcpu']]
        if got != a:
            fails.append(('aggregate-mismatch', "the users' ready and running cores are the sums over the token shards of this pool",
                          f'{desc}: user {u} reported {got}'))
    if fails:
        return False, sorted(classes), fails
    users = {u: (a[3], a[1]) for u, a in present.items()}
    n = len(users)
    alloc = {u: result[u]['allocated_cores_mcpu'] for u in users}
    total_ready = sum(d for _, d in users.values())
    demand = min(max(free, 0), total_ready)
    if free < 0:
        classes.add('free_negative')
    elif free == 0:
        classes.add('free_zero')
    elif free >= total_ready:
        classes.add('free_covers_demand')
    else:
        classes.add('free_partial')
    if demand == 0:
        L = None
        ideal = {u: Fraction(0) for u in users}
    else:
        L = water_level(users, demand)
        ideal = {u: min(max(L - r, 0), d) for u, (r, d) in users.items()}
        assert sum(ideal.values()) == demand, (ideal, demand)
    for u, (r, d) in sorted(users.items()):
        a = alloc[u]
        if not isinstance(a, int) or isinstance(a, bool):
            fails.append(('alloc-not-integer', 'allocations are whole mcpu', f'{desc}: {u} -> {a!r}'))
            continue
        if a < 0:
            fails.append(('alloc-negative', 'allocations are non-negative', f'{desc}: {u} allocated {a}'))
        if a > d:
            fails.append(('alloc-exceeds-ready', 'no user is allocated more than its ready demand', f'{desc}: {u} allocated {a} > ready {d}'))
        if abs(a - ideal[u]) > 1:
            fails.append(('not-water-filling', 'the per-user allocation is the water-filling (max-min fair) allocation',
                          f'{desc}: {u} allocated {a}, exact share {float(ideal[u]):.3f} (water level {None if L is None else float(L)})'))
        if L is not None and a < d - 1:
            level = r + a
            if a > 0 and abs(level - L) > 1:
                fails.append(('short-user-off-level', 'any user left short sits at the common water level',
                              f'{desc}: {u} short (alloc {a} < ready {d}) at level {level}, water level {float(L):.3f}'))
            if a == 0 and r < L - 1:
                fails.append(('short-user-off-level', 'any user left short sits at the common water level',
                              f'{desc}: {u} got nothing although its running {r} is below the water level {float(L):.3f}'))
    s = sum(a for a in alloc.values() if isinstance(a, int))
    if s > max(free, 0) + n:
        fails.append(('total-exceeds-free', 'the total never exceeds the free cores by more than rounding',
                      f'{desc}: total {s} > free {max(free, 0)} + {n}'))
    if s < demand - n:
        fails.append(('free-cores-withheld', 'all free cores are handed out when demand allows', f'{desc}: total {s} < {demand} - {n}'))
    # result is sorted by allocation, descending (the scheduler iterates users in that order)
    nontrivial = len({r for r, _ in users.values()}) >= 2 and 0 < free < total_ready
    if n >= 2 and len({r for r, _ in users.values()}) < n:
        classes.add('tied_running')
    if any(d == 0 for _, d in users.values()):
        classes.add('user_without_ready')
    if len(agg) > len(present):
        classes.add('all_zero_user_present')
    if L is not None and L.denominator != 1:
        classes.add('fractional_level')
    classes.add(f'users_{min(n, 4)}{"+" if n >= 4 else ""}')
    return nontrivial, sorted(classes), fails


# ---------------------------------------------------------------------------------------------- execution
class Harness:
    """One World per process; each case rewrites user_inst_coll_resources and calls the real scheduler method."""

    def __init__(self):
        from vlib.aiosched import new_loop
        from vlib.batchsim.world import World
        self.loop = new_loop()
        self.w = World(n_tokens=5)
        self.loop.run_until_complete(self.w.start())
        self.sched = self.w.pools[POOL].scheduler

    def run(self, free, rows):
        w = self.w
        s = w.engine.connect()
        try:
            s.execute('DELETE FROM user_inst_coll_resources')
            for user, ic, tok, n_ready, ready, n_running, running in rows:
                s.execute('INSERT INTO user_inst_coll_resources (user, inst_coll, token, n_ready_jobs, ready_cores_mcpu, n_running_jobs, '
                          'running_cores_mcpu) VALUES (%s, %s, %s, %s, %s, %s, %s)', (user, ic, tok, n_ready, ready, n_running, running))
        finally:
            w.engine.close_session(s)
        from vlib.minimysql import NotSupported
        try:
            res = self.loop.run_until_complete(self.sched._compute_fair_share(free))
        except NotSupported:
            raise
        except Exception as e:   # noqa: BLE001 - an exception of the code under test is a finding, not a harness error
            return f'{type(e).__name__}: {e}'
        return {u: dict(r) for u, r in res.items()}

    def close(self):
        from vlib.aiosched import close_loop
        try:
            self.loop.run_until_complete(self.w.close())
        finally:
            close_loop(self.loop)


_h = None


def harness():
    global _h
    if _h is None:
        _h = Harness()
    return _h


def run_case(case):
    free, rows = case['free'], case['rows']
    result = harness().run(free, rows)
    return check_alloc(free, rows, result)


# ---------------------------------------------------------------------------------------------- enumeration / generation
def grid_cases(part, nparts):
    from itertools import combinations_with_replacement, product
    combos = list(product(GRID_VALUES, GRID_VALUES))
    i = 0
    for n in range(0, 4):
        for users in combinations_with_replacement(combos, n):
            for free in GRID_FREE:
                i += 1
                if i % nparts != part:
                    continue
                rows = []
                for k, (running, ready) in enumerate(users):
                    rows.append([f'u{k + 1}', POOL, 0, 1 if ready else 0, ready, 2 if running else 0, running])
                yield dict(free=free, rows=rows)


def _strategy():
    from hypothesis import strategies as st
    cores = st.one_of(st.sampled_from([0, 0, 250, 500, 1000, 4000, 16000, 64000]), st.integers(0, 256).map(lambda k: 250 * k),
                      st.integers(0, 16).map(lambda k: 250 * k))

    @st.composite
    def case(draw):
        n = draw(st.integers(0, 8))
        shared = draw(st.lists(cores, min_size=1, max_size=3))
        users = []
        for k in range(n):
            running = draw(st.one_of(st.sampled_from(shared), cores))
            ready = draw(st.one_of(st.sampled_from(shared), cores))
            n_running = draw(st.integers(1, 1 + running // 250)) if running else 0
            n_ready = draw(st.integers(1, 1 + ready // 250)) if ready else 0
            users.append((f'u{k + 1}', n_ready, ready, n_running, running))
        rows = []
        for user, n_ready, ready, n_running, running in users:
            k = draw(st.integers(1, 5))
            toks = draw(st.permutations(range(5)))[:k]
            parts = [[0, 0, 0, 0] for _ in range(k)]
            tot = [n_ready, ready, n_running, running]
            for j in range(1, k):
                for q in range(4):
                    unit = 250 if q in (1, 3) else 1
                    d = draw(st.integers(-3, 6)) * unit
                    parts[j][q] = d
            for q in range(4):
                parts[0][q] = tot[q] - sum(parts[j][q] for j in range(1, k))
            for tok, p in zip(toks, parts):
                rows.append([user, POOL, tok, p[0], p[1], p[2], p[3]])
            if draw(st.integers(0, 3)) == 0:      # the same user is also busy in the other pool: must be ignored
                rows.append([user, OTHER, 0, 3, draw(cores) + 250, 1, 250])
        if draw(st.booleans()):
            rows.append(['other-only', OTHER, 1, 2, 500, 2, 500])
        total_ready = sum(u[2] for u in users)
        levels = sorted({u[4] for u in users} | {u[4] + u[2] for u in users})
        free = draw(st.one_of(
            st.sampled_from([-1000, -1, 0, 1, 2, 3, 249, 250]),
            st.integers(0, max(total_ready, 1)),
            st.integers(0, 4 * max(n, 1)).map(lambda k: max(total_ready - 2 * max(n, 1) + k, 0)),
            st.sampled_from(levels or [0]).map(lambda l: l * max(n, 1)),
            st.integers(0, 64).map(lambda k: total_ready * k // 64),
            st.just(total_ready + 1000), st.just(10 ** 9)))
        rows = draw(st.permutations(rows)) if rows else rows
        return dict(free=free, rows=[list(r) for r in rows])
    return case()


def plan(tier):
    if tier == 'quick':
        return [dict(kind='grid', part=i, nparts=4) for i in range(4)] + [dict(kind='hyp', n=1000) for _ in range(12)]
    return [dict(kind='grid', part=i, nparts=4) for i in range(4)] + [dict(kind='hyp', n=17000) for _ in range(12)]


def run_shard(spec, seed, tier):
    res = Result()
    try:
        if spec['kind'] == 'grid':
            res.exhaustive = True
            for case in grid_cases(spec['part'], spec['nparts']):
                nt, cls, fl = run_case(case)
                res.case(case, nt, cls)
                for s, c, m in fl:
                    res.fail(s, c, m, case)
            return res
        from vlib.hyp import search
        search(res, PROPERTY, _strategy(), run_case, spec['n'], seed)
        return res
    finally:
        global _h
        if _h is not None:
            _h.close()
            _h = None


def replay(case):
    global _h
    try:
        nt, cls, fl = run_case(case)
    finally:
        if _h is not None:
            _h.close()
            _h = None
    return [dict(signature=s, clause=c, message=m, case=case) for s, c, m in fl]
