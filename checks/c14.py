"""C14 — batch API access control, exhaustive over routes x callers x id bindings (+ Hypothesis-varied ids/bodies) and, on top of
that static part, request HISTORIES against one application instance in which membership, account state and the set of batches change
between requests (section "histories" below).

Every route of `front_end.routes` is enumerated at run time from a real aiohttp Application (vlib/batchsim/httpapp.py) and hit
in-process through `Application._handle` with the production middlewares.  The auth service is the only fake: bearer /
session tokens map to userdata dicts or 401.  Expectations come from the statement (classes below), not from the decorators.
"""
from __future__ import annotations

import json
import re

from vlib.runner import Result

PROPERTY = 'C14'
LEVEL = 'exploration'
RULE = ('state: batch B owned by alice in billing project bp1 (members alice, bob, inactive user ina), update 1 committed (job group 1, '
        'jobs 1-2), update 2 open with its one job staged (second state: not yet staged); carol only in bp3; dev (is_developer=1) and the user named auth in no project. '
        'EXHAUSTIVE: every route registered by front_end.routes at run time (HEAD included) x 13 callers (anonymous, malformed header, '
        'unknown bearer token, unknown cookie session, inactive, stranger, member, owner, developer, auth; owner via cookie with and '
        'without CSRF token, stranger via cookie) x every binding of path ids to existing / non-existing values x body variants (update '
        'token fresh / open update / committed update; billing project bp1 / bp3; batch token fresh / existing). GENERATED: Hypothesis varies '
        'ids, tokens, counts, bunch sizes and drops body keys for denied callers. Oracle classes from the statement: public = healthcheck, '
        'version, cloud, swagger/openapi, tos/privacy, static; all else protected: unauthenticated -> 401 or login redirect; inactive -> '
        '401/403; cookie session without CSRF token on a non-GET -> 401/403; {batch_id} route + non-member -> 401/403/404; owner-only '
        'mutation (jobs/groups/updates create, update-fast, commit, close) + non-owner member -> 4xx; billing-project administration + '
        'non-developer non-auth -> 401/403; batch creation in a project the caller is not in -> 4xx; and in every denied case the database '
        'snapshot, outbound calls, background notifications and events are unchanged, no SQL ran for unauthenticated callers and only SELECTs '
        'otherwise. Positive direction: public routes for everyone, member read/cancel/delete, owner create/commit, developer/auth '
        'administration, authenticated lists -> not 401/403 (and not 404 on the core routes with existing ids); list endpoints must not show B '
        'to non-members. Non-trivial: a denied request on a route that mutates state for an authorised caller. '
        'HISTORIES (one front-end process, one database, one virtual clock per case; 6-30 steps built by construction from a model of '
        'membership carried along while drawing): batch creation through the real routes by owners in bp1/bp2/bp3, requests on every '
        'billing_project_users_only route (read, cancel, delete; API and UI; bearer and cookie) by alice/bob/carol/dave/ina, owner-only '
        'update creation, billing-project reads and batch / project lists, membership changes through the real administration routes '
        '(developer or auth user, API or UI) or the same INSERT/DELETE on billing_project_users, the same routes tried by ordinary '
        'users, the auth service switching a user inactive/active, virtual time 1 ms..40 s. After EVERY request the statement is '
        'evaluated against the rows as they are at that moment (billing_project_users, batches.billing_project/user/deleted): allowed '
        '-> not refused (and not 404 on the core routes of a live batch); otherwise error status, full snapshot / outbound calls / '
        'notifications unchanged and no write SQL. Shapes laid out on purpose and counted as classes: revoked_then_retry (granted, '
        'membership removed, same user same batch again: immediately, within 10 s, after 10 s; read and cancel/delete), '
        'granted_then_retry (refused, added, same user same batch again), the same for batch creation (revoked/granted_then_create) '
        'and billing reads (_then_bpread), deactivated/reactivated_then_retry. Plus a systematic pass: every such route x {owner, '
        'member} x {0 s, 3 s}: granted, removed, again, re-added, again. Non-trivial history: at least one request whose required answer '
        'differs from the answer the same user got for the same batch / project earlier in the history, or a member and a non-member of '
        'one batch in flight together. '
        'REQUESTS IN FLIGHT AT ONCE (step kind par, generated-concurrency mode as World.op_par does it for the SQL-level checks): two or '
        'three requests of a history run as concurrent asyncio tasks on the world\'s virtual loop; each first yields a generated number of '
        'times (who arrives first), then every SQL statement any of them sends is a schedule point at which a generated schedule (list of '
        'ints 0-4 = number of sleep(0) yields) decides who goes next. Groups are laid out by construction (membership arranged first): 4 '
        'in 10 a member and a non-member on the SAME batch (read / cancel / delete in any combination; also right after a revocation: '
        'the revoked user and a member), two different members, the same user twice, different batches, callers who must all be refused '
        '(mutations, owner-only update, administration), a membership change by the developer racing with a request of that user; 1 in 3 '
        'groups gets a third request (any batch route, owner-only update, billing read, list, administration attempt, batch creation). '
        'Every answer is judged exactly like a sequential one against the rows as they were when the group started - none of the '
        'sub-requests changes billing_project_users or batches.billing_project/user except the racing membership change (requests of '
        'that user: either serial order accepted) and a member\'s DELETE of the batch (404 / "does not exist" accepted for the others on '
        'that batch); a refused caller must have sent no write statement (per-request SQL log carried in the task context) and, when no '
        'other request of the group wrote, nothing may have changed. Systematic part: every billing_project_users_only route x {owner, '
        'member} with the stranger in flight on the same batch: member first, stranger first, stranger held at its first statement, '
        'member delayed. Classes: two_/three_requests_in_flight, same_batch_different_users_in_flight, '
        'same_batch_member_and_nonmember_in_flight, same_batch_same_user_in_flight, different_batches_in_flight, '
        'in_flight_all_must_be_refused, in_flight_with_allowed_mutation, in_flight_membership_change_racing, in_flight_delete_racing, '
        'in_flight_statements_interleaved (the statements of the requests really alternated).')
ASSUMPTIONS = [
    'the auth service returns userdata only for active users (its SQL filters state = active); the batch side is exercised with state '
    '"inactive" userdata (the one state gear.auth rejects) and with 401 answers',
    'jinja2/aiohttp_jinja2 are absent: page rendering is replaced by a JSON echo of template name and context keys; everything before is real',
    'cookie sessions are simulated through the aiohttp_session shim (request["aiohttp_session"]); cookie encryption is not exercised',
    'requests hit Application._handle (router + middlewares + handler); the HTTP parser / RequestHandler error mapping is not exercised: an '
    'uncaught exception is counted as a 500 answer',
    'allowed requests whose SQL is outside the minimysql dialect (list / billing queries) are counted as not judged, not as harness errors',
    'histories: membership and ownership live in the batch database and must be honoured by the very next request; the account state '
    'lives at the auth service, whose answer the front end may reuse for the lifetime of its userdata cache (read from '
    'front_end.auth._userdata_cache.lifetime_ns, 10 s): for that long after a state change either state is accepted (whichever the '
    'answer shows, the rest of the statement is applied to it), afterwards only the new one',
    'histories: time.monotonic_ns as seen by gear.time_limited_max_size_cache (the cache class of the service) follows the virtual clock '
    'of the world, like time_msecs; a memo that keeps its own wall-clock time source is only exercised at age 0',
    'histories: a 403 that carries its own reason on a request with a deleted batch (e.g. cancelling it: "Job Group (1, 0) does not '
    'exist") is a business-rule answer, not a refusal of the member',
    'requests in flight at once: interleavings are explored at SQL statement boundaries (and at the arrival of each request) of one '
    'front-end process; transactions serialise from their first write or locking read (minimysql gate) as InnoDB locking would make them; '
    'the auth service answers without delay, so a request is never suspended between authentication and its first statement',
]
TRUSTED = ['vlib/batchsim/httpapp.py (app assembly, fake auth service, mocked requests)', 'vlib/minimysql', 'route classification predicates in checks/c14.py',
           'history interpreter and per-step expectation in checks/c14.py (run_history: reads billing_project_users / batches rows before each request)',
           'HttpWorld.request_par (concurrent tasks, schedule hook at every SQL statement, per-request SQL log by task context)']

MISSING_BATCH = 987654
MEMBERS = {'bp1': {'alice', 'bob', 'ina'}, 'bp2': {'alice'}, 'bp3': {'carol'}}

CALLERS = {
    'anon': dict(kind='unauth'),
    'malformed': dict(kind='unauth', raw_auth='Basic YWxpY2U6eA=='),
    'badtoken': dict(kind='unauth', token='tok-unknown'),
    'badcookie': dict(kind='unauth', token='tok-unknown', cookie=True, csrf=True),
    'inactive': dict(kind='inactive', token='tok-ina', user='ina'),
    'stranger': dict(kind='user', token='tok-carol', user='carol', role='stranger'),
    'member': dict(kind='user', token='tok-bob', user='bob', role='member'),
    'owner': dict(kind='user', token='tok-alice', user='alice', role='owner'),
    'developer': dict(kind='user', token='tok-dev', user='dev', role='developer'),
    'auth': dict(kind='user', token='tok-auth', user='auth', role='auth'),
    'owner_cookie': dict(kind='user', token='tok-alice', user='alice', role='owner', cookie=True, csrf=True),
    'owner_nocsrf': dict(kind='user', token='tok-alice', user='alice', role='owner', cookie=True, csrf=False),
    'stranger_cookie': dict(kind='user', token='tok-carol', user='carol', role='stranger', cookie=True, csrf=True),
}
CALLER_NAMES = list(CALLERS)

PUBLIC_EXACT = {'/healthcheck', '/api/v1alpha/version', '/api/v1alpha/cloud', '/swagger', '/openapi.yaml', '/tos', '/privacy'}
PUBLIC_PREFIX = ('/batch/static/', '/common_static')
OWNER_ONLY = re.compile(r'/(jobs/create|job-groups/create|updates/create|update-fast|commit|close)$')
SAFE = ('GET', 'HEAD', 'OPTIONS')
# member/owner requests with existing ids on these must not be 404 either
CORE_NO_404 = {('GET', '/api/v1alpha/batches/{batch_id}'), ('PATCH', '/api/v1alpha/batches/{batch_id}/cancel'),
               ('DELETE', '/api/v1alpha/batches/{batch_id}'), ('GET', '/api/v1alpha/batches/{batch_id}/jobs/{job_id}'),
               ('GET', '/api/v1alpha/batches/{batch_id}/job-groups/{job_group_id}'),
               ('PATCH', '/api/v1alpha/batches/{batch_id}/job-groups/{job_group_id}/cancel'),
               ('POST', '/api/v1alpha/batches/{batch_id}/updates/create'),
               ('PATCH', '/api/v1alpha/batches/{batch_id}/updates/{update_id}/commit'),
               ('POST', '/batches/{batch_id}/cancel'), ('POST', '/batches/{batch_id}/delete'), ('GET', '/batches/{batch_id}')}
LIST_ROUTES = {'/api/v1alpha/batches', '/api/v2alpha/batches', '/api/v1alpha/batches/completed', '/batches'}

PARAM_VALUES = {
    'batch_id': ['B', 'missing'],
    'job_id': [1, 77],
    'job_group_id': [1, 55],
    'update_id': [2, 1, 9],
    'container': ['main'],
    'billing_project': ['bp1', 'newbp'],
    'user': ['bob', 'zed'],
    'filename': ['x.js'],
}
EXISTING = {'batch_id': 'B', 'job_id': 1, 'job_group_id': 1, 'container': 'main', 'billing_project': 'bp1', 'user': 'bob'}


def route_class(method, tmpl):
    if tmpl in PUBLIC_EXACT or tmpl.startswith(PUBLIC_PREFIX):
        return 'public'
    if '{batch_id}' in tmpl:
        if method not in SAFE and OWNER_ONLY.search(tmpl):
            return 'batch_owner_only'
        return 'batch'
    if method not in SAFE and ('/billing_projects' in tmpl or '/billing_limits' in tmpl):
        return 'bp_admin'
    if tmpl == '/billing_projects':
        return 'bp_admin_page'      # the administration page itself: the statement does not say who else may look at it
    if method not in SAFE and tmpl.endswith(('/batches/create', '/batches/create-fast')):
        return 'batch_create'
    if '{billing_project}' in tmpl:
        return 'bp_read'
    return 'authenticated'


def body_variants(method, tmpl):
    if method in SAFE:
        return [{}]
    if tmpl.endswith(('/updates/create', '/update-fast')):
        out = [{'token': t} for t in ('fresh', 'open', 'committed')]
        if tmpl.endswith('/update-fast'):
            out += [{'token': 'open', 'bunch': 0}, {'token': 'committed', 'bunch': 0}]
        return out
    if tmpl.endswith(('/batches/create', '/batches/create-fast')):
        return [{'bp': 'bp1', 'token': 'fresh'}, {'bp': 'bp3', 'token': 'fresh'}, {'bp': 'bp1', 'token': 'batch'}]
    return [{}]


def expectation(method, tmpl, caller, bind, variant):
    c = CALLERS[caller]
    cls = route_class(method, tmpl)
    if cls == 'public':
        return 'allow_public'
    if c['kind'] == 'unauth':
        return 'deny_auth'
    if c['kind'] == 'inactive':
        return 'deny_inactive'
    if c.get('cookie') and not c.get('csrf') and method not in SAFE:
        return 'deny_csrf'
    role, user = c['role'], c['user']
    if cls in ('batch', 'batch_owner_only'):
        if bind.get('batch_id') != 'B':
            return 'deny_missing'
        if cls == 'batch_owner_only':
            if role == 'owner':
                return 'allow_owner'
            return 'deny_owner_only' if role == 'member' else 'deny_nonmember_owner_only'
        if role not in ('owner', 'member'):
            return 'deny_nonmember'
        return 'allow_member'
    if cls == 'bp_admin':
        if role == 'developer':
            return 'allow_admin'
        if role == 'auth':
            return 'allow_admin' if tmpl.startswith('/api/') else 'either'
        return 'deny_admin'
    if cls == 'bp_admin_page':
        return 'allow_admin' if role == 'developer' else 'either'
    if cls == 'batch_create':
        bp = variant.get('bp', 'bp1')
        return 'allow_create' if user in MEMBERS.get(bp, ()) else 'deny_bp'
    if cls == 'bp_read':
        bp = bind.get('billing_project')
        if role in ('developer', 'auth') or user in MEMBERS.get(bp, ()):
            return 'either' if bp not in MEMBERS else 'allow_authenticated'
        return 'deny_bp_read'
    return 'allow_authenticated'


# ---------------------------------------------------------------------------------------------- world
JOB = {'process': {'type': 'docker', 'command': ['true'], 'image': 'ubuntu'}, 'resources': {'cpu': '1', 'memory': 'standard'},
       'always_run': False, 'absolute_job_group_id': 0}


class Ctx:
    """A pristine world + its reference snapshot; rebuilt after any request that changed something."""

    def __init__(self, loop):
        self.loop = loop
        self.w = None
        self.snap0 = None
        self.side0 = None
        self.builds = 0
        self.routes = None
        self.state = None

    def tables(self):
        extra = ['billing_projects', 'billing_project_users', 'job_group_attributes', 'job_attributes', 'globals', 'batch_bunches']
        return list(self.w.SNAP_TABLES) + [t for t in extra if t.lower() in self.w.engine.tables and t not in self.w.SNAP_TABLES]

    async def _build(self, state='staged'):
        from vlib.batchsim.httpapp import HttpWorld
        if self.w is not None:
            await self.w.close()
            self.w = None
        self.state = state
        w = HttpWorld(n_tokens=2, users=('alice', 'bob'))
        await w.start()
        s = w.engine.connect()
        try:
            s.execute('INSERT INTO billing_projects (name, name_cs) VALUES (%s, %s)', ('bp3', 'bp3'))
            for bp, u in (('bp3', 'carol'), ('bp1', 'ina')):
                s.execute('INSERT INTO billing_project_users (billing_project, `user`, user_cs) VALUES (%s, %s, %s)', (bp, u, u))
        finally:
            w.engine.close_session(s)
        ops = [['batch', 0, 0], ['submit', 0, [0], [{'g': -1}, {'g': 0}]], ['update', 0, [], [{'g': 0}]]]
        if state == 'staged':
            ops.append(['jobs', 1])       # the open update's one job is already staged: a commit of update 2 would succeed
        for op in ops:
            r = await w.apply(op)
            if not r.get('ok'):
                raise RuntimeError(f'C14 set-up op {op} failed: {r}')
        for name, c in CALLERS.items():
            if c.get('user'):
                ud = w.userdata(c['user'])
                ud['id'] = 100 + len(w.tokens)
                ud['namespace_name'] = 'default'
                if c['kind'] == 'inactive':
                    ud['state'] = 'inactive'
                if c.get('role') == 'developer':
                    ud['is_developer'] = 1
                w.tokens[c['token']] = ud
        w.tokens['tok-unknown'] = None
        self.w = w
        self.B = w.batches[0]['id']
        self._tables = None
        self.tok = dict(batch=w.batches[0]['token'], committed=w.updates[0]['token'], open=w.updates[1]['token'])
        self.snap0 = w.snap(self.tables())
        self.side0 = w.side_effects()
        self.builds += 1
        self.fresh_n = 0
        if self.routes is None:
            self.routes = w.route_table()

    def ensure(self, state=None):
        state = state or self.state or 'staged'
        if self.w is None or self.state != state:
            self.loop.run_until_complete(self._build(state))
        return self.w

    def rebuild(self):
        self.loop.run_until_complete(self._build(self.state or 'staged'))

    def close(self):
        uninstall_clock(self)
        if self.w is not None:
            self.loop.run_until_complete(self.w.close())
            self.w = None

    def hist_begin(self):
        """a fresh application instance for one history: the static world plus a user who is in no project; gear's cache clock is virtual
        and strictly later than anything an earlier instance in this process has seen"""
        self.rebuild()
        w = self.w
        ud = w.userdata('dave')
        ud['id'] = 100 + len(w.tokens)
        ud['namespace_name'] = 'default'
        w.tokens['tok-dave'] = ud
        self.clock_base_ns = getattr(self, 'clock_base_ns', 0) + 10 ** 15
        install_clock(self)
        cache = getattr(w.m.fe.auth, '_userdata_cache', None)
        self.auth_grace_ms = int(getattr(cache, 'lifetime_ns', 10 ** 10)) // 10 ** 6

    # ---- request construction ------------------------------------------------------------------
    def path_for(self, tmpl, bind):
        def sub(mo):
            k = mo.group(1)
            v = bind.get(k, EXISTING.get(k, 'x'))
            if k == 'batch_id':
                v = self.B if v == 'B' else MISSING_BATCH if v == 'missing' else v
            return str(v)
        return re.sub(r'\{(\w+)(?::[^}]*)?\}', sub, tmpl) or '/'

    def token_for(self, which):
        if which in self.tok:
            return self.tok[which]
        if which == 'fresh' or which is None:
            self.fresh_n += 1
            return f'fresh-{self.builds}-{self.fresh_n}'
        return str(which)

    def body_for(self, method, tmpl, variant, caller):
        """-> (bytes, content type | None)"""
        if method in SAFE:
            return b'', None
        v = variant or {}
        ui = not tmpl.startswith('/api/')
        drop = v.get('drop')
        n_bunch = v.get('bunch', 1)
        jobs = [dict(JOB, job_id=i + 1) for i in range(n_bunch)]
        groups = [{'job_group_id': i + 1, 'absolute_parent_id': 0} for i in range(v.get('groups', 0))]
        obj = None
        if tmpl.endswith('/updates/create'):
            obj = {'token': self.token_for(v.get('token')), 'n_jobs': v.get('n_jobs', 1), 'n_job_groups': v.get('n_job_groups', 0)}
        elif tmpl.endswith('/update-fast'):
            obj = {'update': {'token': self.token_for(v.get('token')), 'n_jobs': v.get('n_jobs', max(n_bunch, 1)),
                              'n_job_groups': v.get('n_job_groups', len(groups))}, 'bunch': jobs, 'job_groups': groups}
        elif tmpl.endswith('/batches/create'):
            obj = {'billing_project': v.get('bp', 'bp1'), 'token': self.token_for(v.get('token')), 'n_jobs': v.get('n_jobs', 1),
                   'n_job_groups': v.get('n_job_groups', 0), 'attributes': {'name': 'x'}}
        elif tmpl.endswith('/batches/create-fast'):
            obj = {'batch': {'billing_project': v.get('bp', 'bp1'), 'token': self.token_for(v.get('token')), 'n_jobs': v.get('n_jobs', max(n_bunch, 1)),
                             'n_job_groups': v.get('n_job_groups', len(groups))}, 'bunch': jobs, 'job_groups': groups}
        elif tmpl.endswith('/jobs/create'):
            obj = jobs
        elif tmpl.endswith('/job-groups/create'):
            obj = groups or [{'job_group_id': 1, 'absolute_parent_id': 0}]
        elif '/billing_limits/' in tmpl and not ui:
            obj = {'limit': v.get('limit', 5)}
        if obj is not None:
            if drop is not None and isinstance(obj, dict) and obj:
                keys = sorted(obj)
                obj = {k: x for k, x in obj.items() if k != keys[drop % len(keys)]}
            return json.dumps(obj).encode(), 'application/json'
        if ui:
            form = {}
            if '/billing_limits/' in tmpl:
                form['limit'] = str(v.get('limit', 5))
            elif tmpl.endswith('/users/add'):
                form['user'] = 'zed'
            elif tmpl.endswith('/billing_projects/create'):
                form['billing_project'] = 'newbp'
            else:
                form['q'] = ''
            c = CALLERS[caller]
            if c.get('cookie') and c.get('csrf'):
                form['_csrf'] = 'csrf-tok'
            from urllib.parse import urlencode
            return urlencode(form).encode(), 'application/x-www-form-urlencoded'
        return b'', None

    def headers_for(self, caller, method, tmpl, ctype):
        c = CALLERS[caller]
        h = {}
        session = None
        if ctype:
            h['Content-Type'] = ctype
        if c.get('raw_auth'):
            h['Authorization'] = c['raw_auth']
        elif c.get('cookie'):
            session = {'session_id': c['token']}
            cookies = 'gcp_session=opaque'
            if c.get('csrf'):
                cookies += '; _csrf=csrf-tok'
                if tmpl.startswith('/api/'):
                    h['X-CSRF-Token'] = 'csrf-tok'
            h['Cookie'] = cookies
        elif c.get('token'):
            h['Authorization'] = 'Bearer ' + c['token']
        return h, session

    def do(self, case):
        """Execute one case on a pristine world.  -> (response dict, changed tables, side-effect diff)"""
        w = self.ensure(case.get('state', 'staged'))
        method, tmpl = case['route']
        body, ctype = self.body_for(method, tmpl, case.get('variant'), case['caller'])
        headers, session = self.headers_for(case['caller'], method, tmpl, ctype)
        path = self.path_for(tmpl, case.get('bind') or {})
        resp = self.loop.run_until_complete(w.request(method, path, headers=headers, body=body, session=session))
        snap = w.snap(self.tables())
        changed = sorted(t for t in snap if snap[t] != self.snap0[t])
        side = w.side_effects()
        side_changed = sorted(k for k in side if side[k] != self.side0[k])
        resp['path'] = path
        if changed or side_changed or resp.get('notsupported'):
            self.loop.run_until_complete(self._drop())
        return resp, changed, side_changed

    async def _drop(self):
        await self.w.close()
        self.w = None


# ---------------------------------------------------------------------------------------------- oracle
DENY_STATUS = {
    'deny_auth': {401, 403}, 'deny_inactive': {401, 403}, 'deny_csrf': {401, 403}, 'deny_nonmember': {401, 403, 404},
    'deny_admin': {401, 403}, 'deny_owner_only': set(range(400, 500)), 'deny_nonmember_owner_only': {401, 403, 404}, 'deny_missing': set(range(400, 500)),
    'deny_bp': set(range(400, 500)), 'deny_bp_read': set(range(400, 500)),
}
DENY_CLAUSE = {
    'deny_auth': 'every endpoint except the public ones requires an authenticated user',
    'deny_inactive': 'every endpoint except the public ones requires an active user',
    'deny_csrf': 'a cookie-authenticated state-changing request without a CSRF token is refused',
    'deny_nonmember': "a user can read, cancel or delete a batch only if they belong to the batch's billing project",
    'deny_admin': 'only developers or the auth service can administer billing projects',
    'deny_owner_only': 'a user can add jobs, groups or updates to, or commit, only batches they own',
    'deny_nonmember_owner_only': 'a user can add jobs, groups or updates to, or commit, only batches they own',
    'deny_missing': 'a request on a batch that does not exist gets an error and nothing changes',
    'deny_bp': 'a user can create a batch only in a billing project they belong to',
    'deny_bp_read': 'billing information is visible only to members of the billing project, developers and the auth service',
}
SIG = {'deny_auth': 'unauthenticated-allowed', 'deny_inactive': 'inactive-allowed', 'deny_csrf': 'missing-csrf-allowed',
       'deny_nonmember': 'nonmember-allowed', 'deny_admin': 'nonadmin-allowed', 'deny_owner_only': 'nonowner-allowed', 'deny_nonmember_owner_only': 'nonowner-allowed',
       'deny_missing': 'missing-batch-not-an-error', 'deny_bp': 'create-in-foreign-project-allowed', 'deny_bp_read': 'foreign-project-read-allowed'}
_SELECT = re.compile(r'^\s*\(?\s*(SELECT|WITH)\b', re.I)


def is_login_redirect(resp):
    return resp['status'] in (302, 303, 307) and (resp.get('location') or '').startswith('https://auth.hail.test/user?next=')


def _all_existing(case):
    bind = case.get('bind') or {}
    return all(bind[k] == EXISTING[k] for k in bind if k in EXISTING) and bind.get('update_id', 2) == 2


def _refused(case, resp, method, tmpl):
    """access-control refusal (as opposed to a business-rule 403 such as 'billing project ... is closed' or a 403 for an id that does
    not exist): 401, login redirect, a bare 403, or any 403 when every id in the path exists and the route is not billing administration"""
    st = resp['status']
    if st == 401 or is_login_redirect(resp):
        return True
    if st == 403:
        if resp.get('reason') in (None, 'Forbidden') or 'inactive' in str(resp.get('text')):
            return True
        return _all_existing(case) and route_class(method, tmpl) not in ('bp_admin', 'bp_admin_page')
    return False


def judge(case, exp, resp, changed, side_changed, hname, generated=False):
    """-> (nontrivial, classes, failures)"""
    method, tmpl = case['route']
    caller = case['caller']
    fails = []
    classes = {exp, f'caller_{caller}', f'class_{route_class(method, tmpl)}'}
    st = resp['status']
    desc = (f"{method} {resp.get('path')} [{tmpl}] caller={caller} variant={case.get('variant')} -> status {st}"
            f"{' location ' + str(resp.get('location')) if resp.get('location') else ''}"
            f"{' exc ' + resp['exc'] if resp.get('exc') else ''}{' NotSupported ' + resp['notsupported'] if resp.get('notsupported') else ''}")
    writes = [s for ph, s in resp['sql'] if ph == 'statement' and not _SELECT.match(s)]
    stmts = [s for ph, s in resp['sql'] if ph == 'statement']
    nontrivial = False
    if exp.startswith('deny_'):
        nontrivial = method not in SAFE
        ok_status = set(DENY_STATUS[exp])
        if generated and exp in ('deny_nonmember', 'deny_owner_only', 'deny_nonmember_owner_only', 'deny_missing', 'deny_bp', 'deny_bp_read'):
            ok_status = set(range(400, 600))      # malformed ids / bodies may be refused with any error
        status_ok = st in ok_status or (exp in ('deny_auth', 'deny_inactive') and is_login_redirect(resp))
        if resp.get('notsupported'):
            fails.append((f'denied-request-reached-handler-sql:{hname}', DENY_CLAUSE[exp] + ' (before any handler work)',
                          f'{desc}; SQL so far: {stmts[-3:]}'))
        elif not status_ok and st == 500 and resp.get('exc') and not writes and exp not in ('deny_auth', 'deny_inactive', 'deny_csrf', 'deny_admin'):
            # the handler's own look-up crashed before it could answer: an error, nothing changed -> not an access-control violation,
            # but recorded (see notes) because the ownership filter of such a route is not observable
            classes.add(f'denied_by_server_error:{hname}')
        elif not status_ok:
            fails.append((f'{SIG[exp]}:{hname}', DENY_CLAUSE[exp], f'{desc}; body {str(resp.get("text"))[:200]}'))
        if changed or side_changed:
            fails.append((f'denied-but-changed:{hname}', 'every other caller gets an error and nothing changes',
                          f'{desc}; changed tables {changed}, side effects {side_changed}; writes {writes[:4]}'))
        elif writes:
            fails.append((f'denied-ran-write-sql:{hname}', 'every other caller gets an error and nothing changes (no statement beyond access-control lookups)',
                          f'{desc}; statements {writes[:4]}'))
        if exp in ('deny_auth', 'deny_inactive', 'deny_csrf') and stmts:
            fails.append((f'unauthenticated-reached-sql:{hname}', 'an unauthenticated caller is refused before any database work',
                          f'{desc}; statements {stmts[:3]}'))
    elif exp == 'either':
        pass
    else:
        if resp.get('notsupported'):
            classes.add('allow_not_judged_unsupported_sql')
        elif _refused(case, resp, method, tmpl):
            role = CALLERS[caller].get('role', caller)
            fails.append((f'{role}-refused:{hname}' if exp != 'allow_public' else f'public-route-refused:{hname}',
                          {'allow_public': 'health, version/cloud information, documentation, legal pages and static assets need no authentication',
                           'allow_member': "a member of the batch's billing project can read, cancel or delete the batch",
                           'allow_owner': 'the owner can add jobs, groups or updates to, and commit, their batch',
                           'allow_admin': 'developers and the auth service can administer billing projects',
                           'allow_create': 'a member of a billing project can create batches in it',
                           'allow_authenticated': 'an authenticated active user can use the endpoint'}[exp], desc))
        elif st == 404 and (method, tmpl) in CORE_NO_404 and exp in ('allow_member', 'allow_owner') \
                and _all_existing(case):
            fails.append((f'{CALLERS[caller]["role"]}-refused:{hname}', 'member / owner access to an existing batch is not answered 404', desc))
        elif st is not None and st >= 500:
            classes.add('allow_errored_500')
        elif st is not None and st >= 400:
            classes.add('allow_answered_4xx')
        else:
            classes.add('allow_succeeded')
        # list endpoints must not show B to callers outside bp1
        role = CALLERS[caller].get('role')
        if tmpl in LIST_ROUTES and role in ('stranger', 'developer', 'auth') and resp.get('json') is not None:
            txt = json.dumps(resp['json'])
            ids = set()
            j = resp['json']
            if isinstance(j, dict):
                for b in j.get('batches') or []:
                    if isinstance(b, dict):
                        ids.add(b.get('id'))
                for i in j.get('batch_ids') or []:
                    ids.add(i)
            if case.get('_B') in ids:
                fails.append((f'list-leaks-batch:{hname}', "a user can read a batch only if they belong to the batch's billing project",
                              f'{desc}; response lists batch {case.get("_B")}: {txt[:200]}'))
    if resp['sql']:
        classes.add('reached_sql')
    return nontrivial, sorted(classes), fails


# ---------------------------------------------------------------------------------------------- enumeration / generation
def bindings(tmpl):
    from itertools import product
    names = re.findall(r'\{(\w+)(?::[^}]*)?\}', tmpl)
    pools = [PARAM_VALUES.get(n, ['x']) for n in names]
    for combo in product(*pools):
        yield dict(zip(names, combo))


STATES = ('staged', 'unstaged')


def enum_cases(routes):
    for state in STATES:
        for method, tmpl, hname in routes:
            if state != 'staged' and route_class(method, tmpl) != 'batch_owner_only':
                continue      # the second state differs only in the open update: relevant to the routes that add to / commit it
            for bind in bindings(tmpl):
                for variant in body_variants(method, tmpl):
                    for caller in CALLER_NAMES:
                        yield dict(route=[method, tmpl], caller=caller, bind=bind, variant=variant, state=state), hname


def run_one(ctx, case, hname=None, generated=False):
    ctx.ensure(case.get('state', 'staged'))
    method, tmpl = case['route']
    if hname is None:
        hname = next((h for m, t, h in ctx.routes if m == method and t == tmpl), None)
        if hname is None:
            return False, ['route_gone_skipped'], []
    exp = expectation(method, tmpl, case['caller'], case.get('bind') or {}, case.get('variant') or {})
    B = ctx.B
    resp, changed, side_changed = ctx.do(case)
    c2 = dict(case, _B=B)
    return judge(c2, exp, resp, changed, side_changed, hname, generated=generated)


# ---------------------------------------------------------------------------------------------- histories
# A case is a short sequence of steps against ONE application instance (one front-end process, one database, one virtual clock):
#   ['create', user, bp, fast]                 POST /api/v1alpha/batches/create(-fast) by `user` in `bp` (batch ref = 1 + index among creates)
#   ['req', user, [method, tmpl], ref, cookie] a billing_project_users_only route on batch `ref` (ref 0 = B of the static world)
#   ['own', user, ref]                         POST .../updates/create (owner-only)
#   ['member', 'add'|'remove', bp, user, via]  membership change: via api_dev / api_auth / ui_dev = the real administration routes called
#                                              by the developer / the auth user; via db = the same INSERT / DELETE on billing_project_users
#   ['try_admin', actor, op, bp, user, ui]     the same administration routes called by an ordinary user
#   ['state', user, 'inactive'|'active']       the auth service's answer for the user's session changes
#   ['tick', ms]                               virtual time passes (time_msecs and the monotonic clock of gear's caches)
#   ['list', user, tmpl] / ['bpread', user, bp]
#   ['par', [sub, sub(, sub)], sched, starts]  two or three of the request steps above IN FLIGHT AT ONCE: each runs as its own asyncio task on the
#                                              world's virtual loop (HttpWorld.request_par); request i first yields starts[i] times (who arrives
#                                              first), then every SQL statement any of them sends is a schedule point at which `sched` (small
#                                              ints = number of `await asyncio.sleep(0)`) decides who goes next, exactly as World.op_par does for
#                                              the SQL-level checks.  Every answer is judged like a sequential one, against the rows as they
#                                              were when the group started: whether a caller must be let in depends on billing_project_users and
#                                              batches.billing_project / user only, which none of the sub-requests changes - except a membership
#                                              change by the developer (then the requests of THAT user are accepted either way = either serial
#                                              order) and a DELETE of the batch by a member (then a 404 / "does not exist" for the other requests
#                                              on that batch is accepted = the order in which the delete came first).  What changed during the group
#                                              is attributed to a refused request only if no other request of the group sent a write statement;
#                                              the statements a request sent itself are always known (per-request SQL log carried in the task
#                                              context), so "a refused caller runs no write SQL" is judged for every refused caller.
# After every request the expectation is computed from the database rows AS THEY ARE at that moment (billing_project_users, batches) and
# from the auth service's current answer; nothing is remembered from earlier requests except to label the shape of the history.
H_USERS = ['alice', 'bob', 'carol', 'dave', 'ina']
H_PLAIN = ['alice', 'bob', 'carol', 'dave']
H_BPS = ['bp1', 'bp2', 'bp3']
H_TICKS = [1, 250, 2000, 6000, 9999, 12000, 40000]
H_PRESET = [['create', 'bob', 'bp1', 1], ['create', 'alice', 'bp2', 0], ['create', 'carol', 'bp3', 1]]
H_ADMIN_ROUTES = {('add', 0): '/api/v1alpha/billing_projects/{billing_project}/users/{user}/add',
                  ('add', 1): '/billing_projects/{billing_project}/users/add',
                  ('remove', 0): '/api/v1alpha/billing_projects/{billing_project}/users/{user}/remove',
                  ('remove', 1): '/billing_projects/{billing_project}/users/{user}/remove'}
H_LISTS = ['/batches', '/api/v1alpha/batches', '/api/v2alpha/batches', '/api/v1alpha/billing_projects']
H_CREATE = ['/api/v1alpha/batches/create', '/api/v1alpha/batches/create-fast']
H_OWN = '/api/v1alpha/batches/{batch_id}/updates/create'
H_BPREAD = '/api/v1alpha/billing_projects/{billing_project}'
PAR_KINDS = ('req', 'own', 'create', 'bpread', 'list', 'try_admin', 'member')


class _Clock:
    """stands in for the `time` module inside gear.time_limited_max_size_cache (the class behind the front end's userdata cache and the
    other service caches): monotonic_ns follows the world's virtual clock, everything else is the real module"""

    def __init__(self, ctx):
        import time as _t
        self._t = _t
        self._ctx = ctx

    def monotonic_ns(self):
        w = self._ctx.w
        return self._t.monotonic_ns() if w is None else self._ctx.clock_base_ns + int(w.now_ms()) * 1_000_000

    def __getattr__(self, k):
        return getattr(self._t, k)


def install_clock(ctx):
    import gear.time_limited_max_size_cache as tl
    if not isinstance(tl.time, _Clock):
        ctx._saved_time = (tl, tl.time)
    tl.time = _Clock(ctx)


def uninstall_clock(ctx):
    saved = getattr(ctx, '_saved_time', None)
    if saved is not None:
        saved[0].time = saved[1]
        ctx._saved_time = None


def _h_status_deny(exp, resp, changed, side_changed, hname, desc, sig_status=None):
    """the refusal side of the statement for one request of a history -> (classes, failures)"""
    fails, classes = [], set()
    st = resp['status']
    writes = [s for ph, s in resp['sql'] if ph == 'statement' and not _SELECT.match(s)]
    stmts = [s for ph, s in resp['sql'] if ph == 'statement']
    status_ok = st in DENY_STATUS[exp] or (exp in ('deny_auth', 'deny_inactive') and is_login_redirect(resp))
    if resp.get('notsupported'):
        fails.append((f'denied-request-reached-handler-sql:{hname}', DENY_CLAUSE[exp] + ' (before any handler work)', f'{desc}; SQL so far: {stmts[-3:]}'))
    elif not status_ok and st == 500 and resp.get('exc') and not writes and exp not in ('deny_auth', 'deny_inactive', 'deny_csrf', 'deny_admin'):
        classes.add(f'denied_by_server_error:{hname}')
    elif not status_ok:
        fails.append((f'{sig_status or SIG[exp]}:{hname}', DENY_CLAUSE[exp], f'{desc}; body {str(resp.get("text"))[:160]}'))
    if changed or side_changed:
        fails.append((f'denied-but-changed:{hname}', 'every other caller gets an error and nothing changes',
                      f'{desc}; changed tables {changed}, side effects {side_changed}; writes {writes[:4]}'))
    elif writes:
        fails.append((f'denied-ran-write-sql:{hname}', 'every other caller gets an error and nothing changes (no statement beyond access-control lookups)',
                      f'{desc}; statements {writes[:4]}'))
    if exp == 'deny_inactive' and stmts:
        fails.append((f'unauthenticated-reached-sql:{hname}', 'an unauthenticated caller is refused before any database work', f'{desc}; statements {stmts[:3]}'))
    return classes, fails


H_ALLOW_CLAUSE = {'allow_member': "a member of the batch's billing project can read, cancel or delete the batch",
                  'allow_owner': 'the owner can add jobs, groups or updates to, and commit, their batch',
                  'allow_admin': 'developers and the auth service can administer billing projects',
                  'allow_create': 'a member of a billing project can create batches in it',
                  'allow_bp_read': 'billing information is visible to members of the billing project',
                  'allow_authenticated': 'an authenticated active user can use the endpoint'}


def _h_status_allow(exp, resp, hname, desc, who, alive, no_404, sig_status=None):
    """alive: every id in the path names a live object.  As in the static part, a 403 that carries its own reason is a business-rule
    answer (e.g. cancelling a deleted batch: 'Job Group (1, 0) does not exist') unless every id exists and the route is not administration"""
    fails, classes = [], set()
    st = resp['status']
    bare_403 = st == 403 and (resp.get('reason') in (None, 'Forbidden') or 'inactive' in str(resp.get('text')))
    if resp.get('notsupported'):
        classes.add('allow_not_judged_unsupported_sql')
    elif st == 401 or is_login_redirect(resp) or bare_403 or (st == 403 and alive and exp != 'allow_admin') or (st == 404 and no_404):
        fails.append((f'{sig_status or who + "-refused"}:{hname}', H_ALLOW_CLAUSE[exp], f'{desc}; body {str(resp.get("text"))[:160]}'))
    elif st is not None and st >= 500:
        classes.add('allow_errored_500')
    elif st is not None and st >= 400:
        classes.add('allow_answered_4xx')
    else:
        classes.add('allow_succeeded')
    return classes, fails


def run_history(ctx, case):
    """-> (nontrivial, classes, failures); stops at the first step that fails"""
    from urllib.parse import urlencode
    ctx.hist_begin()
    w, loop = ctx.w, ctx.loop
    hnames = {}
    for m, t, h in ctx.routes:
        hnames.setdefault((m, t), h)
    tables = ctx.tables()
    grace = ctx.auth_grace_ms
    batches = [ctx.B]                 # batch ref -> id | None (creation refused)
    auth = {u: ['active', None] for u in H_USERS + ['dev', 'auth']}        # user -> [state at the auth service, virtual ms of the last change]
    auth['ina'] = ['inactive', None]
    last = {}                         # (user, kind, target) -> dict(m='allow'|'deny', ok=answered without error)
    member_t = {}                     # (bp, user) -> virtual ms of the last actual membership change
    classes, fails, trace = set(), [], []
    shapes = set()
    inflight_diff = []                # steps at which a member and a non-member of one batch were in flight together
    evts = ('cancel_batch_state_changed', 'delete_batch_state_changed')

    def observe():
        """-> (snapshot, side effects as they are, the same with the two notification events re-armed for the next step)"""
        sn, sd = w.snap(tables), w.side_effects()
        for k in evts:
            w.app[k].clear()
        return sn, sd, dict(sd, events={k: False for k in sd['events']})

    def request_of(P):
        """the HTTP request of a prepared step -> dict(method, path, headers, body, session)"""
        user, cookie, method, tmpl, form = P['user'], P['cookie'], P['method'], P['tmpl'], P['form']
        body, ctype = b'', None
        if method not in SAFE:
            if form is not None or not tmpl.startswith('/api/'):
                f = dict(form if form is not None else {'q': ''})
                if cookie:
                    f['_csrf'] = 'csrf-tok'
                body, ctype = urlencode(f).encode(), 'application/x-www-form-urlencoded'
            else:
                body, ctype = ctx.body_for(method, tmpl, P['variant'] or {}, None)
        h, session = {}, None
        if ctype:
            h['Content-Type'] = ctype
        if cookie:
            session = {'session_id': 'tok-' + user}
            h['Cookie'] = 'gcp_session=opaque; _csrf=csrf-tok'
            if tmpl.startswith('/api/'):
                h['X-CSRF-Token'] = 'csrf-tok'
        else:
            h['Authorization'] = 'Bearer tok-' + user
        return dict(method=method, path=P['path'], headers=h, body=body, session=session)

    def prepare(step, mem, bat):
        """who, what, and what the statement says about it right now (mem / bat: the membership and batch rows as they are)
        -> dict | None (the route no longer exists)"""
        kind = step[0]
        P = dict(kind=kind, cookie=0, variant=None, form=None, bind_desc='', skey=None, bp_of=None, alive=True, no_404=False, bid=None,
                 bp=None, target=None)
        if kind == 'req':
            _, user, (method, tmpl), ref, cookie = step
            bid = batches[ref] if 0 <= ref < len(batches) else None
            row = bat.get(bid) if bid is not None else None
            path = ctx.path_for(tmpl, {'batch_id': bid if row is not None else 'missing', 'job_id': 1, 'job_group_id': 0})
            P['cookie'] = cookie
            if row is None:
                mexp = 'deny_missing'
            else:
                P['bid'] = bid
                P['bp_of'] = bp_of = row['billing_project']
                mexp = 'allow_member' if (bp_of, user) in mem else 'deny_nonmember'
                P['skey'] = (user, 'retry', bid)
                P['alive'] = alive = not row['deleted']
                P['no_404'] = alive and (method, tmpl) in CORE_NO_404 and '{job_id}' not in tmpl and '{job_group_id}' not in tmpl
        elif kind == 'own':
            _, user, ref = step
            method, tmpl = 'POST', H_OWN
            bid = batches[ref] if 0 <= ref < len(batches) else None
            row = bat.get(bid) if bid is not None else None
            path = ctx.path_for(tmpl, {'batch_id': bid if row is not None else 'missing'})
            P['variant'] = {'token': 'fresh'}
            if row is None:
                mexp = 'deny_missing'
            else:
                P['bid'] = bid
                owner, member = row['user'] == user, (row['billing_project'], user) in mem
                P['alive'] = not row['deleted']
                mexp = ('allow_owner' if member else 'either') if owner else ('deny_owner_only' if member else 'deny_nonmember_owner_only')
        elif kind == 'create':
            _, user, bp, fast = step
            method, tmpl = 'POST', H_CREATE[1 if fast else 0]
            path = tmpl
            P['variant'] = {'bp': bp, 'token': 'fresh'}
            mexp = 'allow_create' if (bp, user) in mem else 'deny_bp'
            P['skey'], P['bp_of'] = (user, 'create', bp), bp
        elif kind in ('member', 'try_admin'):
            if kind == 'member':
                _, op, bp, target, via = step
                user, ui = ('auth' if via == 'api_auth' else 'dev'), int(via == 'ui_dev')
                mexp = 'allow_admin'
            else:
                _, user, op, bp, target, ui = step
                mexp = 'deny_admin'
            method, tmpl = 'POST', H_ADMIN_ROUTES[(op, int(bool(ui)))]
            P['cookie'] = int(bool(ui))
            path = ctx.path_for(tmpl, {'billing_project': bp, 'user': target})
            if ui:
                P['form'] = {'user': target} if op == 'add' else {}
            P['bind_desc'] = f' ({op} {target})'
            P['bp'], P['target'] = bp, target
        elif kind == 'list':
            _, user, tmpl = step
            method, path = 'GET', tmpl
            mexp = 'allow_authenticated'
        elif kind == 'bpread':
            _, user, bp = step
            method, tmpl = 'GET', H_BPREAD
            path = ctx.path_for(tmpl, {'billing_project': bp})
            mexp = 'allow_bp_read' if (bp, user) in mem else 'deny_bp_read'
            P['skey'], P['bp_of'] = (user, 'bpread', bp), bp
        else:
            raise ValueError(f'unknown history step {step}')
        hname = hnames.get((method, tmpl))
        if hname is None:
            return None
        P.update(user=user, method=method, tmpl=tmpl, path=path, mexp=mexp, hname=hname)
        return P

    def assess(k, step, P, resp, changed, side_changed, now, mem, bat, snap2, ctxt='', in_group=False):
        """the statement applied to one answered request -> failures; updates classes / shape labels / the batch refs"""
        kind, user, method, tmpl, path, hname = P['kind'], P['user'], P['method'], P['tmpl'], P['path'], P['hname']
        mexp, skey, bp_of, cookie = P['mexp'], P['skey'], P['bp_of'], P['cookie']
        resp['path'] = path
        st = resp['status']

        # ---- the auth service's answer may be up to `grace` old (documented userdata cache); membership may not
        a_state, a_t = auth[user]
        in_grace = a_t is not None and now - a_t < grace
        if in_grace:
            looks_inactive = st == 403 and 'inactive' in str(resp.get('text'))
            eff_state = 'inactive' if looks_inactive else 'active'
        else:
            eff_state = a_state
        exp = 'deny_inactive' if eff_state == 'inactive' else mexp
        if a_t is not None and user in H_USERS:
            lab = ('deactivated' if a_state == 'inactive' else 'reactivated') + '_then_retry'
            shapes.add(lab)
            classes.add(lab + ('_within_cache_lifetime' if in_grace else '_after_cache_lifetime'))

        # ---- shape of the history for this (user, target): did the answer have to change since the last time?
        shape = None
        if skey is not None and a_state == 'active' and not in_grace and mexp != 'either':
            m_now = 'allow' if mexp.startswith('allow') else 'deny'
            prev = last.get(skey)
            if prev is not None and prev['m'] != m_now and prev['ok'] == (prev['m'] == 'allow'):
                shape = ('revoked' if m_now == 'deny' else 'granted') + '_then_' + skey[1]
                shapes.add(shape)
                classes.add(shape)
                dt = now - member_t.get((bp_of, user), now)
                classes.add(shape + ('_immediately' if dt == 0 else '_within_10s' if dt < 10000 else '_after_10s'))
                if method not in SAFE:
                    classes.add(shape + '_mutating_request')
                if in_group:
                    classes.add(shape + '_in_flight')
            elif prev is not None and prev['m'] == m_now:
                classes.add('same_answer_again')
            last[skey] = dict(m=m_now, ok=st is not None and st < 400 and not is_login_redirect(resp))

        desc = (f"step {k} {step}: {method} {path}{P['bind_desc']} as {user}{' (cookie)' if cookie else ''} -> status {st}"
                f"{' location ' + str(resp.get('location')) if resp.get('location') else ''}{' exc ' + resp['exc'] if resp.get('exc') else ''}"
                f"{' NotSupported ' + resp['notsupported'] if resp.get('notsupported') else ''}; the rows at that moment say {exp}")
        if bp_of:
            desc += f" (members of {bp_of}: {sorted(u for b, u in mem if b == bp_of)})"
        desc += ctxt
        if not in_group:
            trace.append(f'{k}: {method} {path}{P["bind_desc"]} as {user} -> {st}' + (f' ({len(changed)} tables changed)' if changed else ''))
        classes.update((exp, f'step_{kind}', f'class_{route_class(method, tmpl)}'))
        if in_group:
            classes.add(f'in_flight_{exp}')
        if exp.startswith('deny_'):
            sig = None
            if shape is not None and shape.startswith('revoked'):
                sig = 'revoked-member-still-allowed'
            c2, f2 = _h_status_deny(exp, resp, changed, side_changed, hname, desc, sig)
        elif exp == 'either':
            c2, f2 = set(), []
        else:
            sig = 'added-member-still-refused' if shape is not None and shape.startswith('granted') else None
            who = {'allow_admin': user, 'allow_owner': 'owner', 'allow_authenticated': 'user'}.get(exp, 'member')
            c2, f2 = _h_status_allow(exp, resp, hname, desc, who, P['alive'], P['no_404'], sig)
            if kind == 'list' and resp.get('json') is not None and not f2 and not P.get('racing'):
                j = resp['json']
                if tmpl == '/api/v1alpha/billing_projects':
                    shown = [x.get('billing_project') for x in j if isinstance(x, dict)] if isinstance(j, list) else []
                    leak = [b for b in shown if (b, user) not in mem]
                    if leak:
                        f2.append((f'list-leaks-billing-project:{hname}', 'billing information is visible only to members of the billing project, '
                                   'developers and the auth service', f'{desc}; response lists {leak}'))
                else:
                    ids = set()
                    if isinstance(j, dict):
                        ids.update(b.get('id') for b in (j.get('batches') or []) if isinstance(b, dict))
                        ids.update(j.get('batch_ids') or [])
                    leak = sorted(i for i in ids if i in bat and (bat[i]['billing_project'], user) not in mem)
                    if leak:
                        f2.append((f'list-leaks-batch:{hname}', "a user can read a batch only if they belong to the batch's billing project",
                                   f'{desc}; response lists batch(es) {leak}'))
        classes.update(c2)
        if kind == 'create':
            new_ids = sorted(r['id'] for r in snap2['batches'] if r['id'] not in bat)
            if in_group:       # several creations may have been in flight: the answer names its batch
                mine = resp['json'].get('id') if isinstance(resp.get('json'), dict) else None
                new_ids = [i for i in new_ids if i == mine]
            batches.append(new_ids[0] if len(new_ids) == 1 and st is not None and st < 400 else None)
        if kind == 'member':
            bp, target = P['bp'], P['target']
            was = (bp, target) in mem
            is_now = (bp, target) in {(r['billing_project'], r['user_cs']) for r in snap2['billing_project_users']}
            if was != is_now:
                member_t[(bp, target)] = now
                classes.add('membership_changed_by_admin_route')
        return f2

    snap, _, side = observe()
    for k, step in enumerate(case['steps']):
        kind = step[0]
        now = w.now_ms()
        if kind == 'tick':
            w.tick(int(step[1]))
            trace.append(f'{k}: +{step[1]} ms')
            continue
        if kind == 'state':
            _, user, state = step
            if auth[user][0] != state:
                w.tokens['tok-' + user]['state'] = state
                auth[user] = [state, now]
            trace.append(f'{k}: auth service now says {user} is {state}')
            continue
        mem = {(r['billing_project'], r['user_cs']) for r in snap['billing_project_users']}
        bat = {r['id']: r for r in snap['batches']}
        if kind == 'member' and step[4] == 'db':
            _, op, bp, user, _via = step
            s = w.engine.connect()
            try:
                if op == 'add' and (bp, user) not in mem:
                    s.execute('INSERT INTO billing_project_users (billing_project, `user`, user_cs) VALUES (%s, %s, %s)', (bp, user, user))
                elif op == 'remove' and (bp, user) in mem:
                    s.execute('DELETE FROM billing_project_users WHERE billing_project = %s AND user_cs = %s', (bp, user))
            finally:
                w.engine.close_session(s)
            snap, _, side = observe()
            if ((bp, user) in mem) != ((bp, user) in {(r['billing_project'], r['user_cs']) for r in snap['billing_project_users']}):
                member_t[(bp, user)] = now
                classes.add('membership_changed_db')
            trace.append(f'{k}: {op} {user} {"to" if op == "add" else "from"} {bp} (database)')
            continue

        if kind == 'par':
            # ---- two or three requests IN FLIGHT AT ONCE (see the comment block above run_history)
            subs = [list(x) for x in step[1] if x and x[0] in PAR_KINDS][:3]
            sched = [int(x) for x in (step[2] if len(step) > 2 else [])][:12]
            starts = [int(x) for x in (step[3] if len(step) > 3 else [])]
            Ps = []
            for sub in subs:
                P = prepare(sub, mem, bat)
                if P is None:
                    classes.add('route_gone_skipped')
                else:
                    Ps.append((sub, P))
            if not Ps:
                continue
            # either serial order is accepted where one of the requests changes what another one's answer depends on
            deleters = {}
            for sub, P in Ps:
                if P['bid'] is not None and not P['mexp'].startswith('deny_') and (P['method'] == 'DELETE' or P['tmpl'].endswith('/delete')):
                    deleters.setdefault(P['bid'], []).append(P)
            racing = [(P['bp'], P['target']) for sub, P in Ps if P['kind'] == 'member']
            for sub, P in Ps:
                d = deleters.get(P['bid']) if P['bid'] is not None else None
                if d and (len(d) > 1 or d[0] is not P):
                    P['alive'], P['no_404'] = False, False
                if racing and P['kind'] != 'member' and any(P['user'] == t for _bp, t in racing):
                    P['mexp'], P['racing'] = 'either', True
            resps, n_points = loop.run_until_complete(w.request_par([request_of(P) for sub, P in Ps], sched, starts))
            snap2, side2, side_next = observe()
            changed = sorted(t for t in snap2 if snap2[t] != snap[t])
            side_changed = sorted(x for x in side2 if side2[x] != side[x])
            wrote = [any(ph == 'statement' and not _SELECT.match(q) for ph, q in r['sql']) for r in resps]
            group = '; '.join(f"{P['method']} {P['path']} as {P['user']} -> {r['status']}" for (sub, P), r in zip(Ps, resps))
            trace.append(f'{k}: in flight at once [{group}] (arrival delays {starts}, yields per statement {sched})')
            n = len(Ps)
            if n >= 2:
                classes.update(('requests_in_flight', {2: 'two', 3: 'three'}[n] + '_requests_in_flight'))
                orders = sorted((o, i) for i, r in enumerate(resps) for o in r.get('order') or [])
                runs = sum(1 for a, b in zip(orders, orders[1:]) if a[1] != b[1]) + 1 if orders else 0
                classes.add('in_flight_statements_interleaved' if runs > len({i for _o, i in orders}) else 'in_flight_statements_back_to_back')
                by_b = {}
                for sub, P in Ps:
                    if P['bid'] is not None:
                        by_b.setdefault(P['bid'], []).append(P)
                for bid, ps in by_b.items():
                    if len({P['user'] for P in ps}) >= 2:
                        classes.add('same_batch_different_users_in_flight')
                        ms = {P['mexp'].split('_')[0] for P in ps if P['mexp'] != 'either'}
                        if ms == {'allow', 'deny'}:
                            classes.add('same_batch_member_and_nonmember_in_flight')
                            inflight_diff.append(k)
                        if any(P['method'] not in SAFE for P in ps):
                            classes.add('same_batch_different_users_in_flight_with_mutating_request')
                    if len(ps) > len({P['user'] for P in ps}):
                        classes.add('same_batch_same_user_in_flight')
                if len(by_b) >= 2:
                    classes.add('different_batches_in_flight')
                if all(P['mexp'].startswith('deny_') for sub, P in Ps):
                    classes.add('in_flight_all_must_be_refused')
                elif any(not P['mexp'].startswith('deny_') and P['method'] not in SAFE for sub, P in Ps):
                    classes.add('in_flight_with_allowed_mutation')
                else:
                    classes.add('in_flight_allowed_reads_only')
                if racing:
                    classes.add('in_flight_membership_change_racing')
                if deleters:
                    classes.add('in_flight_delete_racing')
            f2 = []
            for i, ((sub, P), resp) in enumerate(zip(Ps, resps)):
                # what changed is laid at a refused request's door only when no other request of the group sent a write statement;
                # its own statements are always its own (per-request SQL log)
                mine = not any(wrote[j] for j in range(n) if j != i)
                f2 = assess(k, sub, P, resp, changed if mine else [], side_changed if mine else [], now, mem, bat, snap2,
                            f' [in flight together with: {group}; arrival delays {starts}, yields per statement {sched}]' if n >= 2 else '',
                            in_group=True)
                if f2:
                    break
            snap, side = snap2, side_next
            if f2:
                hist_txt = ' | '.join(trace[-12:])
                fails.extend((s, c, f'{msg}. History: {hist_txt}') for s, c, msg in f2)
                break
            if any(r.get('notsupported') for r in resps):
                break
            continue

        # ---- a request: who, what, and what the statement says about it right now
        P = prepare(step, mem, bat)
        if P is None:
            classes.add('route_gone_skipped')
            continue
        resp = loop.run_until_complete(w.request(**request_of(P)))
        snap2, side2, side_next = observe()
        changed = sorted(t for t in snap2 if snap2[t] != snap[t])
        side_changed = sorted(x for x in side2 if side2[x] != side[x])
        f2 = assess(k, step, P, resp, changed, side_changed, now, mem, bat, snap2)
        snap, side = snap2, side_next
        if f2:
            hist_txt = ' | '.join(trace[-12:])
            fails.extend((s, c, f'{msg}. History: {hist_txt}') for s, c, msg in f2)
            break
        if resp.get('notsupported'):
            break         # the connection state after an unsupported statement is not trusted: the history ends here
    nontrivial = bool(shapes) or bool(inflight_diff)
    if not shapes:
        classes.add('no_answer_had_to_change')
    classes.add('kind_history')
    return nontrivial, sorted(classes), fails


def enum_histories(routes):
    """systematic part: every billing_project_users_only route x {owner alice, member bob} x {no delay, 3 s}: granted -> removed -> the
    same request again -> re-added -> again (the administration path alternates between the real routes and the database)"""
    vias = ['api_dev', 'db', 'ui_dev', 'api_auth']
    n = 0
    for m, t, h in routes:
        if route_class(m, t) != 'batch':
            continue
        for user in ('alice', 'bob'):
            for gap in (0, 3000):
                r = ['req', user, [m, t], 0, 0]
                wait = [['tick', gap]] if gap else []
                steps = [r, ['member', 'remove', 'bp1', user, vias[n % 4]]] + wait + [r, ['member', 'add', 'bp1', user, vias[(n + 1) % 4]]] + wait + [r]
                n += 1
                yield dict(kind='hist', steps=steps)


def enum_par_histories(routes):
    """systematic concurrent part: every billing_project_users_only route: a member (alice = owner / bob) and the stranger carol in
    flight at once on batch B - the member arriving first, the stranger arriving first, and both held at their first statement"""
    n = 0
    for m, t, h in routes:
        if route_class(m, t) != 'batch':
            continue
        for user in ('alice', 'bob'):
            a, c = ['req', user, [m, t], 0, n % 2], ['req', 'carol', [m, t], 0, (n // 2) % 2]
            steps = [['par', [a, c], [0], [0, 0]], ['par', [c, a], [1], [0, 0]], ['par', [a, c], [2, 0, 1], [0, 2]],
                     ['par', [a, c], [3, 1], [3, 0]]]
            n += 1
            yield dict(kind='hist', steps=steps)


def _hist_strategy(routes):
    """histories BY CONSTRUCTION: a model of membership and batches is carried along while drawing, so that the wanted shapes
    (granted -> removed -> same user, same batch again; refused -> added -> again; the same for batch creation, billing reads and the
    account state) are laid out on purpose, with unrelated traffic and virtual time in between"""
    from hypothesis import strategies as st
    broutes = [[m, t] for m, t, h in routes if route_class(m, t) == 'batch']
    gets = [r for r in broutes if r[0] in SAFE]
    muts = [r for r in broutes if r[0] not in SAFE] or gets
    core = [r for r in broutes if tuple(r) in CORE_NO_404 and '{job' not in r[1]] or gets
    lists = [t for t in H_LISTS if any(t == x[1] for x in routes)]

    @st.composite
    def hist(draw):
        def pick(xs):
            return draw(st.sampled_from(xs))
        mem = {bp: set(us) for bp, us in MEMBERS.items()}
        bats = [('alice', 'bp1')]        # model of the batch refs: (owner, bp) | None
        steps = []

        def create(u, bp, fast=None):
            steps.append(['create', u, bp, pick([0, 1]) if fast is None else fast])
            bats.append((u, bp) if u in mem[bp] else None)

        def live():
            return [i for i, b in enumerate(bats) if b is not None]

        def mkreq(u, b, how=None):
            how = how or pick(['get', 'get', 'core', 'mut'])
            return ['req', u, pick(gets if how == 'get' else core if how == 'core' else muts), b, pick([0, 0, 1])]

        def req(u, b, how=None):
            steps.append(mkreq(u, b, how))

        def par_group(mode=None, b=None, out=None):
            """two or three requests in flight at once, laid out on purpose: most groups pair DIFFERENT users on the SAME batch, one of
            them a member of its billing project and one not (membership is arranged first, by construction)"""
            mode = mode or pick(['mvs', 'mvs', 'mvs', 'mvs', 'members', 'same_user', 'diff', 'refused', 'race', 'free'])
            b = pick(live()) if b is None else b
            bp = bats[b][1]
            if out is None:
                outs = [u for u in H_PLAIN if u not in mem[bp]]
                if not outs:
                    change('remove', bp, pick([u for u in H_PLAIN if u != bats[b][0]]))
                    outs = [u for u in H_PLAIN if u not in mem[bp]]
                out = pick(outs)
            ins = [u for u in H_PLAIN if u in mem[bp] and u != out]
            if not ins:
                change('add', bp, pick([u for u in H_PLAIN if u != out]))
                ins = [u for u in H_PLAIN if u in mem[bp] and u != out]
            a = pick(ins)
            if mode == 'mvs':           # member and non-member, same batch
                subs = [mkreq(a, b, pick(['get', 'core', 'mut'])), mkreq(out, b, pick(['get', 'core', 'mut', 'mut']))]
            elif mode == 'members':     # two different members (or the member twice over bearer and cookie), same batch
                a2 = pick(ins)
                subs = [mkreq(a, b), mkreq(a2, b)]
            elif mode == 'same_user':
                u = pick([a, out])
                subs = [mkreq(u, b), mkreq(u, b)]
            elif mode == 'diff':        # different users, different batches
                subs = [mkreq(a, b), mkreq(out, pick(live()))]
            elif mode == 'refused':     # mutations by callers who must all be refused
                o2 = pick([u for u in H_USERS if u not in mem[bp] or u == 'ina'])
                subs = [mkreq(out, b, 'mut'), pick([mkreq(o2, b, 'mut'), ['own', o2, b], ['try_admin', o2, 'add', bp, o2, pick([0, 1])]])]
            elif mode == 'race':        # the developer changes the membership of a user whose request is in flight (either order accepted)
                u = pick([a, out])
                subs = [['member', 'remove' if u in mem[bp] else 'add', bp, u, pick(['api_dev', 'api_auth', 'ui_dev'])], mkreq(u, b),
                        mkreq(out if u == a else a, b)]
                (mem[bp].discard if u in mem[bp] else mem[bp].add)(u)
            else:
                subs = [mkreq(pick(H_USERS), pick(live())), mkreq(pick(H_USERS), pick(live()))]
            if len(subs) < 3 and pick([0, 0, 1]):
                u = pick(H_USERS)
                k = pick(['req', 'req_same', 'own', 'bpread', 'list', 'try_admin', 'create'])
                if k == 'req':
                    subs.append(mkreq(u, pick(live())))
                elif k == 'req_same':
                    subs.append(mkreq(u, b))
                elif k == 'own':
                    subs.append(['own', u, b])
                elif k == 'bpread':
                    subs.append(['bpread', u, bp])
                elif k == 'list' and lists:
                    subs.append(['list', u, pick(lists)])
                elif k == 'try_admin':
                    subs.append(['try_admin', u, pick(['add', 'remove']), bp, pick(H_USERS), pick([0, 1])])
                elif k == 'create':
                    subs.append(['create', u, bp, pick([0, 1])])
            subs = list(draw(st.permutations(subs)))
            for x in subs:
                if x[0] == 'create':
                    bats.append((x[1], x[2]) if x[1] in mem[x[2]] else None)
            sched = draw(st.lists(st.integers(0, 4), max_size=8))
            starts = draw(st.lists(st.integers(0, 6), min_size=len(subs), max_size=len(subs)))
            steps.append(['par', subs, sched, starts])

        def change(op, bp, u):
            steps.append(['member', op, bp, u, pick(['api_dev', 'api_auth', 'ui_dev', 'db'])])
            (mem[bp].add if op == 'add' else mem[bp].discard)(u)

        def gap(pool=(None, None, 1, 250, 2000, 6000, 9999, 12000)):
            ms = pick(list(pool))
            if ms:
                steps.append(['tick', ms])

        def noise(n, avoid=None, gentle=False):
            for _ in range(n):
                k = pick(['req', 'req', 'req', 'create', 'member', 'tick', 'list', 'bpread', 'own', 'try_admin', 'missing', 'state', 'par'])
                u = pick([x for x in H_USERS if x != avoid])
                if k == 'par':
                    if not gentle:
                        par_group()
                elif k == 'req':
                    req(u, pick(live()), 'get' if gentle else None)
                elif k == 'create':
                    create(u, pick(H_BPS))
                elif k == 'member':
                    bp = pick(H_BPS)
                    change('remove' if u in mem[bp] and pick([0, 1]) else 'add', bp, u)
                elif k == 'tick':
                    steps.append(['tick', pick(H_TICKS)])
                elif k == 'list' and lists:
                    steps.append(['list', u, pick(lists)])
                elif k == 'bpread':
                    steps.append(['bpread', u, pick(H_BPS)])
                elif k == 'own':
                    steps.append(['own', u, pick(live())])
                elif k == 'try_admin':
                    steps.append(['try_admin', u, pick(['add', 'remove']), pick(H_BPS), pick(H_USERS), pick([0, 1])])
                elif k == 'missing':
                    req(u, 99)
                elif k == 'state' and not gentle:
                    steps.append(['state', u, pick(['inactive', 'active'])])

        def revoke(u, b, what='retry'):
            bp = bats[b][1] if what == 'retry' else b
            if u not in mem[bp]:
                change('add', bp, u)

            def ask(how=None):
                if what == 'retry':
                    req(u, b, how)
                elif what == 'create':
                    create(u, bp)
                else:
                    steps.append(['bpread', u, bp])
            ask('get')                          # granted
            noise(pick([0, 0, 1, 2]), avoid=u, gentle=True)
            change('remove', bp, u)
            gap()
            ask()                               # must be refused now, and nothing may change
            if pick([0, 1]):
                gap()
                ask('mut')

        def grant(u, b, what='retry'):
            bp = bats[b][1] if what == 'retry' else b
            if u in mem[bp]:
                change('remove', bp, u)

            def ask(how=None):
                if what == 'retry':
                    req(u, b, how)
                elif what == 'create':
                    create(u, bp)
                else:
                    steps.append(['bpread', u, bp])
            ask()                               # refused
            noise(pick([0, 0, 1, 2]), avoid=u, gentle=True)
            change('add', bp, u)
            gap()
            ask('core' if what == 'retry' else None)      # must be allowed now
            if pick([0, 1]):
                gap()
                ask('get')

        for s in H_PRESET:                      # batches of other owners in other projects, made through the real routes
            create(s[1], s[2], s[3])
        noise(pick([0, 0, 1, 2]))
        for _ in range(pick([1, 1, 2])):
            shape = pick(['revoke', 'revoke', 'revoke', 'grant', 'grant', 'flap', 'create', 'bpread', 'account', 'free',
                          'par', 'par', 'par', 'revoke_par'])
            u = pick(H_PLAIN)
            if shape == 'par':
                for _ in range(pick([1, 1, 2, 3])):
                    par_group()
                    gap((None, None, None, 1, 250, 12000))
            elif shape == 'revoke_par':
                # a user who has just lost access and a member, in flight together on that batch: the first retry after the revocation
                b = pick(live())
                bp = bats[b][1]
                if u not in mem[bp]:
                    change('add', bp, u)
                req(u, b, 'get')                    # granted
                change('remove', bp, u)
                gap()
                par_group('mvs', b, u)
            elif shape in ('revoke', 'grant', 'flap'):
                b = pick(live())
                if shape == 'revoke':
                    revoke(u, b)
                elif shape == 'grant':
                    grant(u, b)
                else:
                    revoke(u, b)
                    gap()
                    grant(u, b)
            elif shape in ('create', 'bpread'):
                bp = pick(H_BPS)
                (revoke if pick([0, 1]) else grant)(u, bp, shape)
                if pick([0, 1]):
                    (revoke if u in mem[bp] else grant)(u, bp, shape)
            elif shape == 'account':
                u = pick(H_USERS)
                b = pick(live())
                if u not in mem[bats[b][1]]:
                    change('add', bats[b][1], u)
                first = 'active' if u == 'ina' else 'inactive'
                req(u, b, 'get')
                steps.append(['state', u, first])
                gap((None, 1, 2000, 9999, 10000, 12000, 40000))
                req(u, b)
                if pick([0, 1]):
                    steps.append(['state', u, 'inactive' if first == 'active' else 'active'])
                    gap((None, 1, 2000, 9999, 10000, 12000, 40000))
                    req(u, b)
            else:
                noise(pick([3, 5, 8]))
        noise(pick([0, 0, 1, 3]))
        return dict(kind='hist', steps=steps)
    return hist()


N_SHARDS = 16


def plan(tier):
    n = 800 if tier == 'quick' else 30000
    nh = 80 if tier == 'quick' else 8000
    return ([dict(kind='enum', part=i, nparts=12) for i in range(12)] + [dict(kind='hyp', n=n) for _ in range(4)]
            + [dict(kind='hist_enum'), dict(kind='hist_par_enum')] + [dict(kind='hist', n=nh) for _ in range(6)])


def _strategy(routes):
    from hypothesis import strategies as st
    protected = [(m, t, h) for m, t, h in routes if route_class(m, t) != 'public']
    mutating = [r for r in protected if r[0] not in SAFE]
    deny_callers = ['anon', 'badtoken', 'inactive', 'stranger', 'member', 'developer', 'auth', 'owner_nocsrf', 'stranger_cookie', 'badcookie']

    @st.composite
    def case(draw):
        m, t, h = draw(st.one_of(st.sampled_from(mutating), st.sampled_from(mutating), st.sampled_from(protected)))
        bind = {}
        for name in re.findall(r'\{(\w+)(?::[^}]*)?\}', t):
            pool = PARAM_VALUES.get(name, ['x'])
            if name in ('job_id', 'job_group_id', 'update_id'):
                bind[name] = draw(st.one_of(st.sampled_from(pool), st.integers(0, 4), st.sampled_from([-1, 2 ** 31, 10 ** 12])))
            elif name == 'batch_id':
                bind[name] = draw(st.one_of(st.sampled_from(pool), st.sampled_from(['B', 'B', 0, -1, 2, 10 ** 12])))
            elif name in ('billing_project', 'user'):
                bind[name] = draw(st.sampled_from(pool + ['bp2', 'bp3', 'alice', 'BP1']))
            else:
                bind[name] = draw(st.sampled_from(pool))
        variant = {}
        if m not in SAFE:
            variant = dict(token=draw(st.sampled_from(['fresh', 'open', 'committed', 'batch', ''])), n_jobs=draw(st.integers(0, 3)),
                           bunch=draw(st.integers(0, 2)), groups=draw(st.integers(0, 1)), bp=draw(st.sampled_from(['bp1', 'bp2', 'bp3', 'nope'])),
                           n_job_groups=draw(st.integers(0, 1)))
            if draw(st.integers(0, 4)) == 0:
                variant['drop'] = draw(st.integers(0, 3))
        caller = draw(st.sampled_from(deny_callers))
        return dict(route=[m, t], caller=caller, bind=bind, variant=variant, state=draw(st.sampled_from(STATES)), gen=True)
    return case()


def run_shard(spec, seed, tier):
    from vlib.aiosched import new_loop, close_loop
    res = Result()
    loop = new_loop()
    ctx = Ctx(loop)
    try:
        ctx.ensure()
        routes = ctx.routes
        if spec['kind'] == 'enum':
            res.exhaustive = True
            mine = [r for i, r in enumerate(routes) if i % spec['nparts'] == spec['part']]
            for case, hname in enum_cases(mine):
                nt, cls, fl = run_one(ctx, case, hname)
                res.case(case, nt, cls)
                for s, c, m in fl:
                    res.fail(s, c, m, case)
            res.notes['routes_enumerated'] = len(mine)
            res.notes['world_builds'] = ctx.builds
            return res
        if spec['kind'] in ('hist_enum', 'hist_par_enum'):
            for case in (enum_histories if spec['kind'] == 'hist_enum' else enum_par_histories)(routes):
                nt, cls, fl = run_history(ctx, case)
                res.case(case, nt, list(cls) + ['kind_history_systematic' if spec['kind'] == 'hist_enum' else 'kind_history_systematic_in_flight'])
                for s, c, m in fl:
                    res.fail(s, c, m, case)
            res.notes['world_builds'] = ctx.builds
            return res
        from vlib.hyp import search
        if spec['kind'] == 'hist':
            search(res, PROPERTY, _hist_strategy(routes), lambda case: run_history(ctx, case), spec['n'], seed)
            res.notes['world_builds'] = ctx.builds
            return res

        def check(case):
            exp = expectation(case['route'][0], case['route'][1], case['caller'], case['bind'], case['variant'])
            if not exp.startswith('deny_'):
                return False, ['generated_not_denied_skipped'], []
            return run_one(ctx, case, None, generated=True)
        search(res, PROPERTY, _strategy(routes), check, spec['n'], seed)
        res.notes['world_builds'] = ctx.builds
        return res
    finally:
        try:
            ctx.close()
        finally:
            close_loop(loop)


def replay(case):
    from vlib.aiosched import new_loop, close_loop
    loop = new_loop()
    ctx = Ctx(loop)
    try:
        case = {k: v for k, v in case.items() if not k.startswith('_')}
        if case.get('kind') == 'hist':
            ctx.ensure()
            nt, cls, fl = run_history(ctx, case)
        else:
            nt, cls, fl = run_one(ctx, case, None, generated=bool(case.get('gen')))
    finally:
        try:
            ctx.close()
        finally:
            close_loop(loop)
    return [dict(signature=s, clause=c, message=m, case=case) for s, c, m in fl]
