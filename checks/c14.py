"""C14 — batch API access control, exhaustive over routes x callers x id bindings (+ Hypothesis-varied ids/bodies).

Every route of `front_end.routes` is enumerated at run time from a real aiohttp Application (vlib/batchsim/httpapp.py) and hit
in-process through `Application._handle` with the production middlewares.  The auth service is the only fake: bearer /
session tokens map to userdata dicts or 401.  Expectations come from the statement (classes below), not from the decorators.
"""
from __future__ import annotations

import json
import re

from vlib.runner import Result

PROPERTY = 'C14'
LEVEL = 'exploration'
RULE = ('state: batch B owned by alice in billing project bp1 (members alice, bob, inactive user ina), update 1 committed (job group 1, '
        'jobs 1-2), update 2 open with its one job staged (second state: not yet staged); carol only in bp3; dev (is_developer=1) and the user named auth in no project. '
        'EXHAUSTIVE: every route registered by front_end.routes at run time (HEAD included) x 13 callers (anonymous, malformed header, '
        'unknown bearer token, unknown cookie session, inactive, stranger, member, owner, developer, auth; owner via cookie with and '
        'without CSRF token, stranger via cookie) x every binding of path ids to existing / non-existing values x body variants (update '
        'token fresh / open update / committed update; billing project bp1 / bp3; batch token fresh / existing). GENERATED: Hypothesis varies '
        'ids, tokens, counts, bunch sizes and drops body keys for denied callers. Oracle classes from the statement: public = healthcheck, '
        'version, cloud, swagger/openapi, tos/privacy, static; all else protected: unauthenticated -> 401 or login redirect; inactive -> '
        '401/403; cookie session without CSRF token on a non-GET -> 401/403; {batch_id} route + non-member -> 401/403/404; owner-only '
        'mutation (jobs/groups/updates create, update-fast, commit, close) + non-owner member -> 4xx; billing-project administration + '
        'non-developer non-auth -> 401/403; batch creation in a project the caller is not in -> 4xx; and in every denied case the database '
        'snapshot, outbound calls, background notifications and events are unchanged, no SQL ran for unauthenticated callers and only SELECTs '
        'otherwise. Positive direction: public routes for everyone, member read/cancel/delete, owner create/commit, developer/auth '
        'administration, authenticated lists -> not 401/403 (and not 404 on the core routes with existing ids); list endpoints must not show B '
        'to non-members. Non-trivial: a denied request on a route that mutates state for an authorised caller.')
ASSUMPTIONS = [
    'the auth service returns userdata only for active users (its SQL filters state = active); the batch side is exercised with state '
    '"inactive" userdata (the one state gear.auth rejects) and with 401 answers',
    'jinja2/aiohttp_jinja2 are absent: page rendering is replaced by a JSON echo of template name and context keys; everything before is real',
    'cookie sessions are simulated through the aiohttp_session shim (request["aiohttp_session"]); cookie encryption is not exercised',
    'requests hit Application._handle (router + middlewares + handler); the HTTP parser / RequestHandler error mapping is not exercised: an '
    'uncaught exception is counted as a 500 answer',
    'allowed requests whose SQL is outside the minimysql dialect (list / billing queries) are counted as not judged, not as harness errors',
]
TRUSTED = ['vlib/batchsim/httpapp.py (app assembly, fake auth service, mocked requests)', 'vlib/minimysql', 'route classification predicates in checks/c14.py']

MISSING_BATCH = 987654
MEMBERS = {'bp1': {'alice', 'bob', 'ina'}, 'bp2': {'alice'}, 'bp3': {'carol'}}

CALLERS = {
    'anon': dict(kind='unauth'),
    'malformed': dict(kind='unauth', raw_auth='Basic YWxpY2U6eA=='),
    'badtoken': dict(kind='unauth', token='tok-unknown'),
    'badcookie': dict(kind='unauth', token='tok-unknown', cookie=True, csrf=True),
    'inactive': dict(kind='inactive', token='tok-ina', user='ina'),
    'stranger': dict(kind='user', token='tok-carol', user='carol', role='stranger'),
    'member': dict(kind='user', token='tok-bob', user='bob', role='member'),
    'owner': dict(kind='user', token='tok-alice', user='alice', role='owner'),
    'developer': dict(kind='user', token='tok-dev', user='dev', role='developer'),
    'auth': dict(kind='user', token='tok-auth', user='auth', role='auth'),
    'owner_cookie': dict(kind='user', token='tok-alice', user='alice', role='owner', cookie=True, csrf=True),
    'owner_nocsrf': dict(kind='user', token='tok-alice', user='alice', role='owner', cookie=True, csrf=False),
    'stranger_cookie': dict(kind='user', token='tok-carol', user='carol', role='stranger', cookie=True, csrf=True),
}
CALLER_NAMES = list(CALLERS)

PUBLIC_EXACT = {'/healthcheck', '/api/v1alpha/version', '/api/v1alpha/cloud', '/swagger', '/openapi.yaml', '/tos', '/privacy'}
PUBLIC_PREFIX = ('/batch/static/', '/common_static')
OWNER_ONLY = re.compile(r'/(jobs/create|job-groups/create|updates/create|update-fast|commit|close)$')
SAFE = ('GET', 'HEAD', 'OPTIONS')
# member/owner requests with existing ids on these must not be 404 either
CORE_NO_404 = {('GET', '/api/v1alpha/batches/{batch_id}'), ('PATCH', '/api/v1alpha/batches/{batch_id}/cancel'),
               ('DELETE', '/api/v1alpha/batches/{batch_id}'), ('GET', '/api/v1alpha/batches/{batch_id}/jobs/{job_id}'),
               ('GET', '/api/v1alpha/batches/{batch_id}/job-groups/{job_group_id}'),
               ('PATCH', '/api/v1alpha/batches/{batch_id}/job-groups/{job_group_id}/cancel'),
               ('POST', '/api/v1alpha/batches/{batch_id}/updates/create'),
               ('PATCH', '/api/v1alpha/batches/{batch_id}/updates/{update_id}/commit'),
               ('POST', '/batches/{batch_id}/cancel'), ('POST', '/batches/{batch_id}/delete'), ('GET', '/batches/{batch_id}')}
LIST_ROUTES = {'/api/v1alpha/batches', '/api/v2alpha/batches', '/api/v1alpha/batches/completed', '/batches'}

PARAM_VALUES = {
    'batch_id': ['B', 'missing'],
    'job_id': [1, 77],
    'job_group_id': [1, 55],
    'update_id': [2, 1, 9],
    'container': ['main'],
    'billing_project': ['bp1', 'newbp'],
    'user': ['bob', 'zed'],
    'filename': ['x.js'],
}
EXISTING = {'batch_id': 'B', 'job_id': 1, 'job_group_id': 1, 'container': 'main', 'billing_project': 'bp1', 'user': 'bob'}


def route_class(method, tmpl):
    if tmpl in PUBLIC_EXACT or tmpl.startswith(PUBLIC_PREFIX):
        return 'public'
    if '{batch_id}' in tmpl:
        if method not in SAFE and OWNER_ONLY.search(tmpl):
            return 'batch_owner_only'
        return 'batch'
    if method not in SAFE and ('/billing_projects' in tmpl or '/billing_limits' in tmpl):
        return 'bp_admin'
    if tmpl == '/billing_projects':
        return 'bp_admin_page'      # the administration page itself: the statement does not say who else may look at it
    if method not in SAFE and tmpl.endswith(('/batches/create', '/batches/create-fast')):
        return 'batch_create'
    if '{billing_project}' in tmpl:
        return 'bp_read'
    return 'authenticated'


def body_variants(method, tmpl):
    if method in SAFE:
        return [{}]
    if tmpl.endswith(('/updates/create', '/update-fast')):
        out = [{'token': t} for t in ('fresh', 'open', 'committed')]
        if tmpl.endswith('/update-fast'):
            out += [{'token': 'open', 'bunch': 0}, {'token': 'committed', 'bunch': 0}]
        return out
    if tmpl.endswith(('/batches/create', '/batches/create-fast')):
        return [{'bp': 'bp1', 'token': 'fresh'}, {'bp': 'bp3', 'token': 'fresh'}, {'bp': 'bp1', 'token': 'batch'}]
    return [{}]


def expectation(method, tmpl, caller, bind, variant):
    c = CALLERS[caller]
    cls = route_class(method, tmpl)
    if cls == 'public':
        return 'allow_public'
    if c['kind'] == 'unauth':
        return 'deny_auth'
    if c['kind'] == 'inactive':
        return 'deny_inactive'
    if c.get('cookie') and not c.get('csrf') and method not in SAFE:
        return 'deny_csrf'
    role, user = c['role'], c['user']
    if cls in ('batch', 'batch_owner_only'):
        if bind.get('batch_id') != 'B':
            return 'deny_missing'
        if cls == 'batch_owner_only':
            if role == 'owner':
                return 'allow_owner'
            return 'deny_owner_only' if role == 'member' else 'deny_nonmember_owner_only'
        if role not in ('owner', 'member'):
            return 'deny_nonmember'
        return 'allow_member'
    if cls == 'bp_admin':
        if role == 'developer':
            return 'allow_admin'
        if role == 'auth':
            return 'allow_admin' if tmpl.startswith('/api/') else 'either'
        return 'deny_admin'
    if cls == 'bp_admin_page':
        return 'allow_admin' if role == 'developer' else 'either'
    if cls == 'batch_create':
        bp = variant.get('bp', 'bp1')
        return 'allow_create' if user in MEMBERS.get(bp, ()) else 'deny_bp'
    if cls == 'bp_read':
        bp = bind.get('billing_project')
        if role in ('developer', 'auth') or user in MEMBERS.get(bp, ()):
            return 'either' if bp not in MEMBERS else 'allow_authenticated'
        return 'deny_bp_read'
    return 'allow_authenticated'


# ---------------------------------------------------------------------------------------------- world
JOB = {'process': {'type': 'docker', 'command': ['true'], 'image': 'ubuntu'}, 'resources': {'cpu': '1', 'memory': 'standard'},
       'always_run': False, 'absolute_job_group_id': 0}


class Ctx:
    """A pristine world + its reference snapshot; rebuilt after any request that changed something."""

    def __init__(self, loop):
        self.loop = loop
        self.w = None
        self.snap0 = None
        self.side0 = None
        self.builds = 0
        self.routes = None
        self.state = None

    def tables(self):
        extra = ['billing_projects', 'billing_project_users', 'job_group_attributes', 'job_attributes', 'globals', 'batch_bunches']
        return list(self.w.SNAP_TABLES) + [t for t in extra if t.lower() in self.w.engine.tables and t not in self.w.SNAP_TABLES]

    async def _build(self, state='staged'):
        from vlib.batchsim.httpapp import HttpWorld
        if self.w is not None:
            await self.w.close()
            self.w = None
        self.state = state
        w = HttpWorld(n_tokens=2, users=('alice', 'bob'))
        await w.start()
        s = w.engine.connect()
        try:
            s.execute('INSERT INTO billing_projects (name, name_cs) VALUES (%s, %s)', ('bp3', 'bp3'))
            for bp, u in (('bp3', 'carol'), ('bp1', 'ina')):
                s.execute('INSERT INTO billing_project_users (billing_project, `user`, user_cs) VALUES (%s, %s, %s)', (bp, u, u))
        finally:
            w.engine.close_session(s)
        ops = [['batch', 0, 0], ['submit', 0, [0], [{'g': -1}, {'g': 0}]], ['update', 0, [], [{'g': 0}]]]
        if state == 'staged':
            ops.append(['jobs', 1])       # the open update's one job is already staged: a commit of update 2 would succeed
        for op in ops:
            r = await w.apply(op)
            if not r.get('ok'):
                raise RuntimeError(f'C14 set-up op {op} failed: {r}')
        for name, c in CALLERS.items():
            if c.get('user'):
                ud = w.userdata(c['user'])
                ud['id'] = 100 + len(w.tokens)
                ud['namespace_name'] = 'default'
                if c['kind'] == 'inactive':
                    ud['state'] = 'inactive'
                if c.get('role') == 'developer':
                    ud['is_developer'] = 1
                w.tokens[c['token']] = ud
        w.tokens['tok-unknown'] = None
        self.w = w
        self.B = w.batches[0]['id']
        self._tables = None
        self.tok = dict(batch=w.batches[0]['token'], committed=w.updates[0]['token'], open=w.updates[1]['token'])
        self.snap0 = w.snap(self.tables())
        self.side0 = w.side_effects()
        self.builds += 1
        self.fresh_n = 0
        if self.routes is None:
            self.routes = w.route_table()

    def ensure(self, state=None):
        state = state or self.state or 'staged'
        if self.w is None or self.state != state:
            self.loop.run_until_complete(self._build(state))
        return self.w

    def rebuild(self):
        self.loop.run_until_complete(self._build(self.state or 'staged'))

    def close(self):
        if self.w is not None:
            self.loop.run_until_complete(self.w.close())
            self.w = None

    # ---- request construction ------------------------------------------------------------------
    def path_for(self, tmpl, bind):
        def sub(mo):
            k = mo.group(1)
            v = bind.get(k, EXISTING.get(k, 'x'))
            if k == 'batch_id':
                v = self.B if v == 'B' else MISSING_BATCH if v == 'missing' else v
            return str(v)
        return re.sub(r'\{(\w+)(?::[^}]*)?\}', sub, tmpl) or '/'

    def token_for(self, which):
        if which in self.tok:
            return self.tok[which]
        if which == 'fresh' or which is None:
            self.fresh_n += 1
            return f'fresh-{self.builds}-{self.fresh_n}'
        return str(which)

    def body_for(self, method, tmpl, variant, caller):
        """-> (bytes, content type | None)"""
        if method in SAFE:
            return b'', None
        v = variant or {}
        ui = not tmpl.startswith('/api/')
        drop = v.get('drop')
        n_bunch = v.get('bunch', 1)
        jobs = [dict(JOB, job_id=i + 1) for i in range(n_bunch)]
        groups = [{'job_group_id': i + 1, 'absolute_parent_id': 0} for i in range(v.get('groups', 0))]
        obj = None
        if tmpl.endswith('/updates/create'):
            obj = {'token': self.token_for(v.get('token')), 'n_jobs': v.get('n_jobs', 1), 'n_job_groups': v.get('n_job_groups', 0)}
        elif tmpl.endswith('/update-fast'):
            obj = {'update': {'token': self.token_for(v.get('token')), 'n_jobs': v.get('n_jobs', max(n_bunch, 1)),
                              'n_job_groups': v.get('n_job_groups', len(groups))}, 'bunch': jobs, 'job_groups': groups}
        elif tmpl.endswith('/batches/create'):
            obj = {'billing_project': v.get('bp', 'bp1'), 'token': self.token_for(v.get('token')), 'n_jobs': v.get('n_jobs', 1),
                   'n_job_groups': v.get('n_job_groups', 0), 'attributes': {'name': 'x'}}
        elif tmpl.endswith('/batches/create-fast'):
            obj = {'batch': {'billing_project': v.get('bp', 'bp1'), 'token': self.token_for(v.get('token')), 'n_jobs': v.get('n_jobs', max(n_bunch, 1)),
                             'n_job_groups': v.get('n_job_groups', len(groups))}, 'bunch': jobs, 'job_groups': groups}
        elif tmpl.endswith('/jobs/create'):
            obj = jobs
        elif tmpl.endswith('/job-groups/create'):
            obj = groups or [{'job_group_id': 1, 'absolute_parent_id': 0}]
        elif '/billing_limits/' in tmpl and not ui:
            obj = {'limit': v.get('limit', 5)}
        if obj is not None:
            if drop is not None and isinstance(obj, dict) and obj:
                keys = sorted(obj)
                obj = {k: x for k, x in obj.items() if k != keys[drop % len(keys)]}
            return json.dumps(obj).encode(), 'application/json'
        if ui:
            form = {}
            if '/billing_limits/' in tmpl:
                form['limit'] = str(v.get('limit', 5))
            elif tmpl.endswith('/users/add'):
                form['user'] = 'zed'
            elif tmpl.endswith('/billing_projects/create'):
                form['billing_project'] = 'newbp'
            else:
                form['q'] = ''
            c = CALLERS[caller]
            if c.get('cookie') and c.get('csrf'):
                form['_csrf'] = 'csrf-tok'
            from urllib.parse import urlencode
            return urlencode(form).encode(), 'application/x-www-form-urlencoded'
        return b'', None

    def headers_for(self, caller, method, tmpl, ctype):
        c = CALLERS[caller]
        h = {}
        session = None
        if ctype:
            h['Content-Type'] = ctype
        if c.get('raw_auth'):
            h['Authorization'] = c['raw_auth']
        elif c.get('cookie'):
            session = {'session_id': c['token']}
            cookies = 'gcp_session=opaque'
            if c.get('csrf'):
                cookies += '; _csrf=csrf-tok'
                if tmpl.startswith('/api/'):
                    h['X-CSRF-Token'] = 'csrf-tok'
            h['Cookie'] = cookies
        elif c.get('token'):
            h['Authorization'] = 'Bearer ' + c['token']
        return h, session

    def do(self, case):
        """Execute one case on a pristine world.  -> (response dict, changed tables, side-effect diff)"""
        w = self.ensure(case.get('state', 'staged'))
        method, tmpl = case['route']
        body, ctype = self.body_for(method, tmpl, case.get('variant'), case['caller'])
        headers, session = self.headers_for(case['caller'], method, tmpl, ctype)
        path = self.path_for(tmpl, case.get('bind') or {})
        resp = self.loop.run_until_complete(w.request(method, path, headers=headers, body=body, session=session))
        snap = w.snap(self.tables())
        changed = sorted(t for t in snap if snap[t] != self.snap0[t])
        side = w.side_effects()
        side_changed = sorted(k for k in side if side[k] != self.side0[k])
        resp['path'] = path
        if changed or side_changed or resp.get('notsupported'):
            self.loop.run_until_complete(self._drop())
        return resp, changed, side_changed

    async def _drop(self):
        await self.w.close()
        self.w = None


# ---------------------------------------------------------------------------------------------- oracle
DENY_STATUS = {
    'deny_auth': {401, 403}, 'deny_inactive': {401, 403}, 'deny_csrf': {401, 403}, 'deny_nonmember': {401, 403, 404},
    'deny_admin': {401, 403}, 'deny_owner_only': set(range(400, 500)), 'deny_nonmember_owner_only': {401, 403, 404}, 'deny_missing': set(range(400, 500)),
    'deny_bp': set(range(400, 500)), 'deny_bp_read': set(range(400, 500)),
}
DENY_CLAUSE = {
    'deny_auth': 'every endpoint except the public ones requires an authenticated user',
    'deny_inactive': 'every endpoint except the public ones requires an active user',
    'deny_csrf': 'a cookie-authenticated state-changing request without a CSRF token is refused',
    'deny_nonmember': "a user can read, cancel or delete a batch only if they belong to the batch's billing project",
    'deny_admin': 'only developers or the auth service can administer billing projects',
    'deny_owner_only': 'a user can add jobs, groups or updates to, or commit, only batches they own',
    'deny_nonmember_owner_only': 'a user can add jobs, groups or updates to, or commit, only batches they own',
    'deny_missing': 'a request on a batch that does not exist gets an error and nothing changes',
    'deny_bp': 'a user can create a batch only in a billing project they belong to',
    'deny_bp_read': 'billing information is visible only to members of the billing project, developers and the auth service',
}
SIG = {'deny_auth': 'unauthenticated-allowed', 'deny_inactive': 'inactive-allowed', 'deny_csrf': 'missing-csrf-allowed',
       'deny_nonmember': 'nonmember-allowed', 'deny_admin': 'nonadmin-allowed', 'deny_owner_only': 'nonowner-allowed', 'deny_nonmember_owner_only': 'nonowner-allowed',
       'deny_missing': 'missing-batch-not-an-error', 'deny_bp': 'create-in-foreign-project-allowed', 'deny_bp_read': 'foreign-project-read-allowed'}
_SELECT = re.compile(r'^\s*\(?\s*(SELECT|WITH)\b', re.I)


def is_login_redirect(resp):
    return resp['status'] in (302, 303, 307) and (resp.get('location') or '').startswith('https://auth.hail.test/user?next=')


def _all_existing(case):
    bind = case.get('bind') or {}
    return all(bind[k] == EXISTING[k] for k in bind if k in EXISTING) and bind.get('update_id', 2) == 2


def _refused(case, resp, method, tmpl):
    """access-control refusal (as opposed to a business-rule 403 such as 'billing project ... is closed' or a 403 for an id that does
    not exist): 401, login redirect, a bare 403, or any 403 when every id in the path exists and the route is not billing administration"""
    st = resp['status']
    if st == 401 or is_login_redirect(resp):
        return True
    if st == 403:
        if resp.get('reason') in (None, 'Forbidden') or 'inactive' in str(resp.get('text')):
            return True
        return _all_existing(case) and route_class(method, tmpl) not in ('bp_admin', 'bp_admin_page')
    return False


def judge(case, exp, resp, changed, side_changed, hname, generated=False):
    """-> (nontrivial, classes, failures)"""
    method, tmpl = case['route']
    caller = case['caller']
    fails = []
    classes = {exp, f'caller_{caller}', f'class_{route_class(method, tmpl)}'}
    st = resp['status']
    desc = (f"{method} {resp.get('path')} [{tmpl}] caller={caller} variant={case.get('variant')} -> status {st}"
            f"{' location ' + str(resp.get('location')) if resp.get('location') else ''}"
            f"{' exc ' + resp['exc'] if resp.get('exc') else ''}{' NotSupported ' + resp['notsupported'] if resp.get('notsupported') else ''}")
    writes = [s for ph, s in resp['sql'] if ph == 'statement' and not _SELECT.match(s)]
    stmts = [s for ph, s in resp['sql'] if ph == 'statement']
    nontrivial = False
    if exp.startswith('deny_'):
        nontrivial = method not in SAFE
        ok_status = set(DENY_STATUS[exp])
        if generated and exp in ('deny_nonmember', 'deny_owner_only', 'deny_nonmember_owner_only', 'deny_missing', 'deny_bp', 'deny_bp_read'):
            ok_status = set(range(400, 600))      # malformed ids / bodies may be refused with any error
        status_ok = st in ok_status or (exp in ('deny_auth', 'deny_inactive') and is_login_redirect(resp))
        if resp.get('notsupported'):
            fails.append((f'denied-request-reached-handler-sql:{hname}', DENY_CLAUSE[exp] + ' (before any handler work)',
                          f'{desc}; SQL so far: {stmts[-3:]}'))
        elif not status_ok and st == 500 and resp.get('exc') and not writes and exp not in ('deny_auth', 'deny_inactive', 'deny_csrf', 'deny_admin'):
            # the handler's own look-up crashed before it could answer: an error, nothing changed -> not an access-control violation,
            # but recorded (see notes) because the ownership filter of such a route is not observable
            classes.add(f'denied_by_server_error:{hname}')
        elif not status_ok:
            fails.append((f'{SIG[exp]}:{hname}', DENY_CLAUSE[exp], f'{desc}; body {str(resp.get("text"))[:200]}'))
        if changed or side_changed:
            fails.append((f'denied-but-changed:{hname}', 'every other caller gets an error and nothing changes',
                          f'{desc}; changed tables {changed}, side effects {side_changed}; writes {writes[:4]}'))
        elif writes:
            fails.append((f'denied-ran-write-sql:{hname}', 'every other caller gets an error and nothing changes (no statement beyond access-control lookups)',
                          f'{desc}; statements {writes[:4]}'))
        if exp in ('deny_auth', 'deny_inactive', 'deny_csrf') and stmts:
            fails.append((f'unauthenticated-reached-sql:{hname}', 'an unauthenticated caller is refused before any database work',
                          f'{desc}; statements {stmts[:3]}'))
    elif exp == 'either':
        pass
    else:
        if resp.get('notsupported'):
            classes.add('allow_not_judged_unsupported_sql')
        elif _refused(case, resp, method, tmpl):
            role = CALLERS[caller].get('role', caller)
            fails.append((f'{role}-refused:{hname}' if exp != 'allow_public' else f'public-route-refused:{hname}',
                          {'allow_public': 'health, version/cloud information, documentation, legal pages and static assets need no authentication',
                           'allow_member': "a member of the batch's billing project can read, cancel or delete the batch",
                           'allow_owner': 'the owner can add jobs, groups or updates to, and commit, their batch',
                           'allow_admin': 'developers and the auth service can administer billing projects',
                           'allow_create': 'a member of a billing project can create batches in it',
                           'allow_authenticated': 'an authenticated active user can use the endpoint'}[exp], desc))
        elif st == 404 and (method, tmpl) in CORE_NO_404 and exp in ('allow_member', 'allow_owner') \
                and _all_existing(case):
            fails.append((f'{CALLERS[caller]["role"]}-refused:{hname}', 'member / owner access to an existing batch is not answered 404', desc))
        elif st is not None and st >= 500:
            classes.add('allow_errored_500')
        elif st is not None and st >= 400:
            classes.add('allow_answered_4xx')
        else:
            classes.add('allow_succeeded')
        # list endpoints must not show B to callers outside bp1
        role = CALLERS[caller].get('role')
        if tmpl in LIST_ROUTES and role in ('stranger', 'developer', 'auth') and resp.get('json') is not None:
            txt = json.dumps(resp['json'])
            ids = set()
            j = resp['json']
            if isinstance(j, dict):
                for b in j.get('batches') or []:
                    if isinstance(b, dict):
                        ids.add(b.get('id'))
                for i in j.get('batch_ids') or []:
                    ids.add(i)
            if case.get('_B') in ids:
                fails.append((f'list-leaks-batch:{hname}', "a user can read a batch only if they belong to the batch's billing project",
                              f'{desc}; response lists batch {case.get("_B")}: {txt[:200]}'))
    if resp['sql']:
        classes.add('reached_sql')
    return nontrivial, sorted(classes), fails


# ---------------------------------------------------------------------------------------------- enumeration / generation
def bindings(tmpl):
    from itertools import product
    names = re.findall(r'\{(\w+)(?::[^}]*)?\}', tmpl)
    pools = [PARAM_VALUES.get(n, ['x']) for n in names]
    for combo in product(*pools):
        yield dict(zip(names, combo))


STATES = ('staged', 'unstaged')


def enum_cases(routes):
    for state in STATES:
        for method, tmpl, hname in routes:
            if state != 'staged' and route_class(method, tmpl) != 'batch_owner_only':
                continue      # the second state differs only in the open update: relevant to the routes that add to / commit it
            for bind in bindings(tmpl):
                for variant in body_variants(method, tmpl):
                    for caller in CALLER_NAMES:
                        yield dict(route=[method, tmpl], caller=caller, bind=bind, variant=variant, state=state), hname


def run_one(ctx, case, hname=None, generated=False):
    ctx.ensure(case.get('state', 'staged'))
    method, tmpl = case['route']
    if hname is None:
        hname = next((h for m, t, h in ctx.routes if m == method and t == tmpl), None)
        if hname is None:
            return False, ['route_gone_skipped'], []
    exp = expectation(method, tmpl, case['caller'], case.get('bind') or {}, case.get('variant') or {})
    B = ctx.B
    resp, changed, side_changed = ctx.do(case)
    c2 = dict(case, _B=B)
    return judge(c2, exp, resp, changed, side_changed, hname, generated=generated)


N_SHARDS = 16


def plan(tier):
    n = 800 if tier == 'quick' else 30000
    return [dict(kind='enum', part=i, nparts=12) for i in range(12)] + [dict(kind='hyp', n=n) for _ in range(4)]


def _strategy(routes):
    from hypothesis import strategies as st
    protected = [(m, t, h) for m, t, h in routes if route_class(m, t) != 'public']
    mutating = [r for r in protected if r[0] not in SAFE]
    deny_callers = ['anon', 'badtoken', 'inactive', 'stranger', 'member', 'developer', 'auth', 'owner_nocsrf', 'stranger_cookie', 'badcookie']

    @st.composite
    def case(draw):
        m, t, h = draw(st.one_of(st.sampled_from(mutating), st.sampled_from(mutating), st.sampled_from(protected)))
        bind = {}
        for name in re.findall(r'\{(\w+)(?::[^}]*)?\}', t):
            pool = PARAM_VALUES.get(name, ['x'])
            if name in ('job_id', 'job_group_id', 'update_id'):
                bind[name] = draw(st.one_of(st.sampled_from(pool), st.integers(0, 4), st.sampled_from([-1, 2 ** 31, 10 ** 12])))
            elif name == 'batch_id':
                bind[name] = draw(st.one_of(st.sampled_from(pool), st.sampled_from(['B', 'B', 0, -1, 2, 10 ** 12])))
            elif name in ('billing_project', 'user'):
                bind[name] = draw(st.sampled_from(pool + ['bp2', 'bp3', 'alice', 'BP1']))
            else:
                bind[name] = draw(st.sampled_from(pool))
        variant = {}
        if m not in SAFE:
            variant = dict(token=draw(st.sampled_from(['fresh', 'open', 'committed', 'batch', ''])), n_jobs=draw(st.integers(0, 3)),
                           bunch=draw(st.integers(0, 2)), groups=draw(st.integers(0, 1)), bp=draw(st.sampled_from(['bp1', 'bp2', 'bp3', 'nope'])),
                           n_job_groups=draw(st.integers(0, 1)))
            if draw(st.integers(0, 4)) == 0:
                variant['drop'] = draw(st.integers(0, 3))
        caller = draw(st.sampled_from(deny_callers))
        return dict(route=[m, t], caller=caller, bind=bind, variant=variant, state=draw(st.sampled_from(STATES)), gen=True)
    return case()


def run_shard(spec, seed, tier):
    from vlib.aiosched import new_loop, close_loop
    res = Result()
    loop = new_loop()
    ctx = Ctx(loop)
    try:
        ctx.ensure()
        routes = ctx.routes
        if spec['kind'] == 'enum':
            res.exhaustive = True
            mine = [r for i, r in enumerate(routes) if i % spec['nparts'] == spec['part']]
            for case, hname in enum_cases(mine):
                nt, cls, fl = run_one(ctx, case, hname)
                res.case(case, nt, cls)
                for s, c, m in fl:
                    res.fail(s, c, m, case)
            res.notes['routes_enumerated'] = len(mine)
            res.notes['world_builds'] = ctx.builds
            return res
        from vlib.hyp import search

        def check(case):
            exp = expectation(case['route'][0], case['route'][1], case['caller'], case['bind'], case['variant'])
            if not exp.startswith('deny_'):
                return False, ['generated_not_denied_skipped'], []
            return run_one(ctx, case, None, generated=True)
        search(res, PROPERTY, _strategy(routes), check, spec['n'], seed)
        res.notes['world_builds'] = ctx.builds
        return res
    finally:
        try:
            ctx.close()
        finally:
            close_loop(loop)


def replay(case):
    from vlib.aiosched import new_loop, close_loop
    loop = new_loop()
    ctx = Ctx(loop)
    try:
        case = {k: v for k, v in case.items() if not k.startswith('_')}
        nt, cls, fl = run_one(ctx, case, None, generated=bool(case.get('gen')))
    finally:
        try:
            ctx.close()
        finally:
            close_loop(loop)
    return [dict(signature=s, clause=c, message=m, case=case) for s, c, m in fl]
