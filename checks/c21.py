"""C21 — retry helpers retry exactly the transient failures, with bounded jittered delays."""
from __future__ import annotations

import errno

from vlib import hostenv
from vlib.runner import Result

PROPERTY = 'C21'
LEVEL = 'exploration'
RULE = ('sequences (0..12) of exceptions followed by success, drawn from a labelled catalogue built from the observations '
        'documented in hailtop/utils/utils.py: transient (aiohttp/httpx 408/429/500/502/503/504, ServerDisconnected, '
        'ServerTimeout, TimeoutError, retryable errnos, socket.timeout, TransientError, payload-not-completed, connector '
        'error over a retryable errno, httpx 403 rateLimitExceeded), limited-only (ConnectionReset/Refused without errno, '
        'httpx 400 with the two known bodies), limited+transient (ECONNRESET), permanent (ValueError, 400/401/404, ENOENT, '
        'httpx 403 other), each optionally wrapped `raise X from Y` up to depth 3, plus CancelledError / a BaseException; '
        'jitter draws come from the case; asyncio.sleep runs on a virtual clock. Oracle from the statement: invocation count '
        'and outcome (always retry transient/rate-limit; permanent raised at once; limited-only: <= 5 retries in total and, in '
        'a pure limited-only sequence, exactly 5 then raise); every delay within [min(max, c/2), min(max, c)], c = base*2^min(k,30). '
        'delay_ms_for_try alone over tries 0..100 x extreme jitter x several base/max. Non-trivial: sequence mixes >= 2 '
        'classes or contains a chained exception.')
ASSUMPTIONS = ['class labels of the catalogue are taken from the comments/documentation in utils.py, not computed by calling is_transient_error',
               'time.sleep (sync variant) and random.randrange are replaced by harness stand-ins in the module namespace']
TRUSTED = ['vlib/aiosched.py virtual loop', 'exception catalogue labels in checks/c21.py']

T, L, LT, P, B = 'transient', 'limited', 'limited+transient', 'permanent', 'base'

# (name, class label)
CATALOGUE = [
    ('aiohttp_408', T), ('aiohttp_429', T), ('aiohttp_500', T), ('aiohttp_502', T), ('aiohttp_503', T), ('aiohttp_504', T),
    ('httpx_503', T), ('httpx_429', T), ('httpx_403_ratelimit', T), ('server_disconnected', T), ('server_timeout', T),
    ('asyncio_timeout', T), ('os_EHOSTUNREACH', T), ('os_ETIMEDOUT', T), ('os_ECONNREFUSED', T), ('os_ENETUNREACH', T),
    ('os_EPIPE', T), ('os_EADDRNOTAVAIL', T), ('socket_timeout', T), ('transient_error', T), ('payload_not_completed', T),
    ('connector_ECONNREFUSED', T),
    ('connreset_noerrno', L), ('connrefused_noerrno', L), ('httpx_400_userproject', L), ('httpx_400_invalidgrant', L),
    ('connreset_ECONNRESET', LT),
    ('value_error', P), ('aiohttp_400', P), ('aiohttp_401', P), ('aiohttp_404', P), ('os_ENOENT', P), ('httpx_403_other', P),
    ('httpx_404', P), ('httpx_400_other', P), ('key_error', P), ('payload_other', P),
    ('cancelled', B), ('base_exception', B),
]
LABEL = dict(CATALOGUE)


class MyBase(BaseException):
    pass


class Wrap(RuntimeError):
    pass


def make_exc(name):
    import asyncio
    import socket
    import types
    import aiohttp
    import hailtop.httpx as hx
    from hailtop.utils import utils as U
    ri = types.SimpleNamespace(real_url='http://x/', url='http://x/', method='GET', headers={})
    if name.startswith('aiohttp_'):
        return aiohttp.ClientResponseError(ri, (), status=int(name.split('_')[1]), message='m')
    if name.startswith('httpx_'):
        parts = name.split('_')
        body = {'ratelimit': 'error: rateLimitExceeded for x', 'userproject': 'User project specified in the request is invalid.',
                'invalidgrant': 'xx Invalid grant: account not found yy', 'other': 'nope'}.get(parts[2] if len(parts) > 2 else '', '')
        return hx.ClientResponseError(ri, (), body=body, status=int(parts[1]), message='m')
    if name == 'server_disconnected':
        return aiohttp.ServerDisconnectedError()
    if name == 'server_timeout':
        return aiohttp.ServerTimeoutError()
    if name == 'asyncio_timeout':
        return asyncio.TimeoutError()
    if name.startswith('os_'):
        return OSError(getattr(errno, name[3:]), 'os error')
    if name == 'socket_timeout':
        return socket.timeout('timed out')
    if name == 'transient_error':
        return U.TransientError()
    if name == 'payload_not_completed':
        return aiohttp.ClientPayloadError('Response payload is not completed')
    if name == 'payload_other':
        return aiohttp.ClientPayloadError('something else')
    if name == 'connector_ECONNREFUSED':
        key = types.SimpleNamespace(host='h', port=80, ssl=None, is_ssl=False)
        return aiohttp.ClientConnectorError(key, OSError(errno.ECONNREFUSED, 'refused'))
    if name == 'connreset_noerrno':
        return ConnectionResetError()
    if name == 'connrefused_noerrno':
        return ConnectionRefusedError()
    if name == 'connreset_ECONNRESET':
        return ConnectionResetError(errno.ECONNRESET, 'reset by peer')
    if name == 'value_error':
        return ValueError('bad')
    if name == 'key_error':
        return KeyError('k')
    if name == 'cancelled':
        return asyncio.CancelledError()
    if name == 'base_exception':
        return MyBase()
    raise AssertionError(name)


def build(item):
    """item = [name, depth] -> exception `Wrap from Wrap from ... from name`"""
    name, depth = item
    e = make_exc(name)
    for _ in range(depth):
        w = Wrap('wrapped')
        w.__cause__ = e
        e = w
    return e


class _Rand:
    def __init__(self, draws):
        self.draws = list(draws)
        self.i = 0
        self.calls = []

    def randrange(self, n):
        d = self.draws[self.i % len(self.draws)] if self.draws else 0
        self.i += 1
        v = {0: 0, 1: n - 1, 2: n // 2, 3: n // 3}[d % 4]
        self.calls.append(n)
        return v

    def __getattr__(self, k):
        import random
        return getattr(random, k)


def bounds(k, base=1000, mx=60000):
    c = base * (1 << min(k, 30))
    return min(mx, c // 2), min(mx, c)


def run_case(case):
    hostenv.install()
    import asyncio
    from hailtop.utils import utils as U
    from vlib.aiosched import new_loop, close_loop

    seq = case['seq']
    variant = case['variant']
    labels = [LABEL[n] for n, d in seq]
    fails = []
    classes = set(f'has_{l}' for l in labels)
    if any(d > 0 for n, d in seq):
        classes.add('chained')
    nontrivial = len(set(labels)) >= 2 or any(d > 0 for n, d in seq)
    rnd = _Rand(case.get('jitter', [0]))
    saved_random, saved_time = U.random, U.time
    U.random = rnd
    sleeps = []

    class _Time:
        @staticmethod
        def sleep(s):
            sleeps.append(s)

        def __getattr__(self, k):
            return getattr(saved_time, k)
    calls = {'n': 0, 'times': []}
    loop = new_loop()
    try:
        U.time = _Time()
        outcome = None
        if variant == 'sync':
            def f():
                calls['n'] += 1
                if calls['n'] <= len(seq):
                    raise build(seq[calls['n'] - 1])
                return 'done'
            try:
                outcome = ('ok', U.sync_retry_transient_errors(f))
            except BaseException as e:  # noqa
                outcome = ('raised', e)
        else:
            async def f():
                calls['n'] += 1
                calls['times'].append(loop.time())
                if calls['n'] <= len(seq):
                    raise build(seq[calls['n'] - 1])
                return 'done'

            async def go():
                if variant == 'debug':
                    return await U.retry_transient_errors_with_debug_string('dbg', 0, f)
                if variant == 'delayed':
                    return await U.retry_transient_errors_with_delayed_warnings(5000, f)
                return await U.retry_transient_errors(f)
            task = loop.create_task(go())
            try:
                loop.run_all()
            except Exception as e:
                fails.append(('harness-loop', 'terminates', repr(e)))
            if not task.done():
                fails.append(('hangs', 'the helper returns or raises', 'retry call still pending after all timers fired'))
                return nontrivial, sorted(classes), fails
            if task.cancelled():
                outcome = ('raised', asyncio.CancelledError())
            elif task.exception() is not None:
                outcome = ('raised', task.exception())
            else:
                outcome = ('ok', task.result())
            sleeps = [b - a for a, b in zip(calls['times'], calls['times'][1:])]

        # ---- expected behaviour from the statement
        n_calls = calls['n']
        # index of the first failure that must stop the retrying
        stop = None
        limited_retries = 0
        pure_limited = all(l == L for l in labels) and len(labels) > 0
        for i, l in enumerate(labels):
            if l in (P, B):
                stop = i
                break
            if l == L and variant == 'sync':
                # the sync helper documents no limited-retry allowance: "at most five" includes zero; accept either
                stop = ('maybe', i)
                break
        if isinstance(stop, int):
            # everything before `stop` is transient/limited; limited ones may legitimately stop earlier (see below)
            pass
        # walk the actual behaviour
        gave_up_at = n_calls - 1 if outcome[0] == 'raised' else None     # index of failure that was raised
        if outcome[0] == 'ok':
            if n_calls != len(seq) + 1:
                fails.append(('call-count', 'operation is re-run until it succeeds', f'{n_calls} calls for {len(seq)} failures'))
        if gave_up_at is not None:
            if gave_up_at >= len(seq):
                fails.append(('raised-on-success', 'success is returned', f'raised {outcome[1]!r} although call {n_calls} succeeded'))
            else:
                l = labels[gave_up_at]
                raised = outcome[1]
                want = build(seq[gave_up_at])
                if type(raised) is not type(want):
                    fails.append(('wrong-exception', 'the failure itself is raised', f'raised {raised!r}, failure was {want!r}'))
                if l in (T, LT):
                    fails.append((f'gave-up-on-transient', 'retries after every transient or rate-limit failure',
                                  f'failure #{gave_up_at + 1} {seq[gave_up_at]} ({l}) was raised instead of retried ({variant})'))
                if l == L and variant != 'sync':
                    n_lim_before = sum(1 for x in labels[:gave_up_at] if x == L)
                    if pure_limited and gave_up_at != 5:
                        fails.append(('limited-retry-count', 'limited-retry errors are retried five times, then raised',
                                      f'pure limited sequence gave up at failure #{gave_up_at + 1}'))
        # every failure that was retried must be retryable
        retried = labels[:gave_up_at] if gave_up_at is not None else labels[:n_calls - 1]
        for i, l in enumerate(retried):
            if l in (P, B):
                fails.append(('retried-permanent', 'any other error is raised immediately without retrying',
                              f'failure #{i + 1} {seq[i]} ({l}) was retried ({variant})'))
                break
        n_lim_retried = sum(1 for l in retried if l == L)
        if n_lim_retried > 5:
            fails.append(('limited-retry-count', 'gives up after at most five retries on limited-retry errors',
                          f'{n_lim_retried} limited-only failures were retried'))
        if variant == 'sync' and n_lim_retried > 0:
            pass
        # delays
        n_retries = len(retried)
        if len(sleeps) != n_retries:
            fails.append(('sleep-count', 'waits between tries', f'{len(sleeps)} sleeps for {n_retries} retries'))
        for k, d in enumerate(sleeps, start=1):
            lo, hi = bounds(k)
            ms = d * 1000.0
            if not (lo - 1e-3 <= ms <= hi + 1e-3) or ms > 60000 + 1e-3:
                fails.append(('delay-bounds', 'delay within the jittered exponential bounds and never longer than the maximum',
                              f'retry {k}: slept {ms:.3f} ms, bounds [{lo}, {hi}]'))
                break
        if labels and labels[0] in (P, B) and sleeps:
            fails.append(('slept-before-raise', 'permanent errors are raised immediately', f'slept {sleeps}'))
        if outcome[0] == 'raised' and isinstance(outcome[1], BaseException):
            outcome[1].__traceback__ = None
    finally:
        U.random, U.time = saved_random, saved_time
        close_loop(loop)
    return nontrivial, sorted(classes | {f'variant_{variant}'}), fails


def check_delay(case):
    hostenv.install()
    from hailtop.utils import utils as U
    tries, base, mx, j = case['tries'], case['base'], case['max'], case['j']
    rnd = _Rand([j])
    saved = U.random
    U.random = rnd
    try:
        d = U.delay_ms_for_try(tries, base, mx)
    finally:
        U.random = saved
    c = base * (1 << min(tries, 30))
    lo, hi = min(mx, c // 2), min(mx, c)
    fl = []
    if not (lo <= d <= hi) or d > mx or not isinstance(d, int):
        fl.append(('delay-bounds', 'delay within the jittered exponential bounds and never longer than the maximum',
                   f'delay_ms_for_try({tries},{base},{mx}) jitter {j} = {d}, bounds [{lo},{hi}]'))
    return fl


def plan(tier):
    n = 1000 if tier == "quick" else 25000
    return [dict(kind='delay')] + [dict(kind='hyp', n=n) for _ in range(15)]


def run_shard(spec, seed, tier):
    res = Result()
    if spec['kind'] == 'delay':
        res.exhaustive = True
        for tries in range(0, 101):
            for base, mx in ((1000, 60000), (1, 60000), (250, 1000), (1000, 10**9), (7, 13), (1, 10**13)):
                for j in range(4):
                    case = dict(delay=True, tries=tries, base=base, max=mx, j=j)
                    fl = check_delay(case)
                    res.case(case, tries >= 1)
                    for s, c, m in fl:
                        res.fail(s, c, m, case)
        return res
    from hypothesis import strategies as st
    from vlib.hyp import search
    names = [n for n, _ in CATALOGUE]
    retryable = [n for n, l in CATALOGUE if l in (T, LT)]
    limited = [n for n, l in CATALOGUE if l == L]
    item = st.one_of(st.tuples(st.sampled_from(retryable), st.integers(0, 3).map(lambda d: d if d < 3 else 0)).map(list),
                     st.tuples(st.sampled_from(retryable), st.just(0)).map(list),
                     st.tuples(st.sampled_from(limited), st.integers(0, 2)).map(list),
                     st.tuples(st.sampled_from(names), st.integers(0, 3)).map(list))
    seqs = st.one_of(st.lists(item, max_size=12),
                     st.lists(st.tuples(st.sampled_from(limited), st.integers(0, 1)).map(list), min_size=1, max_size=8),
                     st.lists(st.tuples(st.sampled_from(retryable), st.integers(0, 1)).map(list), min_size=8, max_size=40))
    strat = st.builds(lambda s, v, j: dict(seq=s, variant=v, jitter=j), seqs,
                      st.sampled_from(['plain', 'plain', 'debug', 'delayed', 'sync']), st.lists(st.integers(0, 3), min_size=1, max_size=6))
    search(res, PROPERTY, strat, run_case, spec['n'], seed)
    return res


def replay(case):
    if case.get('delay'):
        fl = check_delay(case)
    else:
        nt, cls, fl = run_case(case)
    return [dict(signature=s, clause=c, message=m, case=case) for s, c, m in fl]
