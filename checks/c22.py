"""C22 — the copy tool (hailtop.aiotools Copier/Transfer) reproduces its sources exactly under the documented
destination rules, or raises the documented error.

The real `Copier.copy` runs on the real `LocalAsyncFS` / `RouterAsyncFS` in a per-case temp dir with a real event loop and
thread pool; the multi-part machinery is forced small (`copy_part_size` 1..64 bytes, `Copier.BUFFER_SIZE` 1..40 bytes).
The oracle is a reference model of the destination rules (below, `model`), validated in a self-test shard against the
repository's own 324-row table test/hailtop/inter_cloud/copy_test_specs.py.

Six of the generated shards hand the copier a fault-injecting view of that file system (`FaultyFS`): single calls -- a listing
step, status()/size() of a listed entry, open / a read chunk, create / a write chunk / the closing flush, makedirs, the parts of a
multi-part create -- fail once or twice with an error `hailtop.utils.is_transient_error` accepts, as the generated case says.  The
copier retries those internally, so the fault-free reference model stays the oracle: a copy that reports success must have produced
exactly the predicted destination.  The retry back-off (`delay_ms_for_try`) is zero while a case runs.
"""
from __future__ import annotations

import os
import shutil
import tempfile

from vlib import hostenv
from vlib.runner import Result, known_signatures

PROPERTY = 'C22'
LEVEL = 'exploration'
RULE = ('random source tree S (1-8 files, depth 1-3, empty files and empty dirs) and destination tree D (absent / file / dir with '
        'overlapping names), file sizes drawn around multiples of the part size p (0,1,k*p-1,k*p,k*p+1,...) with copy_part_size=p in '
        '1..64 and Copier.BUFFER_SIZE in 1..40; 1-3 transfers, each a single source or a list of 1-3 sources (file / dir / missing, '
        'optional trailing slash), destination in {D, existing dir, existing file, fresh path, path below a file} with optional '
        'trailing slash, treat_dest_as in the three modes, Transfer / [Transfer] call forms, plain and file:// URLs, semaphore 1-8, '
        'thread pool 1-4, return_exceptions on/off; plus every row of the repo copy_test_specs table. FAULT PLANS (6 of 13 generated '
        'shards): 0-3 faults [kind, path, index, times in {1,2}, error] drawn from the injection points the reference model says this '
        'very case visits (so a planned fault is reached by construction; half of the draws come from the listing phase when the case '
        'has one): the listfiles(dir) call (first call, or the re-listing after a listing fault -- then that fault is planned too), the '
        'k-th __anext__ of a listing (k = 0..number of entries; listings are async generators: one that raised is finished), status() '
        'and size() of a listed file, open(src), the k-th read chunk (the empty one at EOF included), create(dest), the k-th write '
        'chunk, the closing flush, makedirs, multi_part_create, and per part i: create_part, a write, the closing flush, the ranged '
        'open_from / readexactly at each offset; error in {asyncio.TimeoutError, OSError ETIMEDOUT / ECONNRESET / EPIPE, aiohttp '
        'ServerTimeoutError / ServerDisconnectedError / ClientResponseError 503 and 429, hailtop.httpx.ClientResponseError 503}; '
        'retry delays are zero. Oracle: reference model of '
        'the destination rules predicts the exact final destination tree (path -> bytes, untouched files keep old bytes) or the set '
        'of documented exception classes; sources must be unchanged; under a fault plan the SAME fault-free prediction holds (nothing '
        'missing, nothing extra, contents equal, or the documented error), and an injected error must not reach the caller of '
        'Copier.copy except from the three calls the copier makes outside any retry (first listfiles of a source, makedirs / '
        'multi_part_create of the multi-part path: accepted as a loud failure, counted as accepted_loud_failure_at_unretried_*). '
        'Classes: fault_in_listing_call / fault_in_listing_iteration / fault_in_status / fault_in_size / fault_in_open / fault_in_read / '
        'fault_in_create / fault_in_write / fault_in_close / fault_in_makedirs / fault_in_multi_part_create / fault_in_create_part / '
        'fault_in_part_write / fault_in_part_close / fault_in_part_open / fault_in_part_read (a fault of that kind FIRED), fault_error_<name>, '
        'fault_same_point_twice, faults_fired_ge2, faults_absorbed_success, faults_planned_none_reached, transient_error_propagated. '
        'Non-trivial: a successful copy that wrote a file of >= 2 parts '
        'whose last part is short, or merged a source directory into an existing non-empty destination directory, or absorbed >= 1 '
        'injected fault.')
ASSUMPTIONS = [
    'local file system only: a path cannot be both file and directory, so FileAndDirectoryError is exercised only through the spec table',
    'two sources that write the same destination path, or transfers whose outcome depends on the order in which another transfer '
    'creates a path (racy), have no documented result: only "sources unchanged / untouched files unchanged / documented exception '
    'class" is checked for them (counted as classes conflict / racy)',
    'a source or destination path that runs *through* a regular file may be reported as NotADirectoryError instead of FileNotFoundError',
    'after a raised error the contents of the paths the failed call was writing are unspecified (only untouched paths are compared)',
    'empty directories are not copied (repo test: "We ignore empty directories when copying")',
    'fault plans: a fault replaces the call (nothing of it happened), except the closing flush of a written stream / part, which '
    'fails after the bytes reached the file; a listing that raised is finished (async generator semantics of every AsyncFS.listfiles); '
    'status() / size() of a listed entry can fail until they first succeed (LocalFileListEntry caches; cloud entries carry both in the '
    'listing); statfile() / staturl() / isfile() / isdir() and MultiPartCreate.__aexit__ are not fault points',
    'three calls of the copier sit outside every retry_transient_errors on the unchanged tree -- the first listfiles() of a source in '
    'SourceCopier.copy_as_dir, and makedirs() / multi_part_create() in _copy_file_multi_part_main -- so a transient error there is '
    'raised to the caller of Copier.copy as it is: judged a loud, honest failure (untouched files must still be unchanged), not a '
    'violation; reported to the maintainers of the harness as an observation',
    'return_exceptions=True records whatever reaches SourceCopier.copy / _copy_part instead of raising it, and _copy_part re-raises '
    'only asyncio.TimeoutError for its retry loop: in that mode fault plans leave out the three un-retried calls and use only '
    'TimeoutError-class errors for part-level points (no production caller passes return_exceptions=True)',
    'retry back-off is set to zero (hailtop.utils.utils.delay_ms_for_try) while a case runs; the back-off itself belongs to C21',
]
TRUSTED = ['reference model of the destination rules in checks/c22.py (validated against the 324-row copy_test_specs table)',
           'host file system and os.walk for reading back results', 'FaultyFS delegation wrapper in checks/c22.py']

DEST_DIR, DEST_IS_TARGET, INFER_DEST = 'dest_dir', 'dest_is_target', 'infer_dest'
MODES = [DEST_DIR, DEST_IS_TARGET, INFER_DEST]
FNF, ISDIR, NOTDIR = 'FileNotFoundError', 'IsADirectoryError', 'NotADirectoryError'
DOCUMENTED = {FNF, ISDIR, NOTDIR, 'FileAndDirectoryError'}
CASE_TIMEOUT = 40.0
SCRATCH = os.environ.get('VERIF_SCRATCH', '/tmp')


# ----------------------------------------------------------------------------------------------------------------------
# deterministic content

def content(size: int, seed: int) -> bytes:
    return bytes(((i * 167 + seed * 59 + (i >> 3) * 13 + 7) & 0xFF) for i in range(size))


def entry_bytes(e) -> bytes:
    if e[1] == 'hex':
        return bytes.fromhex(e[2])
    return content(e[1], e[2])


# ----------------------------------------------------------------------------------------------------------------------
# abstract tree

def norm(p: str) -> str:
    return '/'.join(x for x in p.split('/') if x)


def ancestors(p: str):
    parts = p.split('/')
    return ['/'.join(parts[:i]) for i in range(1, len(parts))]


class Tree:
    def __init__(self):
        self.files = {}
        self.dirs = {'S', 'D'}

    def add_dir(self, p):
        p = norm(p)
        if p in self.files or any(a in self.files for a in ancestors(p)):
            return False
        for a in ancestors(p):
            self.dirs.add(a)
        self.dirs.add(p)
        return True

    def add_file(self, p, b):
        p = norm(p)
        if p in self.dirs or any(a in self.files for a in ancestors(p)):
            return False
        for a in ancestors(p):
            self.dirs.add(a)
        self.files[p] = b
        return True


def build_initial(case):
    """-> (Tree, skipped) ; entries that clash with an earlier entry are skipped (deterministically) and counted."""
    t = Tree()
    skipped = 0
    for d in case.get('dirs', []):
        if not t.add_dir(d):
            skipped += 1
    for e in case['files']:
        if not t.add_file(e[0], entry_bytes(e)):
            skipped += 1
    return t, skipped


# ----------------------------------------------------------------------------------------------------------------------
# reference model of the documented destination rules
#
#   DEST_DIR        copy *into* the directory dest: the target is dest/basename(src)
#   DEST_IS_TARGET  dest is the exact target (a trailing slash says the target is a directory); not allowed with several sources
#   INFER_DEST      trailing slash on dest, several sources, or dest being an existing directory => as DEST_DIR;
#                   otherwise dest is the exact target (and, if it exists, it is a file)
#   a source is a file (no trailing slash, regular file) or a directory (copied recursively, files only); neither =>
#   FileNotFoundError.  File onto a directory => IsADirectoryError.  Directory onto a file (or any path through a file) =>
#   NotADirectoryError.

class ENotDir(Exception):
    pass


def _stat(tree, p):
    p = norm(p)
    if any(a in tree.files for a in ancestors(p)):
        raise ENotDir(p)
    if p in tree.files:
        return 'file'
    if p in tree.dirs:
        return 'dir'
    return None


def model_unit(tree, src, dest, mode, is_list):
    """One (source, transfer) pair against the initial tree.
    -> dict(errs=set of class names (unit level), ferrs=set (per-file level), writes={path: bytes}, stat=path or None,
            kind='file'|'dir'|'missing', merge=bool)"""
    u = dict(errs=set(), ferrs=set(), writes={}, srcof={}, stat=None, kind='missing', merge=False, target=None, src=norm(src))
    s = norm(src)
    through_file = any(a in tree.files for a in ancestors(s))
    as_file = (not src.endswith('/')) and s in tree.files
    as_dir = s in tree.dirs
    eff = mode
    if mode == INFER_DEST and dest.endswith('/'):
        eff = DEST_DIR
    base = s.rsplit('/', 1)[-1]
    ttype = None
    dest_err = False
    if eff == DEST_DIR or (eff == INFER_DEST and is_list):
        target = norm(dest) + '/' + base
    elif eff == INFER_DEST:
        u['stat'] = norm(dest)
        try:
            dt = _stat(tree, dest)
        except ENotDir:
            dt = None
            dest_err = True
        if dt == 'dir':
            target = norm(dest) + '/' + base
        else:
            target = norm(dest)
            ttype = dt
    else:
        target = norm(dest)
        if dest.endswith('/'):
            ttype = 'dir'
    u['target'] = target
    if dest_err:
        u['errs'].add(NOTDIR)       # the destination type cannot be determined: its path runs through a file
    if not as_file and not as_dir:
        u['errs'].add(FNF)
        if through_file:
            u['errs'].add(NOTDIR)
        return u
    if dest_err:
        u['kind'] = 'file' if as_file else 'dir'
        return u

    def w(path, b, srcpath):
        if any(a in tree.files for a in ancestors(path)):
            u['ferrs'].add(NOTDIR)
        elif path in tree.dirs:
            u['ferrs'].add(ISDIR)
        else:
            u['writes'][path] = b
            u['srcof'][path] = srcpath

    if as_file:
        u['kind'] = 'file'
        if ttype == 'dir':
            u['errs'].add(ISDIR)
        else:
            w(target, tree.files[s], s)
    else:
        u['kind'] = 'dir'
        if ttype == 'file':
            u['errs'].add(NOTDIR)
        else:
            pre = s + '/'
            for f in sorted(tree.files):
                if f.startswith(pre):
                    w(target + '/' + f[len(pre):], tree.files[f], f)
            if target in tree.dirs and any(f.startswith(target + '/') for f in tree.files) and u['writes']:
                u['merge'] = True
    return u


def model(case, tree):
    """-> dict(ctor_error, units=[...], errs=set, final=dict path->bytes (for D/*), conflict=set paths, racy=bool)"""
    out = dict(ctor_error=None, units=[], errs=set(), conflict=set(), racy=False)
    for ti, x in enumerate(case['xfers']):
        if x['mode'] == DEST_IS_TARGET and isinstance(x['src'], list):
            out['ctor_error'] = NOTDIR
            out['final'] = dict(tree.files)
            return out
    for ti, x in enumerate(case['xfers']):
        srcs = x['src'] if isinstance(x['src'], list) else [x['src']]
        for si, s in enumerate(srcs):
            u = model_unit(tree, s, x['dest'], x['mode'], isinstance(x['src'], list))
            u['t'] = ti
            u['s'] = si
            out['units'].append(u)
            out['errs'] |= u['errs'] | u['ferrs']
    units = out['units']
    writers = {}
    for k, u in enumerate(units):
        for p in u['writes']:
            writers.setdefault(p, []).append(k)
    out['conflict'] = {p for p, ks in writers.items() if len(ks) > 1}
    created = []
    for u in units:
        a = set()
        for p in u['writes']:
            a.update(ancestors(p))
        created.append(a)
    for i, u in enumerate(units):
        for j, v in enumerate(units):
            if i == j:
                continue
            if set(u['writes']) & created[j]:
                out['racy'] = True          # u writes a file where v needs a directory
            P = v['stat']
            if P is not None and u['t'] != v['t'] and P not in tree.files and P not in tree.dirs:
                if P in u['writes'] or P in created[i] or (set(u['writes']) & set(ancestors(P))):
                    out['racy'] = True      # v's inferred destination type depends on whether u has created it yet
    final = dict(tree.files)
    for u in units:
        if not u['errs']:
            final.update(u['writes'])
    out['final'] = final
    return out


# ----------------------------------------------------------------------------------------------------------------------
# transient fault injection (a wrapper around the real file system the copier is handed)
#
# A fault plan is a list of [kind, path, index, times, error]: the first `times` (1 or 2) visits of the injection point
# (kind, path, index) raise `error`, an exception hailtop.utils.is_transient_error accepts.  `path` is relative to the case
# directory ('S/sub', 'D/x/a').  Injection points:
#   listfiles     the listfiles(dir) call itself; index = how many calls for that directory the same task (= the same source of a
#                 transfer) made before (0 = the first one)
#   list_next     the index-th __anext__ of a listing of dir (index = number of entries already delivered; the last one is the
#                 __anext__ that ends the listing).  Listings are async generators in every AsyncFS: one that raised is finished.
#   status/size   entry.status() / (await entry.status()).size() of the listed file `path` (until the first success, which the
#                 entry caches as LocalFileListEntry does; cloud entries carry both in the listing)
#   open/read     open(src) (index = calls before) / the index-th read() of one stream of src (the read that returns b'' included)
#   create/write/close   create(dest) (index = calls before) / the index-th write() of one stream / closing it after a clean body
#   makedirs      makedirs(dir) (index = calls before)
#   mpc           the multi_part_create(dest) call (index = calls before)
#   create_part/part_write/part_close   part number `index` of dest: create_part / any write / closing it
#   open_from/readexactly   the ranged read of src starting at byte offset `index`: opening it / reading it
FAULT_KINDS = ('listfiles', 'list_next', 'status', 'size', 'open', 'read', 'create', 'write', 'close', 'makedirs', 'mpc',
               'create_part', 'part_write', 'part_close', 'open_from', 'readexactly')
_COUNTED = ('listfiles', 'open', 'create', 'makedirs', 'mpc')        # index = number of earlier calls for the same path
FAULT_CLASS = {'listfiles': 'fault_in_listing_call', 'list_next': 'fault_in_listing_iteration', 'status': 'fault_in_status',
               'size': 'fault_in_size', 'open': 'fault_in_open', 'read': 'fault_in_read', 'create': 'fault_in_create',
               'write': 'fault_in_write', 'close': 'fault_in_close', 'makedirs': 'fault_in_makedirs',
               'mpc': 'fault_in_multi_part_create', 'create_part': 'fault_in_create_part', 'part_write': 'fault_in_part_write',
               'part_close': 'fault_in_part_close', 'open_from': 'fault_in_part_open', 'readexactly': 'fault_in_part_read'}
TIMEOUT_ERRORS = ('timeout', 'os_etimedout')          # instances of asyncio.TimeoutError (= builtin TimeoutError)
PART_KINDS = ('create_part', 'part_write', 'part_close', 'open_from', 'readexactly')


def unretried_point(kind, index):
    """Calls the copier makes OUTSIDE any retry_transient_errors (read off the unchanged code after the first run of the fault plans
    flagged them; reported, see ASSUMPTIONS): the first listfiles() of a source in SourceCopier.copy_as_dir, and makedirs() /
    multi_part_create() in _copy_file_multi_part_main.  A transient error there reaches the caller of Copier.copy unchanged -- a loud
    failure, accepted (and counted); it must still not corrupt anything."""
    return kind in ('makedirs', 'mpc') or (kind == 'listfiles' and index == 0)


FAULT_ERRORS = ('timeout', 'os_etimedout', 'os_econnreset', 'os_epipe', 'aiohttp_server_timeout', 'aiohttp_disconnected',
                'aiohttp_503', 'httpx_503', 'aiohttp_429')


def make_fault_error(name):
    import asyncio
    import errno
    if name == 'timeout':
        e = asyncio.TimeoutError()
    elif name == 'os_etimedout':
        e = OSError(errno.ETIMEDOUT, 'injected: operation timed out')
    elif name == 'os_econnreset':
        e = OSError(errno.ECONNRESET, 'injected: connection reset by peer')
    elif name == 'os_epipe':
        e = OSError(errno.EPIPE, 'injected: broken pipe')
    else:
        import aiohttp
        if name == 'aiohttp_server_timeout':
            e = aiohttp.ServerTimeoutError('injected')
        elif name == 'aiohttp_disconnected':
            e = aiohttp.ServerDisconnectedError('injected')
        else:
            from types import SimpleNamespace
            ri = SimpleNamespace(real_url='http://injected/', url='http://injected/', method='GET', headers={})
            status = int(name.rsplit('_', 1)[1])
            if name.startswith('httpx_'):
                import hailtop.httpx as hx
                e = hx.ClientResponseError(ri, (), body='injected', status=status, message='injected')
            else:
                e = aiohttp.ClientResponseError(ri, (), status=status, message='injected')
    e._verif_injected = name
    return e


def injected_name(exc):
    """-> the catalogue name if `exc` (or what it was raised from) is one of the injected transient errors, else None."""
    seen = 0
    while exc is not None and seen < 8:
        n = getattr(exc, '_verif_injected', None)
        if n:
            return n
        exc = exc.__cause__ or exc.__context__
        seen += 1
    return None


class Faults:
    def __init__(self, specs, prefixes):
        self.specs = [dict(kind=k, path=norm(pth), index=int(i), left=int(t), err=e) for k, pth, i, t, e in specs]
        self.prefixes = prefixes            # strings a url may start with in front of the case-relative path
        self.fired = []                     # [kind, path, index, error]
        self.calls = {}
        self.active = bool(self.specs)

    def rel(self, url):
        for pre in self.prefixes:
            if url.startswith(pre):
                return norm(url[len(pre):])
        return norm(url)

    def count(self, kind, rel):
        n = self.calls.get((kind, rel), 0)
        self.calls[(kind, rel)] = n + 1
        return n

    def hit(self, kind, rel, index=0):
        if not self.active:
            return
        for sp in self.specs:
            if sp['left'] > 0 and sp['kind'] == kind and sp['path'] == rel and \
                    (index >= sp['index'] if kind in _COUNTED else index == sp['index']):
                sp['left'] -= 1
                self.fired.append([kind, rel, index, sp['err']])
                e = make_fault_error(sp['err'])
                e._verif_injected = (sp['err'], len(self.fired) - 1)
                raise e


class _FStatus:
    def __init__(self, inner, F, rel):
        self._inner, self._F, self._rel, self._size = inner, F, rel, None

    def __getattr__(self, k):
        return getattr(self._inner, k)

    async def size(self):
        if self._size is None:
            self._F.hit('size', self._rel)
            self._size = await self._inner.size()
        return self._size

    async def __getitem__(self, key):
        return await self._inner[key]


class _FEntry:
    def __init__(self, inner, F):
        self._inner, self._F, self._st = inner, F, None

    def __getattr__(self, k):
        return getattr(self._inner, k)

    async def status(self):
        if self._st is None:
            rel = self._F.rel(await self._inner.url_maybe_trailing_slash())
            self._F.hit('status', rel)
            self._st = _FStatus(await self._inner.status(), self._F, rel)
        return self._st


class _FReadable:
    def __init__(self, inner, F, rel, start=None):
        self._inner, self._F, self._rel, self._start, self._k = inner, F, rel, start, 0

    def __getattr__(self, k):
        return getattr(self._inner, k)

    async def __aenter__(self):
        await self._inner.__aenter__()
        return self

    async def __aexit__(self, *a):
        return await self._inner.__aexit__(*a)

    async def read(self, n=-1):
        k, self._k = self._k, self._k + 1
        self._F.hit('read', self._rel, k)
        return await self._inner.read(n)

    async def readexactly(self, n):
        self._F.hit('readexactly', self._rel, self._start if self._start is not None else 0)
        return await self._inner.readexactly(n)


class _FWritable:
    def __init__(self, cm, F, rel, wkind, ckind, part=None):
        self._cm, self._F, self._rel, self._wkind, self._ckind, self._part, self._k, self._w = cm, F, rel, wkind, ckind, part, 0, None

    async def __aenter__(self):
        self._w = await self._cm.__aenter__()
        return self

    async def __aexit__(self, et, ev, tb):
        r = await self._cm.__aexit__(et, ev, tb)
        if et is None:
            self._F.hit(self._ckind, self._rel, self._part if self._part is not None else 0)     # the final flush reports a failure
        return r

    def __getattr__(self, k):
        return getattr(self._w if self._w is not None else self._cm, k)

    async def write(self, b):
        k, self._k = self._k, self._k + 1
        self._F.hit(self._wkind, self._rel, self._part if self._part is not None else k)
        return await self._w.write(b)


class _FMultiPart:
    def __init__(self, inner, F, rel):
        self._inner, self._F, self._rel = inner, F, rel

    async def __aenter__(self):
        await self._inner.__aenter__()
        return self

    async def __aexit__(self, *a):
        return await self._inner.__aexit__(*a)

    async def create_part(self, number, start, size_hint=None):
        self._F.hit('create_part', self._rel, number)
        cm = await self._inner.create_part(number, start, size_hint=size_hint)
        return _FWritable(cm, self._F, self._rel, 'part_write', 'part_close', part=number)


class FaultyFS:
    """The copier's view of the file system: every call goes to the real LocalAsyncFS / RouterAsyncFS, after the fault plan had its
    say.  Only what Copier / SourceCopier call is intercepted; the rest is delegated untouched."""

    def __init__(self, inner, F):
        self._inner, self._F = inner, F

    def __getattr__(self, k):
        return getattr(self._inner, k)

    async def listfiles(self, url, recursive=False, exclude_trailing_slash_files=True):
        import asyncio
        F = self._F
        rel = F.rel(url)
        # calls are numbered per listing task (one SourceCopier.copy_as_dir each): two sources naming the same directory both make
        # a "first" call
        F.hit('listfiles', rel, F.count('listfiles', (rel, id(asyncio.current_task()))))
        it = await self._inner.listfiles(url, recursive=recursive, exclude_trailing_slash_files=exclude_trailing_slash_files)

        async def listing():
            step = 0
            try:
                F.hit('list_next', rel, step)
                async for e in it:
                    yield _FEntry(e, F)
                    step += 1
                    F.hit('list_next', rel, step)
            finally:
                aclose = getattr(it, 'aclose', None)
                if aclose is not None:
                    await aclose()
        return listing()

    async def open(self, url):
        F = self._F
        rel = F.rel(url)
        F.hit('open', rel, F.count('open', rel))
        return _FReadable(await self._inner.open(url), F, rel)

    async def open_from(self, url, start, *, length=None):
        F = self._F
        rel = F.rel(url)
        F.hit('open_from', rel, start)
        return _FReadable(await self._inner.open_from(url, start, length=length), F, rel, start=start)

    async def create(self, url, *, retry_writes=True):
        F = self._F
        rel = F.rel(url)
        F.hit('create', rel, F.count('create', rel))
        return _FWritable(await self._inner.create(url, retry_writes=retry_writes), F, rel, 'write', 'close')

    async def makedirs(self, url, exist_ok=False):
        F = self._F
        rel = F.rel(url)
        F.hit('makedirs', rel, F.count('makedirs', rel))
        return await self._inner.makedirs(url, exist_ok=exist_ok)

    async def multi_part_create(self, sema, url, num_parts):
        F = self._F
        rel = F.rel(url)
        F.hit('mpc', rel, F.count('mpc', rel))
        return _FMultiPart(await self._inner.multi_part_create(sema, url, num_parts), F, rel)


def fault_points(case, tree, m):
    """Injection points the fault-free run of this case visits, derived from the reference model (the generator draws from this
    list, so that a planned fault is reached by construction).  -> list of [kind, path, index]"""
    pts = []
    seen = set()

    def add(kind, path, index=0):
        key = (kind, path, index)
        if key not in seen:
            seen.add(key)
            pts.append([kind, path, index])
    p, buf = case['p'], case['buf']
    if m.get('ctor_error'):
        return pts
    for u in m['units']:
        s = u['src']
        if u['kind'] == 'dir':
            n = sum(1 for f in tree.files if f.startswith(s + '/'))
            add('listfiles', s, 0)
            add('listfiles', s, 1)
            for j in range(n + 1):
                add('list_next', s, j)
            if not u['errs']:
                for f in sorted(tree.files):
                    if f.startswith(s + '/'):
                        add('status', f)
                        add('size', f)
        elif u['kind'] == 'file':
            add('listfiles', s, 0)
        if u['errs']:
            continue
        for dest, b in sorted(u['writes'].items()):
            src = u['srcof'][dest]
            parent = dest.rsplit('/', 1)[0]
            if parent not in tree.dirs:
                add('makedirs', parent, 0)
            if len(b) <= p:
                add('open', src, 0)
                for k in range(-(-len(b) // buf) + 1):
                    add('read', src, k)
                add('create', dest, 0)
                for k in range(-(-len(b) // buf)):
                    add('write', dest, k)
                add('close', dest, 0)
            else:
                add('mpc', dest, 0)
                nparts = -(-len(b) // p)
                for i in range(nparts):
                    add('create_part', dest, i)
                    add('part_write', dest, i)
                    add('part_close', dest, i)
                    this = min(p, len(b) - i * p)
                    for off in range(i * p, i * p + this, buf):
                        add('open_from', src, off)
                        add('readexactly', src, off)
    return pts


# ----------------------------------------------------------------------------------------------------------------------
# running the real copier

def _materialize(base, tree):
    for d in sorted(tree.dirs):
        os.makedirs(os.path.join(base, d), exist_ok=True)
    for p, b in tree.files.items():
        with open(os.path.join(base, p), 'wb') as f:
            f.write(b)


def _read_back(base):
    files = {}
    for root, dirs, fs in os.walk(base):
        for fn in fs:
            full = os.path.join(root, fn)
            rel = os.path.relpath(full, base)
            if os.path.islink(full) or not os.path.isfile(full):
                files[rel] = b'<not a regular file>'
                continue
            with open(full, 'rb') as f:
                files[rel] = f.read()
    return files


def _recorded(report):
    """Exceptions recorded in a CopyReport (return_exceptions=True): -> (top, per_transfer[list], per_source[(t, s)] -> list)"""
    top = [report._exception] if report._exception else []
    trs = report._transfer_report
    if not isinstance(trs, list):
        trs = [trs]
    per_t = []
    per_s = {}
    for ti, tr in enumerate(trs):
        per_t.append([tr._exception] if tr._exception else [])
        srs = tr._source_report
        if not isinstance(srs, list):
            srs = [srs]
        for si, sr in enumerate(srs):
            l = []
            if sr._exception:
                l.append(sr._exception)
            if sr._first_file_error:
                l.append(sr._first_file_error['exception'])
            per_s[(ti, si)] = l
    return top, per_t, per_s


_POOLS = {}


def run_real(case, tree):
    """-> dict(exc=class name or None, exc_repr, ctor=bool, report=(top, per_t, per_s) or None, files=read back, timeout=bool)"""
    hostenv.install()
    import asyncio
    from concurrent.futures import ThreadPoolExecutor
    from hailtop.aiotools.fs.copier import Copier, Transfer
    from hailtop.aiotools.local_fs import LocalAsyncFS
    from hailtop.aiotools.router_fs import RouterAsyncFS

    import logging
    import hailtop.utils.utils as UU
    base = tempfile.mkdtemp(prefix=f'verif-c22-{os.getpid()}-', dir=SCRATCH)
    out = dict(exc=None, exc_repr=None, ctor=False, report=None, files=None, timeout=False, fired=[], injected=None)
    saved_buf = Copier.BUFFER_SIZE
    saved_delay = UU.delay_ms_for_try
    UU.delay_ms_for_try = lambda *a, **k: 0          # retries cost no wall time (the back-off itself is C21's subject)
    logging.getLogger('hailtop.utils').setLevel(logging.CRITICAL)      # "A transient error occured ..." warnings of the retry loop
    F = Faults(case.get('faults') or [], [case.get('scheme', '') + base + '/', base + '/'])
    saved_cps = LocalAsyncFS.__dict__.get('copy_part_size')
    tp = _POOLS.get(case['workers'])      # pools are reused across cases of one shard process (thread start/exit is slow)
    if tp is None:
        tp = _POOLS[case['workers']] = ThreadPoolExecutor(max_workers=case['workers'])
    try:
        _materialize(base, tree)
        pre = case.get('scheme', '') + base + '/'
        p = case['p']
        Copier.BUFFER_SIZE = case['buf']
        LocalAsyncFS.copy_part_size = staticmethod(lambda url, _p=p: _p)

        def U(rel):
            return pre + rel

        try:
            transfers = []
            for x in case['xfers']:
                src = [U(s) for s in x['src']] if isinstance(x['src'], list) else U(x['src'])
                transfers.append(Transfer(src, U(x['dest']), treat_dest_as=x['mode']))
        except (NotADirectoryError, ValueError) as e:
            out['exc'] = type(e).__name__
            out['exc_repr'] = repr(e)
            out['ctor'] = True
            transfers = None

        async def go():
            if case['fs'] == 'router':
                fs = RouterAsyncFS(local_kwargs={'thread_pool': tp})
            else:
                fs = LocalAsyncFS(thread_pool=tp)
            if F.active:
                fs = FaultyFS(fs, F)
            try:
                sema = asyncio.Semaphore(case['sema'])
                arg = transfers[0] if case['form'] == 'single' else transfers
                async with sema:
                    return await Copier.copy(fs, sema, arg, return_exceptions=bool(case.get('rex')))
            finally:
                await fs.close()

        async def captured():
            # the copy's own exception is captured INSIDE wait_for: an (injected) asyncio.TimeoutError raised by Copier.copy must not
            # be mistaken for the harness deadline
            try:
                return None, await go()
            except Exception as e:      # noqa: BLE001 - the class is what the oracle compares
                return e, None

        async def guarded():
            return await asyncio.wait_for(captured(), CASE_TIMEOUT)

        if transfers is not None:
            try:
                e, report = asyncio.run(guarded())
                if e is not None:
                    out['exc'] = type(e).__name__
                    out['exc_repr'] = repr(e)
                    out['injected'] = injected_name(e)
                elif case.get('rex'):
                    out['report'] = _recorded(report)
            except asyncio.TimeoutError:
                out['timeout'] = True
        F.active = False
        out['fired'] = F.fired
        out['files'] = _read_back(base)
    finally:
        Copier.BUFFER_SIZE = saved_buf
        UU.delay_ms_for_try = saved_delay
        if saved_cps is None:
            try:
                del LocalAsyncFS.copy_part_size
            except AttributeError:
                pass
        else:
            LocalAsyncFS.copy_part_size = saved_cps
        if out['timeout']:
            _POOLS.pop(case['workers'], None)
            tp.shutdown(wait=False, cancel_futures=True)
        shutil.rmtree(base, ignore_errors=True)
    return out


# ----------------------------------------------------------------------------------------------------------------------
# oracle

def _diff(want, got, skip=()):
    msgs = []
    for p in sorted(set(want) | set(got)):
        if p in skip:
            continue
        a, b = want.get(p), got.get(p)
        if a == b:
            continue
        if a is None:
            msgs.append(f'unexpected file {p} ({len(b)} bytes)')
        elif b is None:
            msgs.append(f'missing file {p} (expected {len(a)} bytes)')
        else:
            k = next((i for i in range(min(len(a), len(b))) if a[i] != b[i]), min(len(a), len(b)))
            msgs.append(f'{p}: expected {len(a)} bytes, found {len(b)} bytes, first difference at offset {k}')
    return msgs


def check_case(case, _retry=True):
    tree, skipped = build_initial(case)
    m = model(case, tree)
    real = run_real(case, tree)
    fails = []
    classes = set()
    p = case['p']

    # ---- classes
    classes.add('fs_' + case['fs'])
    classes.add('form_' + case['form'])
    if case.get('scheme'):
        classes.add('scheme_file')
    if case.get('rex'):
        classes.add('return_exceptions')
    if skipped:
        classes.add('skipped_tree_entries')
    for x in case['xfers']:
        classes.add('mode_' + x['mode'])
        classes.add('src_list' if isinstance(x['src'], list) else 'src_single')
        if x['dest'].endswith('/'):
            classes.add('slash_dest')
        try:
            dt = _stat(tree, x['dest'])
        except ENotDir:
            dt = 'through_file'
        classes.add('dest_' + (dt or 'absent'))
        for s in (x['src'] if isinstance(x['src'], list) else [x['src']]):
            if s.endswith('/'):
                classes.add('slash_src')
    for u in m['units']:
        classes.add('src_' + u['kind'])
        if u['merge'] and not u['errs']:
            classes.add('dir_merge')
        for path, b in u['writes'].items():
            if len(b) == 0:
                classes.add('empty_file')
            if len(b) > p:
                classes.add('multipart_short_last' if len(b) % p else 'multipart_exact')
    if m['racy']:
        classes.add('racy')
    if m['conflict']:
        classes.add('conflict')
    for e in m['errs']:
        classes.add('predicted_' + e)
    if m['ctor_error']:
        classes.add('predicted_ctor_error')
    planned = case.get('faults') or []
    fired = real['fired']
    if planned:
        classes.add('faults_planned')
        if not fired:
            classes.add('faults_planned_none_reached')
    for kind, _pth, _idx, err in fired:
        classes.add(FAULT_CLASS[kind])
        classes.add('fault_error_' + err)
    if len(fired) >= 2:
        classes.add('faults_fired_ge2')
    per_point = {}
    for kind, pth, idx, _err in fired:
        key = (kind, pth, None if kind in _COUNTED else idx)
        per_point[key] = per_point.get(key, 0) + 1
    if any(v >= 2 for v in per_point.values()):
        classes.add('fault_same_point_twice')

    if real['timeout']:
        if _retry:
            nt2, cl2, fl2 = check_case(case, _retry=False)
            if 'timeout' in cl2:
                return False, sorted(classes | {'timeout'}), [('hang-reproducible', 'the copy terminates',
                                                              f'Copier.copy did not finish within {CASE_TIMEOUT}s twice')]
            return nt2, sorted(set(cl2) | {'timeout_once'}), fl2
        return False, sorted(classes | {'timeout'}), []

    init_S = {k: v for k, v in tree.files.items() if k.startswith('S/')}
    got_S = {k: v for k, v in real['files'].items() if k.startswith('S/') or k == 'S'}
    got_D = {k: v for k, v in real['files'].items() if not (k.startswith('S/') or k == 'S')}
    d = _diff(init_S, got_S)
    if d:
        fails.append(('source-changed', 'sources are unchanged by a copy', '; '.join(d[:5])))

    touched = set()
    for u in m['units']:
        touched |= set(u['writes'])
    init_D = {k: v for k, v in tree.files.items() if not k.startswith('S/')}
    rex = bool(case.get('rex'))
    success = False

    if real['exc'] is not None and real.get('injected'):
        # an injected transient error reached the caller of Copier.copy
        kind, _pth, idx, _err = fired[real['injected'][1]]
        classes.add('transient_error_propagated')
        if unretried_point(kind, idx) and not rex:
            classes.add('accepted_loud_failure_at_unretried_' + kind)
        else:
            fails.append((f'transient-fault-not-retried-{kind}', 'a transient error of the file system is retried, the copy completes or '
                          'raises the documented error',
                          f'injected {fired}; Copier.copy raised {real["exc_repr"]} (model predicts '
                          f'{sorted(m["errs"]) if m["errs"] else "success"})'))
        inferred = {u['stat'] for u in m['units'] if u['stat'] is not None} if m['racy'] else set()
        d = _diff(init_D, got_D, skip=touched | {x for x in got_D if any(x.startswith(t + '/') for t in touched | inferred)})
        if d:
            fails.append(('untouched-file-changed', 'files that no transfer targets keep their old contents', '; '.join(d[:5])))
    elif m['ctor_error']:
        if not real['ctor'] or real['exc'] != m['ctor_error']:
            fails.append(('multi-source-onto-target-not-rejected', 'several sources onto an exact target raise NotADirectoryError',
                          f'expected {m["ctor_error"]} from Transfer(); got {real["exc_repr"]}'))
        d = _diff(init_D, got_D)
        if d:
            fails.append(('dest-changed-on-rejected-transfer', 'a rejected transfer changes nothing', '; '.join(d[:5])))
    elif m['racy']:
        if real['exc'] is not None and real['exc'] not in DOCUMENTED | {'FileExistsError'}:
            fails.append((f'undocumented-exception-{real["exc"]}', 'only documented errors are raised', real['exc_repr']))
        # a unit whose destination type is inferred may, in the other order, have copied INTO that destination (dest/basename(src)/...)
        inferred = {u['stat'] for u in m['units'] if u['stat'] is not None}
        d = _diff(init_D, got_D, skip=touched | {x for x in got_D if any(x.startswith(t + '/') for t in touched | inferred)})
        if d:
            fails.append(('untouched-file-changed', 'files that no transfer targets keep their old contents', '; '.join(d[:5])))
    elif m['errs'] and not rex:
        if real['exc'] is None:
            fails.append(('error-not-raised-' + '-'.join(sorted(m['errs'])), 'the documented error is raised',
                          f'expected one of {sorted(m["errs"])}; the copy returned normally'))
        elif real['exc'] not in m['errs']:
            fails.append((f'wrong-exception-{real["exc"]}-for-' + '-'.join(sorted(m['errs'])), 'the documented error is raised',
                          f'expected one of {sorted(m["errs"])}; got {real["exc_repr"]}'))
        d = _diff(init_D, got_D, skip=touched)
        if d:
            fails.append(('untouched-file-changed', 'files that no transfer targets keep their old contents', '; '.join(d[:5])))
    else:
        # success, or return_exceptions mode (never raises; every non-failing file is still copied)
        if real['exc'] is not None:
            sig = f'unexpected-exception-{real["exc"]}' + ('-with-return-exceptions' if rex else '')
            fails.append((sig, 'a valid copy succeeds' if not rex else 'return_exceptions mode records errors instead of raising',
                          f'model predicts {"recorded " + str(sorted(m["errs"])) if m["errs"] else "success"}; got {real["exc_repr"]}'))
        else:
            d = _diff(m['final'], real['files'], skip=m['conflict'])
            if d:
                kinds = set()
                for line in d:
                    kinds.add('missing' if line.startswith('missing') else 'unexpected' if line.startswith('unexpected') else 'content')
                fails.append(('dest-' + '+'.join(sorted(kinds)), 'every destination file is byte-identical to its source and every '
                              'other file keeps its contents', '; '.join(d[:6])))
            success = not m['errs']
            if rex and real['report'] is not None:
                top, per_t, per_s = real['report']
                if top and isinstance(top[0], ValueError) and 'return_exceptions and cancel_on_error' in str(top[0]):
                    # one root cause (Copier._copy passes return_exceptions=True together with cancel_on_error=True): report it
                    # alone, under its own signature
                    return False, sorted(classes | {'rex_list_rejected'}), [(
                        'return-exceptions-with-transfer-list-copies-nothing',
                        'return_exceptions mode copies every valid source and records the errors of the others',
                        f'Copier.copy(fs, sema, [Transfer, ...], return_exceptions=True) copied nothing and recorded {top[0]!r} '
                        f'on the CopyReport')]
                if top:
                    fails.append(('copy-level-exception-recorded', 'errors are recorded at the source/transfer they belong to',
                                  repr(top)))
                for u in m['units']:
                    rec = per_s.get((u['t'], u['s']), []) + per_t[u['t']]
                    names = {type(e).__name__ for e in rec}
                    want = u['errs'] | u['ferrs']
                    if want and not names:
                        fails.append(('error-not-recorded-' + '-'.join(sorted(want)), 'the documented error is recorded',
                                      f'unit t{u["t"]}s{u["s"]}: expected one of {sorted(want)}; nothing recorded'))
                    elif want and not (names & want):
                        fails.append((f'wrong-exception-recorded-{"-".join(sorted(names))}', 'the documented error is recorded',
                                      f'unit t{u["t"]}s{u["s"]}: expected one of {sorted(want)}; recorded {rec!r}'))
                    elif not want and per_s.get((u['t'], u['s'])):
                        fails.append(('spurious-error-recorded', 'a valid source copies without error',
                                      f'unit t{u["t"]}s{u["s"]}: {per_s[(u["t"], u["s"])]!r}'))

    nontrivial = False
    if success and not fails:
        classes.add('success')
        if fired:
            classes.add('faults_absorbed_success')
            nontrivial = True
        for u in m['units']:
            if u['merge']:
                nontrivial = True
            for path, b in u['writes'].items():
                if len(b) > p and len(b) % p:
                    nontrivial = True
    return nontrivial, sorted(classes), fails


# ----------------------------------------------------------------------------------------------------------------------
# the repository's spec table as cases + model validation

def _hex(s: str):
    return s.encode().hex()


def table_rows():
    path = os.path.join(hostenv.REPO, 'hail/python/test/hailtop/inter_cloud/copy_test_specs.py')
    ns = {}
    with open(path) as f:
        exec(compile(f.read(), path, 'exec'), ns)   # a literal table: COPY_TEST_SPECS = [...]
    return ns['COPY_TEST_SPECS']


def row_to_case(row, variant=0):
    files = [['D/keep', 'hex', '']]
    if row['src_type'] == 'file':
        files.append(['S/a', 'hex', _hex('src/a')])
    elif row['src_type'] == 'dir':
        files.append(['S/a/file1', 'hex', _hex('src/a/file1')])
        files.append(['S/a/subdir/file2', 'hex', _hex('src/a/subdir/file2')])
    if row['dest_type'] == 'file':
        files.append(['D/a', 'hex', _hex('dest/a')])
    elif row['dest_type'] == 'dir':
        files.append(['D/a/subdir/file2', 'hex', _hex('dest/a/subdir/file2')])
        files.append(['D/a/file3', 'hex', _hex('dest/a/file3')])
    src = 'S/a' + ('/' if row['src_trailing_slash'] else '')
    dest = 'D' + (('/' + row['dest_basename']) if row['dest_basename'] else '')
    if row['dest_trailing_slash']:
        dest += '/'
    # the table was produced with the production part size (single-part); variants also force multi-part on the same rows
    p, buf = [(64, 40), (4, 3), (7, 16)][variant % 3]
    return dict(p=p, buf=buf, sema=[50, 1, 3][variant % 3], workers=[4, 1, 2][variant % 3], fs=['router', 'local', 'router'][variant % 3],
                scheme=['', '', 'file://'][variant % 3], rex=False, files=files, dirs=[], form=['single', 'list', 'single'][variant % 3],
                xfers=[dict(src=src, dest=dest, mode=row['treat_dest_as'])], table_row=True)


def model_vs_table(row):
    """-> None if the reference model reproduces the table row, else a message."""
    case = row_to_case(row)
    tree, _ = build_initial(case)
    m = model(case, tree)
    want = row['result']
    if m['errs']:
        got = {'exception': sorted(m['errs'])}
        if 'exception' in want and [want['exception']] == got['exception']:
            return None
        return f'model {got} table {want}'
    got = {'/' + k[2:]: v.decode() for k, v in m['final'].items() if k.startswith('D/')}
    if want.get('files') == got:
        return None
    return f'model files {got} table {want}'


# ----------------------------------------------------------------------------------------------------------------------
# generation

NAMES = ['a', 'b', 'c', 'sub', 'x', 'k']
SPECIAL = ['a#1', 'q?v=1', 'semi;x', 'pct%41', 'sp ace', 'plus+', 'amp&b']


def strategies(special=False, faults=False):
    from hypothesis import strategies as st
    names = st.sampled_from(NAMES + (SPECIAL * 2 if special else []))

    @st.composite
    def cases(draw):
        p = draw(st.one_of(st.integers(1, 8), st.integers(1, 64)))
        buf = draw(st.integers(max(1, (p + 5) // 6), min(40, max(p + 8, 8))))
        ks = [0, 1, p - 1, p, p + 1, 2 * p - 1, 2 * p, 2 * p + 1, 3 * p - 1, 3 * p, 3 * p + 1, 4 * p + 1, 5 * p - 1,
              buf - 1, buf, buf + 1, p + buf, 2 * p + buf - 1]
        ks = sorted({k for k in ks if 0 <= k <= 5 * p + 2 and k <= 330})
        size = st.one_of(st.sampled_from(ks), st.integers(0, min(4 * p + 3, 330)))
        relpath = st.lists(names, min_size=1, max_size=3).map('/'.join)
        sfiles = draw(st.lists(st.tuples(relpath, size, st.integers(0, 255)), min_size=1, max_size=8))
        files = [['S/' + r, n, sd] for r, n, sd in sfiles]
        dirs = ['S/' + r for r in draw(st.lists(relpath, max_size=2))]
        dstate = draw(st.sampled_from(['empty', 'overlap', 'overlap', 'random']))
        if dstate != 'empty':
            nd = draw(st.integers(1, 5))
            for _ in range(nd):
                if dstate == 'overlap' and draw(st.booleans()):
                    r = draw(st.sampled_from(sfiles))[0]
                    pre = draw(st.sampled_from(['', '', 'a/', 'x/', 'S/']))
                    r = pre + r
                else:
                    r = draw(relpath)
                files.append(['D/' + r, draw(st.integers(0, 12)), draw(st.integers(0, 255))])
            dirs += ['D/' + r for r in draw(st.lists(relpath, max_size=2))]
        case = dict(p=p, buf=buf, sema=draw(st.integers(1, 8)), workers=draw(st.integers(1, 4)),
                    fs=draw(st.sampled_from(['router', 'local'])), scheme=draw(st.sampled_from(['', '', 'file://'])),
                    rex=False, files=files, dirs=dirs)
        tree, _ = build_initial(case)
        sf = sorted(k for k in tree.files if k.startswith('S/'))
        sd = sorted(k for k in tree.dirs if k == 'S' or k.startswith('S/'))
        df = sorted(k for k in tree.files if k.startswith('D/'))
        dd = sorted(k for k in tree.dirs if k == 'D' or k.startswith('D/'))

        def a_src():
            kind = draw(st.sampled_from(['file', 'dir', 'file', 'dir', 'dir', 'file', 'dir', 'file', 'dir', 'missing']))
            if kind == 'file' and sf:
                s = draw(st.sampled_from(sf))
            elif kind == 'dir' or (kind == 'file' and not sf):
                s = draw(st.sampled_from(sd))
            else:
                s = draw(st.sampled_from(sd + sf)) + '/' + draw(st.sampled_from(['zz', 'a', 'nope']))
            if draw(st.sampled_from([False, False, False, False, False, True])):
                s += '/'
            return s

        def a_dest():
            kind = draw(st.sampled_from(['root', 'dir', 'dir', 'file', 'fresh', 'fresh', 'deep', 'below_file']))
            if kind == 'dir':
                d = draw(st.sampled_from(dd))
            elif kind == 'file' and df:
                d = draw(st.sampled_from(df))
            elif kind == 'fresh':
                d = draw(st.sampled_from(dd)) + '/' + draw(st.sampled_from(['new', 'n2', 'a', 'sub']))
            elif kind == 'deep':
                d = draw(st.sampled_from(dd)) + '/new/deeper'
            elif kind == 'below_file' and df:
                d = draw(st.sampled_from(df)) + '/under'
            else:
                d = 'D'
            if draw(st.sampled_from([False, False, False, True])):
                d += '/'
            return d

        form = draw(st.sampled_from(['single', 'single', 'list']))
        nx = 1 if form == 'single' else draw(st.integers(1, 3))
        xfers = []
        for _ in range(nx):
            if draw(st.sampled_from([False, False, True])):
                src = [a_src() for _ in range(draw(st.integers(1, 3)))]
                mode = draw(st.sampled_from([DEST_DIR, INFER_DEST, DEST_DIR, INFER_DEST, DEST_DIR, INFER_DEST, DEST_IS_TARGET]))
            else:
                src = a_src()
                mode = draw(st.sampled_from(MODES))
            xfers.append(dict(src=src, dest=a_dest(), mode=mode))
        case['form'] = form
        case['rex'] = draw(st.sampled_from([False] * (3 if form == 'single' else 11) + [True]))
        case['xfers'] = xfers
        # transient faults of the file system: 0-3 injection points drawn from the points the reference model says this very case
        # visits (listing phase and byte-copying phase), each failing once or twice with an error is_transient_error accepts
        if faults:
            pts = fault_points(case, tree, model(case, tree))
            if case['rex']:
                # return_exceptions mode RECORDS whatever reaches SourceCopier.copy instead of raising it: the un-retried calls are
                # left out there, and part-level faults are timeouts (see ASSUMPTIONS: _copy_part records every other error)
                pts = [q for q in pts if not unretried_point(q[0], q[2])]
            listing = [q for q in pts if q[0] in ('list_next', 'status', 'size') or (q[0] == 'listfiles' and q[2] >= 1)]
            nf = draw(st.sampled_from([0, 1, 1, 1, 2, 2, 3])) if pts else 0
            plan_ = []
            for _ in range(nf):
                pool = listing if (listing and draw(st.booleans())) else pts
                # first the kind (so that the many part-level points do not crowd out open / read / create / write / close), then a
                # point of that kind
                k0 = draw(st.sampled_from(sorted({q[0] for q in pool})))
                kind, pth, idx = draw(st.sampled_from([q for q in pool if q[0] == k0]))
                errs = TIMEOUT_ERRORS if (case['rex'] and kind in PART_KINDS) else FAULT_ERRORS
                if kind == 'listfiles' and idx >= 1:
                    # the copier lists a source a second time only after a fault in the listing phase: plan that one, too
                    plan_.append(['list_next', pth, draw(st.integers(0, 1)), 1, draw(st.sampled_from(errs))])
                plan_.append([kind, pth, idx, draw(st.sampled_from([1, 1, 2])), draw(st.sampled_from(errs))])
            case['faults'] = plan_
        return case

    return cases()


# ----------------------------------------------------------------------------------------------------------------------

def plan(tier):
    n = 250 if tier == 'quick' else 6000
    specs = [dict(kind='table', variant=0), dict(kind='table', variant=1)]
    specs += [dict(kind='hyp', n=n) for _ in range(7)]
    specs += [dict(kind='hyp', n=n, faults=True) for _ in range(6)]
    specs.append(dict(kind='special', n=25 if tier == 'quick' else 300))
    return specs


def _record(res, fl, case):
    known = known_signatures(PROPERTY)
    for sig, cl, m in fl:
        if sig in known:
            res.known_hits[sig] = res.known_hits.get(sig, 0) + 1
        else:
            res.fail(sig, cl, m, case)


def run_shard(spec, seed, tier):
    res = Result()
    if spec['kind'] == 'table':
        rows = table_rows()
        res.notes['table_rows'] = len(rows) if spec['variant'] == 0 else 0
        bad = 0
        for i, row in enumerate(rows):
            if spec['variant'] == 0:
                msg = model_vs_table(row)
                if msg is not None:
                    bad += 1
                    res.fail('model-disagrees-with-spec-table', 'the reference model reproduces the repository copy_test_specs table',
                             f'row {i} {dict((k, v) for k, v in row.items() if k != "result")}: {msg}', row_to_case(row))
            variants = [0, 1] if spec['variant'] == 0 else [2]
            if tier == 'quick' and spec['variant'] == 0:
                variants = [0] if i % 2 else [1]
            for v in variants:
                case = row_to_case(row, v)
                nt, cls, fl = check_case(case)
                res.case(case, nt or (row['src_type'] == 'dir' and row['dest_type'] == 'dir' and 'success' in cls and 'dir_merge' in cls),
                         cls + ['table_row'])
                _record(res, fl, case)
        if spec['variant'] == 0:
            res.notes['table_rows_model_disagrees'] = bad
        return res
    if spec['kind'] == 'special':
        # minimal hand-written members of the class first, so that the recorded witness is small
        for nm in SPECIAL:
            for mode, dest in ((DEST_DIR, 'D'), (DEST_IS_TARGET, 'D/' + nm), (INFER_DEST, 'D/new' + nm[-2:])):
                case = dict(p=4, buf=3, sema=2, workers=1, fs='router', scheme='', rex=False, files=[['S/' + nm, 5, 1]], dirs=[],
                            form='single', xfers=[dict(src='S/' + nm, dest=dest, mode=mode)])
                nt, cls, fl = _check_special(case)
                res.case(case, nt, cls)
                _record(res, fl, case)
    from vlib.hyp import search
    search(res, PROPERTY, strategies(special=spec['kind'] == 'special', faults=bool(spec.get('faults'))),
           _check_special if spec['kind'] == 'special' else check_case, spec['n'], seed)
    return res


def _has_special(case):
    names = [e[0] for e in case['files']] + list(case.get('dirs') or [])
    for x in case['xfers']:
        names += (x['src'] if isinstance(x['src'], list) else [x['src']]) + [x['dest']]
    return any(ch in nm for nm in names for ch in '#?;%&+ ')


def _check_special(case):
    if case.get('rex') and case['form'] == 'list':
        case = dict(case, rex=False)
    if _has_special(case) and case.get('scheme'):
        # names with # ? ; are only generated as plain local paths: inside a file:// URL those characters are URL syntax
        # (query / fragment), so what such a URL names is not defined by the statement ("local paths")
        case = dict(case, scheme='')
    nt, cls, fl = check_case(case)
    if _has_special(case):
        cls = list(cls) + ['special_char_name']
        # every failure of a case whose names contain URL-special characters is attributed to one root cause (the dedicated shard
        # is the only one that generates such names; unrelated defects are found by the other shards)
        fl = [('special-char-name-mangled', 'a source named with the characters # ? ; is copied to a destination of the same name',
               f'[{sig}] {m}') for sig, cl, m in fl][:1]
    return nt, cls, fl


def replay(case):
    fn = _check_special if _has_special(case) else check_case
    nt, cls, fl = fn(case)
    return [dict(signature=s, clause=c, message=m, case=case) for s, c, m in fl]
