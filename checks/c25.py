"""C25 — resource-size strings parse to their exact decimal value; client and server accept the same strings."""
from __future__ import annotations

import itertools
import math
from fractions import Fraction

from vlib import hostenv
from vlib.runner import Result

PROPERTY = 'C25'
LEVEL = 'exploration'
RULE = ('strings generated from the grammar [+]?(digits?.)?digits(unit)?B? (digit runs 1-24, leading zeros, >2^53, all unit '
        'spellings) plus near-grammar mutants for the acceptance comparison; exhaustive grids d.ddd x units and 0..4096 x '
        'units. Oracle: exact Fraction arithmetic (cpu floor(v*1000), memory/storage ceil(v*factor)); acceptance: '
        'parse()!=None <=> server job_validator accepts <=> hand-written recogniser. Non-trivial: string has a fractional '
        'part or a unit suffix (value not a plain small integer); distinct by string.')
ASSUMPTIONS = ['"exact value" means the decimal literal read as a rational number times the unit factor (K=1000, Ki=1024, ...)']
TRUSTED = ['reference recogniser and Fraction oracle in checks/c25.py']

UNITS = ['', 'K', 'Ki', 'M', 'Mi', 'G', 'Gi', 'T', 'Ti', 'P', 'Pi']
FACT = {'': 1, 'K': 1000, 'Ki': 1024, 'M': 1000**2, 'Mi': 1024**2, 'G': 1000**3, 'Gi': 1024**3, 'T': 1000**4,
        'Ti': 1024**4, 'P': 1000**5, 'Pi': 1024**5}
ASCII_DIGITS = '0123456789'


def ref_parse(s: str, kind: str):
    """Hand-written recogniser: returns (number_text, unit) or None."""
    if not isinstance(s, str):
        return None
    i = 0
    n = len(s)
    if i < n and s[i] == '+':
        i += 1
    j = i
    while j < n and s[j] in ASCII_DIGITS:
        j += 1
    intpart = s[i:j]
    if j < n and s[j] == '.':
        k = j + 1
        while k < n and s[k] in ASCII_DIGITS:
            k += 1
        frac = s[j + 1:k]
        if not frac:
            return None
        num = (intpart or '0') + '.' + frac
        j = k
    else:
        if not intpart:
            return None
        num = intpart
    rest = s[j:]
    if kind == 'cpu':
        if rest == '':
            return num, ''
        if rest == 'm':
            return num, 'm'
        return None
    if rest.endswith('B'):
        rest = rest[:-1]
    if rest in FACT:
        return num, rest
    return None


def exact(s: str, kind: str):
    r = ref_parse(s, kind)
    if r is None:
        return None
    num, unit = r
    v = Fraction(num)
    if kind == 'cpu':
        if unit == 'm':
            v = v / 1000
        return math.floor(v * 1000)
    return math.ceil(v * FACT[unit])


_fns = None


def fns():
    global _fns
    if _fns is None:
        hostenv.prepare_services()
        from hailtop.batch_client import parse
        from batch.front_end.validate import job_validator
        from hailtop.utils.validate import ValidationError
        from batch.globals import memory_types

        def server_accepts(kind, s):
            try:
                job_validator['resources'][{'cpu': 'cpu', 'memory': 'memory', 'storage': 'storage'}[kind]].validate('x', s)
                return True
            except ValidationError:
                return False
        _fns = dict(cpu=parse.parse_cpu_in_mcpu, memory=parse.parse_memory_in_bytes, storage=parse.parse_storage_in_bytes,
                    server=server_accepts, memory_types=set(memory_types))
    return _fns


def check_one(kind: str, s: str):
    """-> list of (signature, clause, message)"""
    f = fns()
    out = []
    try:
        got = f[kind](s)
    except Exception as e:  # the parse functions never raise on str input by contract (return None)
        return [(f'{kind}-raises-{type(e).__name__}', 'parse returns a value or None', f'{kind}({s!r}) raised {e!r}')]
    want = exact(s, kind)
    srv = f['server'](kind, s)
    if (got is None) != (want is None):
        out.append((f'{kind}-client-accept-mismatch', 'client accepts exactly the grammar',
                    f'{kind}({s!r}) = {got!r}, reference says {"reject" if want is None else "accept"}'))
    elif got is not None and got != want:
        out.append((f'{kind}-value', 'parsed value equals exact decimal value',
                    f'{kind}({s!r}) = {got!r}, exact {want!r}'))
    srv_expected = (want is not None) or (kind == 'memory' and s in f['memory_types'])
    if srv != srv_expected:
        out.append((f'{kind}-server-accept-mismatch', 'server accepts the same strings as the client',
                    f'server validator {"accepts" if srv else "rejects"} {kind} {s!r}; client parse -> {got!r}'))
    if out:
        return out
    # the three parsers live in one module and are called on the same strings in one process (cpu, memory and storage of one job):
    # the answer of each must not depend on which parser saw the string before
    for k2 in ('cpu', 'memory', 'storage'):
        if k2 == kind:
            continue
        try:
            got2 = f[k2](s)
        except Exception as e:
            return [(f'{k2}-after-{kind}-raises-{type(e).__name__}', 'parse returns a value or None',
                     f'{k2}({s!r}) called after {kind}({s!r}) raised {e!r}')]
        want2 = exact(s, k2)
        if got2 != want2:
            return [(f'{k2}-after-{kind}-differs', 'parsed value equals exact decimal value whatever was parsed before',
                     f'{k2}({s!r}) called after {kind}({s!r}) = {got2!r}, exact {want2!r}')]
    try:
        again = f[kind](s)
    except Exception as e:
        return [(f'{kind}-again-raises-{type(e).__name__}', 'parse returns a value or None', f'second {kind}({s!r}) raised {e!r}')]
    if again != got:
        return [(f'{kind}-again-differs', 'parsing is a function of the string', f'{kind}({s!r}) = {got!r}, then {again!r} after the other parsers saw it')]
    return out


def nontrivial(s):
    return ('.' in s) or (s[-1:] not in ASCII_DIGITS)


def plan(tier):
    specs = []
    # exhaustive d.ddd grid, split per leading digit (10 shards) and integers 0..4096
    for d in range(10):
        specs.append(dict(kind='grid_dddd', lead=d))
    specs.append(dict(kind='grid_int'))
    nh = 4 if tier == 'quick' else 12
    per = 4000 if tier == 'quick' else 60000
    for i in range(nh):
        specs.append(dict(kind='hyp_grammar', n=per))
    specs.append(dict(kind='hyp_near', n=per))
    if tier == 'thorough':
        specs.append(dict(kind='grid_frac5'))
    return specs


def _variants(num, unit):
    for plus in ('', '+'):
        for b in ('', 'B'):
            yield plus + num + unit + b


def run_shard(spec, seed, tier):
    res = Result()
    kind = spec['kind']
    if kind == 'grid_dddd':
        d = spec['lead']
        res.exhaustive = True
        for a, b, c in itertools.product(ASCII_DIGITS, repeat=3):
            num = f'{d}.{a}{b}{c}'
            for u in UNITS:
                for k in ('memory', 'storage'):
                    s = num + u
                    fl = check_one(k, s)
                    res.case([k, s], True)
                    for sig, cl, m in fl:
                        res.fail(sig, cl, m, [k, s])
            for u in ('', 'm'):
                s = num + u
                fl = check_one('cpu', s)
                res.case(['cpu', s], True)
                for sig, cl, m in fl:
                    res.fail(sig, cl, m, ['cpu', s])
    elif kind == 'grid_int':
        res.exhaustive = True
        for n in range(0, 4097):
            for u in UNITS:
                for s in _variants(str(n), u):
                    for k in ('memory', 'storage'):
                        res.case([k, s], nontrivial(s))
                        for sig, cl, m in check_one(k, s):
                            res.fail(sig, cl, m, [k, s])
            for u in ('', 'm'):
                for plus in ('', '+'):
                    s = plus + str(n) + u
                    res.case(['cpu', s], nontrivial(s))
                    for sig, cl, m in check_one('cpu', s):
                        res.fail(sig, cl, m, ['cpu', s])
    elif kind == 'grid_frac5':
        res.exhaustive = True
        for n in range(100000):
            num = f'0.{n:05d}'
            for k, u in (('cpu', ''), ('cpu', 'm'), ('memory', 'Ki'), ('memory', 'M'), ('storage', 'Gi'), ('storage', 'K')):
                s = num + u
                res.case([k, s], True)
                for sig, cl, m in check_one(k, s):
                    res.fail(sig, cl, m, [k, s])
    else:
        from hypothesis import strategies as st
        from vlib.hyp import search
        digits = st.text(alphabet=ASCII_DIGITS, min_size=1, max_size=24)
        shortd = st.text(alphabet=ASCII_DIGITS, min_size=0, max_size=20)
        number = st.one_of(digits, st.tuples(shortd, digits).map(lambda t: t[0] + '.' + t[1]))
        k_st = st.sampled_from(['cpu', 'memory', 'storage'])

        @st.composite
        def grammar(draw):
            k = draw(k_st)
            plus = draw(st.sampled_from(['', '', '+']))
            num = draw(number)
            if k == 'cpu':
                return [k, plus + num + draw(st.sampled_from(['', 'm']))]
            return [k, plus + num + draw(st.sampled_from(UNITS)) + draw(st.sampled_from(['', 'B']))]

        @st.composite
        def near(draw):
            k, s = draw(grammar())
            mode = draw(st.integers(0, 9))
            junk = draw(st.sampled_from(['\n', ' ', '\t', 'e3', 'E-2', '٣', '²', '１', 'b', 'i', 'Kib', 'mB', 'k', 'm', 'B',
                                         '-', '+', '.', '_', ',', '\x00', 'é', 'Ki', 'inf', 'nan', '0x1', '1_0']))
            if mode == 0:
                s = s + junk
            elif mode == 1:
                s = junk + s
            elif mode == 2:
                p = draw(st.integers(0, len(s)))
                s = s[:p] + junk + s[p:]
            elif mode == 3 and len(s) > 0:
                p = draw(st.integers(0, len(s) - 1))
                s = s[:p] + s[p + 1:]
            elif mode == 4:
                s = draw(st.text(max_size=6))
            elif mode == 5:
                s = draw(st.sampled_from(['lowmem', 'standard', 'highmem', 'Lowmem', 'standard\n', '']))
            elif mode == 6:
                s = s.lower()
            elif mode == 7:
                s = s.replace('.', '..', 1) if '.' in s else s + '.'
            return [k, s]

        def chk(case):
            k, s = case
            fl = check_one(k, s)
            accepted = ref_parse(s, k) is not None
            cls = ['accepted' if accepted else 'rejected', f'kind_{k}']
            if accepted and len(s) > 17:
                cls.append('long_digits')
            return (nontrivial(s) if s else False) or not accepted, cls, fl

        strat = grammar() if kind == 'hyp_grammar' else near()
        search(res, PROPERTY, strat, chk, spec['n'], seed, shrink=True)
    return res


def replay(case):
    k, s = case
    return [dict(signature=sig, clause=cl, message=m, case=case) for sig, cl, m in check_one(k, s)]
