"""C17 — Batch DSL pipelines: dependency-respecting numbering and execution, cycle rejection, LocalBackend failure propagation.

A case is a program for the public DSL, as data:

    {"ops": [["new", always_run, fail], ["dep", a, b], ["use", a, b], ...]}

"new" creates a job (`new_job`/`new_bash_job` alternately); its first command appends its creation index to the case's
log file and defines `{j.ofile}`.  "dep a b" is `job[a].depends_on(job[b])`; "use a b" is
`job[a].command(f': {job[b].ofile}')` (a resource-induced edge; with a == b it only mentions the job's own file).  Job
operands are taken modulo the number of jobs created so far; an edge op before any job exists is skipped and counted.
Jobs flagged `fail` get a final `exit 1` command, so the index is always logged before the failure.  The same
interpreter (`run_case`) executes generated, shrunk and replayed cases.
"""
from __future__ import annotations

import contextlib
import io
import os
import shutil
import tempfile
import warnings

from vlib import hostenv
from vlib.runner import Result

PROPERTY = 'C17'
LEVEL = 'exploration'
RULE = ('DSL programs of 1-8 Bash jobs created in an order drawn independently of the DAG, edges via depends_on, via a '
        'consumed {j.ofile}, or both, a failing subset (exit 1 after logging) and an always_run subset (25% get a fail / '
        'always-run child / grandchild gadget); ~30% of programs '
        'get a cyclic ingredient (self depends_on, back edge, 2-/3-cycle through depends_on, resources, or mixed - resource '
        'cycles are expressible because a job may take several command() calls). Executed by the real '
        'Batch.run()/LocalBackend (image=None: /bin/sh -> /bin/bash subprocess per job). Oracle is a model computed from '
        'the op list alone: job ids form a permutation with id(j) > id(d) for every edge, the log equals the ran jobs in '
        'increasing job id, ran = all - skipped with skipped(j) <=> not always_run(j) and some direct dependency failed or '
        'was skipped, run raises iff a job failed; cyclic programs raise BatchException and log nothing. '
        'Non-trivial: acyclic with creation order not a topological order, or a failed job having both an always-run '
        'child that ran and a skipped grandchild; distinct by op list.')
ASSUMPTIONS = [
    '"transitively depend on a failed or skipped job" is read as the recursive direct-parent rule documented in the '
    'hailtop.batch change log (#12780: "running all jobs whose parents have succeeded"), i.e. an always-run job that ran '
    'and succeeded shields its children; cases where the pure transitive-closure reading differs are counted '
    '(class shielded_by_always_run)',
    'jobs run without a docker image (image=None -> plain bash); resources stay inside the backend scratch dir so no '
    'hailtop.aiotools.copy subprocess is involved',
    'a consumer only names the producer\'s file (": path"), it does not read it, so the failing set is exactly the '
    'flagged jobs that ran',
]
TRUSTED = ['dependency model, cycle detection and skip propagation in checks/c17.py', '/bin/sh and /bin/bash']

MAX_JOBS = 8


# ------------------------------------------------------------------------------------------------ model

def model(ops):
    """-> dict(n, ar, fail, deps: list[set], self_loop, cyclic, skipped_ops)"""
    ar, fail, deps = [], [], []
    skipped_ops = 0
    self_loop = False
    kinds = {}
    for op in ops:
        if op[0] == 'new':
            if len(ar) >= MAX_JOBS:
                skipped_ops += 1
                continue
            ar.append(bool(op[1]))
            fail.append(bool(op[2]))
            deps.append(set())
        elif op[0] in ('dep', 'use'):
            n = len(ar)
            if n == 0:
                skipped_ops += 1
                continue
            a, b = op[1] % n, op[2] % n
            if a == b:
                if op[0] == 'dep':
                    self_loop = True
                continue
            deps[a].add(b)
            kinds.setdefault((a, b), set()).add(op[0])
        else:
            raise ValueError(f'unknown op {op!r}')
    n = len(ar)
    # cycle detection: Kahn
    indeg = [len(d) for d in deps]
    children = [[] for _ in range(n)]
    for a in range(n):
        for b in sorted(deps[a]):
            children[b].append(a)
    ready = [i for i in range(n) if indeg[i] == 0]
    seen = 0
    while ready:
        x = ready.pop()
        seen += 1
        for c in children[x]:
            indeg[c] -= 1
            if indeg[c] == 0:
                ready.append(c)
    cyclic = self_loop or seen != n
    return dict(n=n, ar=ar, fail=fail, deps=deps, children=children, self_loop=self_loop, cyclic=cyclic,
                skipped_ops=skipped_ops, kinds=kinds)


def expected_run(m, order):
    """Given the model and a dependency-respecting order (list of job indices), -> (ran:set, skipped:set, failed:set)."""
    skipped, failed, ran = set(), set(), set()
    for j in order:
        if not m['ar'][j] and any(d in failed or d in skipped for d in m['deps'][j]):
            skipped.add(j)
            continue
        ran.add(j)
        if m['fail'][j]:
            failed.add(j)
    return ran, skipped, failed


def transitive_skip(m, order, failed):
    """The other reading: skip every non-always-run job with a failed job anywhere among its ancestors."""
    tainted = set()
    for j in order:
        if any(d in failed or d in tainted for d in m['deps'][j]):
            tainted.add(j)
    return {j for j in tainted if not m['ar'][j]}


# ------------------------------------------------------------------------------------------------ interpreter

_hb = None


def _load():
    global _hb
    if _hb is None:
        hostenv.install()
        import hailtop.batch as hb
        from hailtop.batch.exceptions import BatchException
        if not os.path.exists('/bin/bash'):
            raise RuntimeError('/bin/bash missing: LocalBackend cannot run jobs')
        _hb = (hb, BatchException)
    return _hb


class Session:
    """One LocalBackend + one scratch root per process (a backend freed by the cyclic GC while a later batch is running
    would have its __del__ call close() inside the running event loop)."""

    def __init__(self):
        hb, _ = _load()
        self.root = tempfile.mkdtemp(prefix='verif-c17-')
        self.out = io.StringIO()
        with contextlib.redirect_stdout(self.out):
            self.backend = hb.LocalBackend(tmp_dir=os.path.join(self.root, 'scratch'))
        self.n = 0

    def __enter__(self):
        return self

    def __exit__(self, *a):
        with contextlib.suppress(Exception), contextlib.redirect_stdout(self.out):
            self.backend.close()
        shutil.rmtree(self.root, ignore_errors=True)
        return False


def run_case(case, sess=None):
    """-> (nontrivial, classes, failures[(signature, clause, message)])"""
    if sess is None:
        with Session() as s:
            return run_case(case, s)
    hb, BatchException = _load()
    import subprocess
    ops = case['ops']
    m = model(ops)
    n = m['n']
    fails = []
    classes = set()
    if n == 0:
        return False, ['empty'], fails

    sess.n += 1
    tmp = os.path.join(sess.root, f'case{sess.n}')
    os.makedirs(tmp)
    log = os.path.join(tmp, 'log')
    out = sess.out
    out.seek(0)
    out.truncate()
    try:
        with warnings.catch_warnings(), contextlib.redirect_stdout(out):
            warnings.simplefilter('ignore')
            b = hb.Batch(backend=sess.backend)
            jobs = []
            for op in ops:
                if op[0] == 'new':
                    if len(jobs) >= MAX_JOBS:
                        continue
                    i = len(jobs)
                    j = b.new_job() if i % 2 == 0 else b.new_bash_job(name=f'j{i}')
                    if op[1]:
                        j.always_run()
                    j.command(f'echo {i} >> {log}; : > {j.ofile}')
                    jobs.append(j)
                else:
                    if not jobs:
                        continue
                    a, d = jobs[op[1] % len(jobs)], jobs[op[2] % len(jobs)]
                    if op[0] == 'dep':
                        a.depends_on(d)
                    else:
                        a.command(f': {d.ofile}')
            for i, j in enumerate(jobs):
                if m['fail'][i]:
                    j.command('exit 1')
            raised = None
            try:
                b.run()
            except BatchException as e:
                raised = ('batch', str(e))
            except subprocess.CalledProcessError as e:
                raised = ('job', f'exit status {e.returncode}')
            except RecursionError as e:
                raised = ('other', repr(e))
            except Exception as e:  # anything else is reported, not a harness error
                raised = ('other', f'{type(e).__name__}: {e}')
        logged = []
        if os.path.exists(log):
            with open(log) as f:
                logged = [int(x) for x in f.read().split()]
        ids = [j._job_id for j in jobs]

        if m['cyclic']:
            classes.add('cyclic')
            if m['self_loop']:
                classes.add('self_edge')
            if any('use' in k for k in m['kinds'].values()):
                classes.add('cyclic_with_resource_edge')
            if raised is None or raised[0] != 'batch' or 'cycle' not in raised[1]:
                fails.append(('cycle-not-rejected', 'cyclic pipelines are rejected (BatchException) before anything runs',
                              f'cyclic pipeline: run() -> {raised!r}; log {logged}'))
            if logged:
                fails.append(('cycle-ran-jobs', 'cyclic pipelines are rejected before anything runs',
                              f'jobs {logged} ran although the dependency graph is cyclic'))
            return False, sorted(classes), fails

        classes.add('acyclic')
        if raised is not None and raised[0] == 'batch':
            fails.append(('acyclic-rejected', 'an acyclic pipeline is accepted',
                          f'run() raised BatchException({raised[1]!r}) for an acyclic pipeline'))
            return True, sorted(classes), fails
        if raised is not None and raised[0] == 'other':
            fails.append(('run-raised-unexpected', 'run raises only for failed jobs', f'run() raised {raised[1]}'))
            return True, sorted(classes), fails

        # numbering
        if sorted(ids, key=lambda x: (x is None, x)) != list(range(1, n + 1)):
            fails.append(('ids-not-permutation', 'jobs are numbered 1..n', f'job ids by creation index: {ids}'))
            return True, sorted(classes), fails
        bad = [(a, d) for a in range(n) for d in sorted(m['deps'][a]) if not ids[a] > ids[d]]
        if bad:
            fails.append(('id-order', 'each job is numbered after every job it depends on',
                          f'(job, dependency) pairs with id(job) <= id(dependency): {bad}; ids {ids}'))
        order = sorted(range(n), key=lambda j: ids[j])
        if bad:
            return True, sorted(classes), fails
        ran, skipped, failed = expected_run(m, order)

        # execution
        if len(set(logged)) != len(logged):
            fails.append(('ran-twice', 'each job runs at most once', f'log {logged}'))
        pos = {j: k for k, j in enumerate(logged)}
        viol = [(a, d) for a in logged for d in sorted(m['deps'][a]) if d in pos and pos[d] > pos[a]]
        if viol:
            fails.append(('exec-order', 'each job executes after every job it depends on',
                          f'(job, dependency) executed in the wrong order: {viol}; log {logged}'))
        got = set(logged)
        if got != ran:
            extra, missing = sorted(got - ran), sorted(ran - got)
            if extra:
                # which link of the propagation rule broke: a direct child of a failed job, or only the relay
                # through an already-skipped job
                direct = any(d in failed for j in extra for d in m['deps'][j])
                sig = 'child-of-failed-ran' if direct else 'skip-not-propagated'
                fails.append((sig, 'non-always-run jobs depending on a failed or skipped job are skipped',
                              f'jobs {extra} ran; expected ran={sorted(ran)} skipped={sorted(skipped)} '
                              f'failed={sorted(failed)}; log {logged}; always_run={m["ar"]}'))
            if missing:
                sig = 'always-run-skipped' if any(m['ar'][j] for j in missing) else 'skipped-but-should-run'
                fails.append((sig, 'exactly the non-always-run jobs depending on a failed or skipped job are skipped',
                              f'jobs {missing} did not run; expected ran={sorted(ran)} skipped={sorted(skipped)} '
                              f'failed={sorted(failed)}; log {logged}; always_run={m["ar"]}'))
        elif not viol and logged != [j for j in order if j in ran]:
            fails.append(('exec-not-id-order', 'the sequential local backend executes in increasing job id',
                          f'log {logged} vs id order {[j for j in order if j in ran]}'))
        if (raised is not None) != bool(failed):
            fails.append(('raise-iff-failed', 'run() raises iff some job failed',
                          f'run() -> {raised!r}; failed jobs {sorted(failed)}'))

        # coverage classes / non-triviality
        creation_not_topo = any(d > a for a in range(n) for d in m['deps'][a])
        if creation_not_topo:
            classes.add('creation_order_not_topological')
        ks = m['kinds'].values()
        if any(k == {'use'} for k in ks):
            classes.add('resource_edge')
        if any(k == {'dep'} for k in ks):
            classes.add('explicit_edge')
        if any(len(k) == 2 for k in ks):
            classes.add('both_edge')
        if failed:
            classes.add('has_failure')
        if skipped:
            classes.add('has_skipped')
        prop = False
        for f in failed:
            kids = m['children'][f]
            ar_child = any(m['ar'][c] and c in ran for c in kids)
            grandchild = any(g in skipped for c in kids for g in m['children'][c])
            if ar_child and grandchild:
                prop = True
        if prop:
            classes.add('failed_with_always_run_child_and_skipped_grandchild')
        if transitive_skip(m, order, failed) != skipped:
            classes.add('shielded_by_always_run')
        if any(m['ar'][j] and m['fail'][j] and j in ran and any(d in failed or d in skipped for d in m['deps'][j])
               for j in range(n)):
            classes.add('always_run_job_fails_after_failed_parent')
        return (creation_not_topo or prop), sorted(classes), fails
    finally:
        shutil.rmtree(tmp, ignore_errors=True)


# ------------------------------------------------------------------------------------------------ generation

def strategy():
    from hypothesis import strategies as st

    @st.composite
    def programs(draw):
        n = draw(st.integers(1, MAX_JOBS))
        # rank r (position in a hidden topological order) -> creation index
        perm = draw(st.permutations(list(range(n))))
        flags = [(draw(st.integers(0, 9)) < 3, draw(st.integers(0, 9)) < 3) for _ in range(n)]  # (always_run, fail)
        edges = []
        if n >= 2:
            ne = draw(st.integers(0, min(12, n * (n - 1) // 2 + 2)))
            for _ in range(ne):
                u = draw(st.integers(0, n - 2))
                v = draw(st.integers(u + 1, n - 1))
                kind = draw(st.sampled_from(['dep', 'use', 'use', 'both']))
                a, b = perm[v], perm[u]        # later rank depends on earlier rank
                if kind == 'both':
                    edges.append(['dep', a, b])
                    edges.append(['use', a, b])
                else:
                    edges.append([kind, a, b])
        ingredient = draw(st.integers(0, 11))
        if ingredient >= 9 and n >= 4:
            # propagation gadget on ranks r0<r1<r2<r3: r0 fails, r1 is an always-run child, r2 a plain child, r3 a
            # grandchild through r2 (skipped) or through r1 (shielded)
            r = sorted(draw(st.lists(st.integers(0, n - 1), min_size=4, max_size=4, unique=True)))
            j0, j1, j2, j3 = (perm[x] for x in r)
            flags[j0] = (flags[j0][0], True)
            flags[j1] = (True, flags[j1][1])
            flags[j2] = (False, flags[j2][1])
            flags[j3] = (False, flags[j3][1])
            k = st.sampled_from(['dep', 'use'])
            edges += [[draw(k), j1, j0], [draw(k), j2, j0], [draw(k), j3, draw(st.sampled_from([j2, j2, j1]))]]
        if ingredient == 0:
            a = draw(st.integers(0, n - 1))
            edges.append(['dep', a, a])
        elif ingredient == 1 and n >= 2:
            # back edge: earlier rank depends on later rank (a cycle only if a forward path exists)
            u = draw(st.integers(0, n - 2))
            v = draw(st.integers(u + 1, n - 1))
            edges.append([draw(st.sampled_from(['dep', 'use'])), perm[u], perm[v]])
        elif ingredient == 2 and n >= 2:
            cyc = draw(st.lists(st.integers(0, n - 1), min_size=2, max_size=3, unique=True))
            ks = draw(st.sampled_from(['dep', 'use', 'mixed']))
            for k in range(len(cyc)):
                kind = ks if ks != 'mixed' else draw(st.sampled_from(['dep', 'use']))
                edges.append([kind, cyc[k], cyc[(k + 1) % len(cyc)]])
        elif ingredient == 3:
            a = draw(st.integers(0, n - 1))
            edges.append(['use', a, a])       # not a cycle: a job naming its own file
        edges = draw(st.permutations(edges)) if edges else []
        defer = [draw(st.booleans()) for _ in edges]
        ops = []
        tail = []
        for i in range(n):
            ops.append(['new', int(flags[i][0]), int(flags[i][1])])
            for e, df in zip(edges, defer):
                if max(e[1], e[2]) == i:
                    (tail if df else ops).append(list(e))
        return {'ops': ops + tail}

    return programs()


def plan(tier):
    n = 22 if tier == 'quick' else 320   # ~0.13 s per job subprocess in this sandbox
    return [dict(kind='hyp', n=n) for _ in range(16)]


def run_shard(spec, seed, tier):
    from vlib.hyp import search
    res = Result()
    with Session() as sess:
        def chk(case):
            nt, cls, fl = run_case(case, sess)
            res.skipped_ops += model(case['ops'])['skipped_ops']
            return nt, cls, fl

        search(res, PROPERTY, strategy(), chk, spec['n'], seed, shrink=(tier != 'quick'))
        for f in res.failures:
            f['case'], msg = minimise(f['case'], f['signature'], sess)
            f['message'] = msg or f['message']
    return res


def minimise(case, sig, sess, budget_s=20.0):
    """Bounded greedy reduction of the op list (drop ops, clear flags) keeping the failure signature."""
    import time
    t_end = time.time() + budget_s
    ops = [list(o) for o in case['ops']]
    msg = None

    def still(cand):
        nonlocal msg
        for s, _, m in run_case({'ops': cand}, sess)[2]:
            if s == sig:
                msg = m
                return True
        return False

    changed = True
    while changed and time.time() < t_end:
        changed = False
        for i in reversed(range(len(ops))):
            if time.time() >= t_end:
                break
            cand = ops[:i] + ops[i + 1:]
            if cand and still(cand):
                ops, changed = cand, True
        for i, o in enumerate(ops):
            for k in (1, 2):
                if o[0] == 'new' and o[k] and time.time() < t_end:
                    cand = [list(x) for x in ops]
                    cand[i][k] = 0
                    if still(cand):
                        ops, changed = cand, True
    return {'ops': ops}, msg


def replay(case):
    nt, cls, fl = run_case(case)
    return [dict(signature=s, clause=c, message=msg, case=case) for s, c, msg in fl]
