"""C30 — CI merges only fully tested, approved, current PRs (ci/ci/github.py: WatchedBranch / PR)."""
from __future__ import annotations

from vlib import hostenv
from vlib.runner import Result

PROPERTY = 'C30'
LEVEL = 'exploration'
RULE = ('a case = {cfg, ops}: cfg picks deployable / CI-context-required / dismiss-stale-reviews / 0 or 11 non-required filler '
        'contexts (forces GraphQL paging) and 1..3 initial PRs; ops is an op list over open, push (new sha | same commit as '
        'another PR | back to a previous head), close, reopen, review:=APPROVED|CHANGES_REQUESTED|REVIEW_REQUIRED|null, label '
        '+/- {WIP, stacked PR, prio:high, do-not-test, bug}, status report (CI context / required status / optional status / '
        'required check-run; current or OLD head), test batch completes success|failure|cancelled, deploy batch completes, '
        'target branch moves (new sha or back to an old one), merge-conflict toggle, freeze/unfreeze, CI restart, update tick, '
        'bare batch / github notification, RE-ENTRANT DELIVERY: op during(class, skip, pre|post, event) arms "the event op '
        '(open/push/close/reopen/review/label/status/test or deploy batch completion/target move, with its own deliver flag) '
        'happens DURING the (skip+1)-th upcoming client call of this class" (same call classes as faults, armed for 3 entry '
        'points): when the fake client reaches that call, ground truth changes and -- for a delivered event -- the webhook / '
        'batch-callback entry point (notify_github_changed / notify_batch_changed) runs as a concurrent task while the update '
        'that made the call is suspended in it (it sets its flag and returns: "already updating"); post = before the request '
        'is served (the answer carries the change), pre = after the answer was computed (the answer is the old data); the '
        'call then returns, or raises its injected fault; and FAULT INJECTION: op fault(class, skip, n, kind, ttl) arms "the (skip+1)-th '
        'upcoming client call of this class fails, n calls in a row (n=99: outage), armed for ttl entry points"; classes = '
        'GitHub refs|pulls|graphql|status|assignees|merge|gh-any, Batch list|bstatus|submit|cancel|batch-any; kinds = '
        'gidgethub 502 / 403, asyncio.TimeoutError, ServerDisconnectedError, aiohttp ClientResponseError for GitHub, '
        'non-transient 404/403 ClientResponseError for Batch.  A fault is fail-before-effect (request not served, no ground '
        'truth change, no "CI has read" stamp); the exception leaves WatchedBranch._update exactly as in production and is '
        'swallowed where update_loop (log + retry at the next period) / the aiohttp handler (500) swallow it; the history '
        'goes on with whatever notify_github_changed / notify_batch_changed / periodic update comes next.  Every event carries a deliver flag: delivered = the real notification path the '
        'service runs for it (pull_request/push/review webhook -> notify_github_changed; batch callback -> '
        'notify_batch_changed; statuses have no webhook -> periodic update); undelivered = only GitHub/Batch ground truth '
        'changes and CI learns at a later update.  Operands are indices modulo the live objects; an op whose precondition '
        'fails is skipped and counted.  The generator mixes single ops with fragments "make green/approved, perturb, then '
        'deliver", "two test batches complete, one notification" (>= 2 PRs mergeable against one target commit), "arm a '
        'fault, then an event", "two green, fault, notification, follow-up notification", "arm a mid-call event, then a '
        'trigger", "a do-not-merge label / withdrawn approval / push / target move / close lands during a read of a refresh, '
        'then a test batch turns green from idle" and "mid-call event + fault + trigger"; 5 of 6 cases start with 2..3 '
        'PRs.  Oracle: monitor on PUT /pulls/N/merge against ground truth at that instant; a not-yet-read change is tolerated '
        'as before EXCEPT when CI owes the read: a GitHub webhook that came after the change was accepted while an update was '
        'running, that entry point is over (service idle again) and no refresh started since failed -> the merge is flagged '
        '(webhook-accepted-while-updating-not-honoured:<fact>).  Non-trivial: a merge attempt '
        'for a PR that had a green batch which was afterwards invalidated by a head push or a target move (green < '
        'perturbation < attempt).')
ASSUMPTIONS = [
    'REAL: WatchedBranch.{notify_github_changed,notify_batch_changed,update,_update,_update_github,_update_batch,_update_deploy,'
    '_heal,_heal_deploy,_start_deploy,try_to_merge}, PR.{update_from_gh_json,from_gh_json,_update_github (GraphQL paging and '
    'mapping),_update_batch,_heal,_start_build,post_github_status,is_mergeable,is_up_to_date,merge,merge_priority,authorized,...} '
    'and ci.utils.github_status run unmodified',
    'FAKED (module globals of ci.github replaced, no source edit): check_shell / check_shell_output (no git: checkout succeeds, '
    'or raises for a PR flagged conflicting), builtin open of build.yaml, BuildConfiguration (namespace/deployed_services/build '
    'are no-ops), add_deployed_services, secrets.token_hex; so a "build" is exactly the batch_client.create_batch(attributes) + '
    'submit that the real _start_build/_start_deploy perform',
    'FAKED: GitHub = vlib/fakegithub.FakeGitHub (refs GET, pulls list, the GraphQL reviewDecision/statusCheckRollup query with '
    'real paging, statuses POST, assignees POST, merge PUT: 404/405 closed-or-conflict/409 stale sha/200 moves the branch). It '
    'does NOT enforce branch protection on merge (worst case for CI: every unsafe PUT with the right sha succeeds)',
    'FAKED: Batch service = FakeBatchService (list_batches query terms k=v, !complete, !open, user:ci; newest first; fresh '
    'Batch objects per listing; status/cancel/delete/submit); db = authorized_shas / invalidated_batches lookups (all PR '
    'authors are in AUTHORIZED_USERS); gidgethub = tiny module with HTTPException/BadRequest(.status_code)',
    'entry points are driven one at a time to completion; events land between entry points or, by op `during`, inside one '
    'client call of the running update (ground truth change + the real notify_* entry point as a concurrent task on the same '
    'loop, as aiohttp runs a webhook handler while update_loop / another handler is suspended in a request); a handler that '
    'arrives while NO update is running is not generated mid-call (every client call is made under WatchedBranch.updating); '
    'exceptions leaving _update are swallowed as the webhook handler / update_loop do; only AssertionError, ValueError and the very '
    'exception objects the fault plan injected are expected there, anything else is a harness error',
    'FAULT MODEL: fail-before-effect only (a request that was served but whose response was lost is NOT generated); '
    'GitHub calls go through the raw aiohttp session (no retry), so 5xx/403 HTTPException, total-timeout and disconnects '
    'surface; Batch calls go through hailtop Session.request, which retries every transient error forever, so only '
    'non-transient 4xx ClientResponseError surface; db calls never fail; a fault never lands inside the fake git shell',
    'a GitHub fact counts as read by CI only if the call that carries it was served (GraphQL: the last page); a merge '
    'decided on a fact whose refresh failed is counted as stale_view(+_after_failed_refresh):<fact>, not flagged, exactly '
    'like an undelivered webhook; changes CI made itself (its own merge moving the target) need no read and stay strict',
    '"every reported check" is read as: CI\'s own context plus every context branch protection marks required (isRequired), '
    'as reported on the ground-truth head; passing = SUCCESS or NEUTRAL; unreported required contexts are not "reported"',
    'a clause is enforced strictly only if CI has read the fact (refs / pulls list / GraphQL of that PR) since the fact last '
    'changed, or the change was made by CI itself; a merge decided on a not-yet-delivered change is counted as '
    'stale_view:<fact>, not flagged (inherent webhook race; GitHub enforces head sha by 409)',
    'the tolerance ends where CI was told: if notify_github_changed ran for a webhook (while an update was in flight, so it '
    'only recorded github_changed) after the fact last changed, then every merge decided in a LATER entry point must rest on '
    'a read of that fact -- the running loop iterates on the flag, or an exception leaves the flag set for the next entry '
    'point -- unless a refresh that started after the webhook did not run to its end (injected fault on refs/pulls/graphql, '
    'or an exception inside _update_github): that is the failed-refresh case above.  A merge decided inside the entry point '
    'the webhook arrived in (same loop iteration, before the follow-up refresh) stays the inherent race',
    "CI's own commit status is CI's report of its test batch: if CI's latest POST of it for the head was lost to an injected "
    'fault, the own-status clause is judged by what CI tried to post (own_status_post_lost_before_merge) and the batch '
    'ground truth alone decides "tested"; an own context written by someone else after that lost POST stays strict',
    'the do-not-merge label names (WIP, stacked PR) are taken from the CI UI constant in ci/ci/ci.py, not from github.py',
]
TRUSTED = ['vlib/fakegithub.py (fake GitHub REST/GraphQL, fake Batch service, fake db)', 'hostenv module stubs',
           'the monitor in checks/c30.py']

LABELS = ['WIP', 'stacked PR', 'prio:high', 'do-not-test', 'bug']
DNM = ('WIP', 'stacked PR')
REVIEWS = ['APPROVED', 'CHANGES_REQUESTED', 'REVIEW_REQUIRED', None]
CONTEXTS = [('ci-test', 'status'), ('lint', 'status'), ('opt', 'status'), ('build', 'check')]
ST_STATES = ['SUCCESS', 'PENDING', 'FAILURE', 'ERROR']
CK_STATES = ['SUCCESS', 'FAILURE', 'NEUTRAL', None, 'SKIPPED']
OUTCOMES = ['success', 'failure', 'cancelled']
MAX_PRS = 4

_ENV = None
_CUR = {'world': None}


def _env():
    """Import the code under test once per process and replace its outermost effectful globals."""
    global _ENV
    if _ENV is not None:
        return _ENV
    import asyncio
    import io
    import types
    hostenv.prepare_services()
    from vlib import fakegithub as F
    F.install_gidgethub()
    import ci.github as G
    from hailtop.batch_client.aioclient import Batch

    async def check_shell(script, *a, **k):
        w = _CUR['world']
        w.shell.append(script)
        for line in script.splitlines():
            line = line.strip()
            if line.startswith('git merge '):
                sha = line.split()[2].strip("'\"")
                if any(pr['head'] == sha and pr['conflict'] for pr in w.gh.prs.values()):
                    raise RuntimeError(f'CONFLICT: automatic merge of {sha} failed')

    async def check_shell_output(script, *a, **k):
        return (b'mergesha\n', b'')

    class FakeBuildConfiguration:
        def __init__(self, code, config_str, scope, *, requested_step_names=(), excluded_step_names=()):
            self.code, self.scope = code, scope

        def namespace(self):
            return 'pr-ns'

        def deployed_services(self):
            return []

        def build(self, batch, code, scope):
            pass

    async def add_deployed_services(db, namespace, services, expiration):
        return None

    def fake_open(path, *a, **k):
        if str(path).endswith('build.yaml'):
            return io.StringIO('steps: []\n')
        raise F.HarnessBug(f'ci.github opened unexpected file {path!r}')

    G.check_shell = check_shell
    G.check_shell_output = check_shell_output
    G.BuildConfiguration = FakeBuildConfiguration
    G.add_deployed_services = add_deployed_services
    G.open = fake_open
    G.secrets = types.SimpleNamespace(token_hex=lambda n=16: '0' * (2 * n))
    loop = asyncio.new_event_loop()
    _ENV = types.SimpleNamespace(G=G, F=F, Batch=Batch, loop=loop, asyncio=asyncio)
    return _ENV


class World:
    def __init__(self, env, cfg):
        G, F = env.G, env.F
        self.env = env
        self.cfg = cfg
        self.attempts = []        # dicts describing every PUT .../merge
        self.fails = []
        self.classes = set()
        self.shell = []
        self.skipped = 0
        self.frozen = False
        self.nontrivial = False
        self.green_t = {}         # pr number -> ticks at which a test batch of that PR completed green
        self.push_t = {}          # pr number -> ticks of head pushes
        self.excluded_known = 0
        self.refresh_aborted = None
        self.refresh_failed = False     # an injected fault aborted WatchedBranch._update_github and no refresh completed since
        self.drive_merges0 = 0          # gh.n_merge_shas when the current entry point started
        self.in_drive = None
        self.faults = F.FaultPlan(G.gidgethub, on_fire=self.on_fault)
        self.reentry = F.ReentryPlan()
        self.drive_no = 0               # entry points of the service driven so far
        self.tasks = []                 # handler tasks started from inside a client call
        self.accept_t = None            # tick at which CI last accepted a GitHub webhook WHILE an update was running
        self.accept_drive = -1          # ... and the entry point that was running then
        self.read_fail_start_t = -1     # start tick (refs GET sent) of the latest refresh that did not run to its end
        self.gh = F.FakeGitHub(G.gidgethub, ci_context=G.GITHUB_STATUS_CONTEXT, ci_required=bool(cfg.get('ci_required', 1)),
                               filler=int(cfg.get('filler', 0)), dismiss_stale=bool(cfg.get('dismiss_stale', 0)),
                               monitor=self.monitor, faults=self.faults, reentry=self.reentry)
        self.svc = F.FakeBatchService(env.Batch, lambda: self.gh._tick(), faults=self.faults, reentry=self.reentry)
        self.db = F.FakeDB()
        self.bc = self.svc.client()
        self.wb = None
        self.new_ci()

    def new_ci(self):
        G = self.env.G
        G.repos_lock = self.env.asyncio.Lock()
        self.wb = G.WatchedBranch(0, G.FQBranch(G.Repo(self.gh.owner, self.gh.name), self.gh.branch),
                                  bool(self.cfg.get('deployable', 0)), True, [])

    # -- drive the real service entry points -----------------------------------------------------------------------------
    def on_fault(self, side, cls, kind):
        self.classes.add('fault_fired')
        self.classes.add(f'fault:{side}:{cls}')
        self.classes.add(f'fault_kind:{kind}')
        if side == 'gh' and cls in ('refs', 'pulls', 'graphql'):
            self.read_fail_start_t = self.gh.refs_attempt_t      # this refresh will not run to its end
        if self.gh.n_merge_shas > self.drive_merges0:
            self.classes.add('fault_after_merge')        # same entry point, after a merge GitHub accepted
            if cls == 'refs':
                self.classes.add('fault_after_merge:target_reread')

    def drive(self, which):
        """One entry point of the service, run to completion, with the caller's exception handling: ci.py update_loop wraps
        wb.update in `except Exception: log.exception(...)` and sleeps to the next period; the webhook / batch-callback
        handlers let the exception propagate to aiohttp (500 for that request).  Either way the service lives on with
        whatever state _update left behind."""
        wb = self.wb
        fn = {'github': wb.notify_github_changed, 'batch': wb.notify_batch_changed, 'update': wb.update}[which]
        refs_before = self.gh.refs_read
        self.gh.call_budget = 3000       # a terminating update of <= 4 PRs makes a few dozen GitHub calls
        self.drive_merges0 = self.gh.n_merge_shas
        self.in_drive = which
        self.drive_no += 1
        if self.refresh_failed:
            self.classes.add(f'{ {"github": "github_changed", "batch": "batch_changed", "update": "periodic_update"}[which] }'
                             '_after_failed_refresh')

        def frames(e):
            import traceback
            tb = traceback.extract_tb(e.__traceback__)
            return [f.name for f in tb if f.filename.endswith('ci/ci/github.py') or f.filename.endswith('ci/ci/utils.py')]

        def refreshed(names=()):
            # the last _update_github of this entry point ran to its end (the exception, if any, came from elsewhere)
            if self.gh.refs_read != refs_before and '_update_github' not in names:
                self.refresh_aborted = None
                self.refresh_failed = False
            if '_update_github' in names:
                self.read_fail_start_t = self.gh.refs_attempt_t

        try:
            self.env.loop.run_until_complete(fn(self.db, self.bc, self.gh, self.frozen))
            refreshed()
        except (AssertionError, ValueError) as e:
            names = frames(e)
            where = names[-1] if names else '?'
            self.classes.add(f'update_raised:{type(e).__name__}@{where}')
            refreshed(names)
            if '_update_github' in names:
                # WatchedBranch._update cleared github_changed before the refresh that just died: what CI holds now is a
                # partly refreshed view that nothing schedules for repair until the next GitHub notification
                self.refresh_aborted = f'{type(e).__name__}@{where}'
        except self.env.F.UpdateLivelock:
            wb.updating = False
            self.fails.append(('update-does-not-terminate', 'harness guard (not part of the statement): an update terminates',
                               f'{which} notification made > 3000 GitHub calls; {len(self.attempts)} merge attempts so far'))
        except Exception as e:      # noqa: BLE001
            if not self.faults.is_injected(e):
                raise self.env.F.HarnessBug(f'_update raised an exception the harness does not expect: {type(e).__name__}: {e}') from e
            names = frames(e)
            where = names[-1] if names else '?'
            self.classes.add(f'update_raised:fault:{type(e).__name__}@{where}')
            self.classes.add(f'fault_aborted:{which}')
            refreshed(names)
            if '_update_github' in names:
                # not refresh_aborted: a fault is fail-before-effect, so no fact that was served to CI gets dropped by it and a
                # strict failure later on keeps its own signature
                self.refresh_failed = True
                self.classes.add('refresh_failed')
        finally:
            self.in_drive = None
            self.faults.end_entry_point()
            self.reentry.end_entry_point()
            self.finish_tasks()

    def finish_tasks(self):
        """Handler tasks started inside a client call.  While an update is running the real entry points only set a flag and
        return, so each task is normally finished when control returns to the suspended call; whatever is not is run to
        its end here (the service is one event loop: nothing is left half-way between two ops of a history)."""
        tasks, self.tasks = self.tasks, []
        pending = [t for t in tasks if not t.done()]
        if pending:
            self.classes.add('reentrant_handler_ran_an_update_of_its_own')
            self.env.loop.run_until_complete(self.env.asyncio.gather(*pending, return_exceptions=True))
        for t in tasks:
            e = t.exception()
            if e is not None and not isinstance(e, (AssertionError, ValueError)) and not self.faults.is_injected(e):
                raise self.env.F.HarnessBug(f're-entrant handler raised {type(e).__name__}: {e}') from e

    async def reenter(self, inner, side, cls, when):
        """An event lands while the service is suspended in a client call (armed by op `during`): ground truth changes now,
        and for a delivered event GitHub's webhook / Batch's callback reaches the aiohttp server now, which runs the handler
        as a task of its own: ci.py's pull_request / push / pull_request_review callbacks -> wb.notify_github_changed,
        batch_callback_handler -> wb.notify_batch_changed.  With an update in flight both only set a flag and return."""
        asyncio = self.env.asyncio
        self.classes.add(f'event_during_{"github" if side == "gh" else "batch"}_call')
        self.classes.add(f'reentrant:{cls}:{when}')
        res = self.apply(inner, reentrant=True)
        if res is None:
            self.classes.add('reentrant_event_skipped')
            return
        self.classes.add(f'reentrant_event:{inner[0]}')
        note, deliver = res
        if note == 'update' or not deliver:
            self.classes.add('reentrant_event_without_notification')      # statuses have no webhook; or the webhook is lost
            return
        wb = self.wb
        was_updating = wb.updating
        fn = wb.notify_github_changed if note == 'github' else wb.notify_batch_changed
        task = self.env.loop.create_task(fn(self.db, self.bc, self.gh, self.frozen))
        self.tasks.append(task)
        await asyncio.sleep(0)
        if was_updating:
            if not task.done():
                raise self.env.F.HarnessBug('notify_* did not return at once although an update was running')
            if note == 'github':
                self.classes.add('webhook_while_updating')
                self.accept_t = self.gh._tick()
                self.accept_drive = self.drive_no
            else:
                self.classes.add('batch_callback_while_updating')

    def owed(self, changed_t):
        """True if CI owes a fresh read of a GitHub fact that last changed at changed_t: a GitHub webhook that came after the
        change was accepted by notify_github_changed while an update was running (github_changed set, "already updating"),
        the entry point that was running then is over -- the running loop and the follow-up refresh the flag stands for
        have finished, the service has been idle since -- and no refresh started after the webhook failed (the existing
        failed-refresh tolerance).  A merge decided in the entry point the webhook arrived in stays the inherent race."""
        return (self.accept_t is not None and changed_t <= self.accept_t and self.accept_drive < self.drive_no
                and self.read_fail_start_t <= self.accept_t)

    # -- the oracle ----------------------------------------------------------------------------------------------------------
    def truth_mergeable(self, n):
        """Ground truth only: would the statement allow merging PR n right now?"""
        gh = self.gh
        pr = gh.prs[n]
        if pr['state'] != 'open' or pr['review'] != 'APPROVED' or any(l in DNM for l in pr['labels']):
            return False
        sts = gh.statuses.get(pr['head'], {})
        if any(c in gh.required and v['state'] not in ('SUCCESS', 'NEUTRAL') for c, v in sts.items()):
            return False
        if sts.get(gh.ci_context, {}).get('state') != 'SUCCESS':
            return False
        return any('test' in r['attributes'] and r['attributes'].get('source_sha') == pr['head'] and r['complete']
                   and r['state'] == 'success' and r['attributes'].get('target_sha') == gh.target_sha for r in self.svc.records)

    def monitor(self, n, data, verdict):
        gh, svc = self.gh, self.svc
        now = gh.tick
        pr = gh.prs.get(n)
        att = dict(pr=n, sha=data.get('sha'), tick=now, verdict=verdict, strict=[], stale=[])
        self.attempts.append(att)
        if sum(1 for m in gh.prs if self.truth_mergeable(m)) >= 2:
            self.classes.add('two_mergeable')      # >= 2 PRs legitimately mergeable against the same target commit right now
        if self.refresh_failed:
            self.classes.add('merge_attempt_after_failed_refresh')
        if self.in_drive:
            self.classes.add(f'merge_attempt_in:{self.in_drive}')
        if self.accept_t is not None:
            # a webhook was accepted while an update was running; is this decision taken in that entry point or a later one
            if self.accept_drive == self.drive_no:
                self.classes.add('merge_decision_in_entry_point_of_webhook_while_updating')
            elif self.read_fail_start_t > self.accept_t:
                self.classes.add('merge_decision_after_webhook_while_updating:refresh_failed_since')
            else:
                self.classes.add('merge_decision_after_webhook_while_updating:read_owed')
        if pr is None:
            self.fails.append(('merge-unknown-pr', 'merges a pull request', f'PUT merge for PR {n} that never existed'))
            return
        cipr = self.wb.prs.get(n)
        cib = getattr(cipr, 'batch', None)
        if cib is None:
            cidesc = 'none'
        elif not isinstance(cib, self.env.Batch):
            cidesc = 'merge-failure'
        else:
            r = cib._rec
            cidesc = f'{r["state"]}({r["attributes"].get("source_sha")}->{r["attributes"].get("target_sha")})'
        ctx = (f'PR {n}: truth state={pr["state"]} head={pr["head"]} review={pr["review"]} labels={pr["labels"]} '
               f'statuses={ {k: v["state"] for k, v in gh.statuses.get(pr["head"], {}).items()} } target={gh.target_sha}; '
               f'sent sha={data.get("sha")}; CI view: source_sha={getattr(cipr, "source_sha", None)} target={self.wb.sha} '
               f'review={getattr(cipr, "review_state", None)} build_state={getattr(cipr, "build_state", None)} batch={cidesc}')

        def judge(ok, changed_t, read_t, sig, clause, msg, fact):
            if ok:
                return
            if changed_t > read_t and self.owed(changed_t):
                # CI never read the change, but it was told: the webhook was accepted while an earlier update was running
                sig = f'webhook-accepted-while-updating-not-honoured:{fact}'
                self.classes.add('owed_refresh_judged')
                att['strict'].append(sig)
                self.fails.append((sig, clause + ' (a change whose webhook CI accepted while it was updating is re-read before '
                                   'any later merge decision)',
                                   f'{msg}; changed at tick {changed_t}, last read by CI at {read_t}, webhook accepted at '
                                   f'{self.accept_t} during entry point #{self.accept_drive}, now #{self.drive_no}. {ctx}'))
            elif changed_t > read_t:
                att['stale'].append(fact)
                self.classes.add(f'stale_view:{fact}')
                if self.refresh_failed:
                    self.classes.add(f'stale_view_after_failed_refresh:{fact}')
            else:
                if self.refresh_aborted and fact in ('review', 'labels', 'status', 'open', 'head', 'target'):
                    sig = f'merge-on-view-left-stale-by-aborted-refresh:{self.refresh_aborted}'
                att['strict'].append(sig)
                self.fails.append((sig, clause, f'{msg}. {ctx}'))

        # root-cause attribution: CI holds a still-running batch for this PR and nevertheless believes build_state ==
        # 'success' (PR._update_batch adopts a running batch without resetting build_state)
        adopted = (isinstance(cib, self.env.Batch) and not cib._rec['complete'] and getattr(cipr, 'build_state', None) == 'success')

        def testsig(sig):
            return 'running-batch-adopted-with-stale-success' if adopted else sig

        if self.frozen:
            att['strict'].append('merge-while-frozen')
            self.fails.append(('merge-while-frozen', 'no merge while merges are frozen', f'merge attempted while frozen. {ctx}'))
        judge(pr['state'] == 'open', pr['open_t'], gh.pulls_read, 'merge-not-open', 'merges an open pull request',
              f'PR is {pr["state"]}', 'open')
        judge(data.get('sha') == pr['head'], pr['head_t'], gh.pulls_read, 'merge-stale-head-sha',
              'the sha sent with the merge is the current head', f'sent {data.get("sha")} but head is {pr["head"]}', 'head')
        judge(pr['review'] == 'APPROVED', pr['review_t'], gh.gql_read.get(n, -1), 'merge-not-approved',
              'merges only if approved', f'review decision is {pr["review"]}', 'review')
        judge(not any(l in DNM for l in pr['labels']), pr['labels_t'], gh.pulls_read, 'merge-do-not-merge-label',
              'merges only if not labelled do-not-merge', f'labels {pr["labels"]}', 'labels')
        sts = gh.statuses.get(pr['head'], {})
        bad_req = sorted(c for c, v in sts.items() if c in gh.required and c != gh.ci_context and v['state'] not in ('SUCCESS', 'NEUTRAL'))
        judge(not bad_req, max(gh.status_t.get(pr['head'], 0), pr['head_t']), min(gh.gql_read.get(n, -1), gh.pulls_read),
              'merge-with-failing-required-check', 'every reported check on the current head succeeded',
              f'required contexts not passing on head: {bad_req}', 'status')
        own = sts.get(gh.ci_context)
        own_ok = own is not None and own['state'] == 'SUCCESS'
        lost = gh.ci_status_lost.get(pr['head'])
        if not own_ok and lost is not None and lost[0] == 'SUCCESS' and (own is None or own['t'] < lost[1]):
            # CI's own context is CI's report of its test batch.  Its latest POST of SUCCESS for this head was lost to an
            # injected fault (post_github_status logs and goes on) and nobody wrote the context since, so GitHub still shows
            # the state from before.  The substance
            # of the clause -- a green test batch for (head, current target) -- is judged below from the Batch ground truth;
            # the missing mirror write is counted, not flagged (with branch protection GitHub itself answers 405).
            own_ok = True
            self.classes.add('own_status_post_lost_before_merge')
        ext_own = own is not None and own['by'] != 'ci'
        shared = any(m != n and pr['head'] in p['heads'] for m, p in gh.prs.items())
        if shared and not own_ok:
            self.classes.add('own_status_flaps_on_shared_commit')
        judge(own_ok or shared, max(gh.status_t.get(pr['head'], 0) if ext_own else 0, pr['head_t']), min(gh.gql_read.get(n, -1), gh.pulls_read),
              testsig('merge-with-own-status-not-success'), "CI's own check on the current head succeeded",
              f'{gh.ci_context} on head is {own and own["state"]}', 'status')
        # tested against the current target
        green_head = [r for r in svc.records if 'test' in r['attributes'] and r['attributes'].get('source_sha') == pr['head']
                      and r['complete'] and r['state'] == 'success']
        green_cur = [r for r in green_head if r['attributes'].get('target_sha') == gh.target_sha]
        if gh.merges_since_refs_read > 0 and pr['state'] != 'open':
            # a repeated PUT for a PR that is already merged / closed cannot merge anything (GitHub answers 405)
            self.classes.add('futile_merge_call_before_target_reread')
        elif gh.merges_since_refs_read > 0:
            att['strict'].append('second-merge-before-retest')
            self.fails.append(('second-merge-before-retest', 'at most one merge per target-branch update',
                               f'{gh.merges_since_refs_read} merge(s) already succeeded since CI last read the target branch. {ctx}'))
        elif pr['head_t'] > gh.pulls_read:
            # CI has not seen the current head yet: whatever it tested is not this commit; GitHub answers 409
            # (if CI owes the read, the head clause above has flagged it)
            att['stale'].append('head')
            self.classes.add('stale_view:head')
        elif not green_head:
            judge(False, pr['head_t'], gh.pulls_read, testsig(f'merge-untested-head:ci-batch-{cidesc.split("(")[0]}'),
                  'its test batch ran (on the current head) and succeeded',
                  f'no successfully completed test batch exists for head {pr["head"]}', 'head')
        elif not green_cur:
            judge(False, gh.target_t, gh.refs_read, testsig(f'merge-untested-on-current-target:ci-batch-{cidesc.split("(")[0]}'),
                  "its test batch ran against the target branch's current commit",
                  f'green batches for head ran against {sorted({r["attributes"].get("target_sha") for r in green_head})}, '
                  f'target is {gh.target_sha}', 'target')
        # non-triviality: a green result of this PR was invalidated before this attempt
        for g in self.green_t.get(n, ()):
            if any(g < p < now for p in self.push_t.get(n, ())) or any(g < p < now for p in gh.target_move_ticks):
                self.nontrivial = True

    # -- op interpreter -----------------------------------------------------------------------------------------------------
    def pick(self, seq, i):
        return seq[i % len(seq)] if seq else None

    def skip(self):
        self.skipped += 1
        self.classes.add('has_skipped_op')

    REENTRANT_KINDS = ('open', 'push', 'close', 'reopen', 'review', 'label', 'status', 'batch', 'deploy', 'target')

    def apply(self, op, reentrant=False):
        """reentrant=True (from `reenter`, inside a client call): only the ground-truth part of an event op is performed and
        (notification path, deliver flag) is returned instead of driving the service; None = skipped."""
        gh, svc = self.gh, self.svc
        kind = op[0]
        deliver = bool(op[-1]) if len(op) > 1 else True
        note = None
        if reentrant and kind not in self.REENTRANT_KINDS:
            raise self.env.F.HarnessBug(f'op {op!r} cannot happen inside a client call')
        if kind == 'open':
            if len(gh.prs) >= MAX_PRS:
                return self.skip()
            labels = [LABELS[op[2] % len(LABELS)]] if op[2] >= 0 else []
            gh.open_pr(approved=bool(op[1]), labels=labels)
            note = 'github'
        elif kind == 'push':
            n = self.pick(gh.open_prs(), op[1])
            if n is None:
                return self.skip()
            pr = gh.prs[n]
            sha = None
            if op[2] == 1:
                others = [p['head'] for m, p in sorted(gh.prs.items()) if m != n and p['head'] != pr['head']]
                sha = self.pick(others, op[1] // 7)
                if sha is not None:
                    self.classes.add('same_commit_prs')
            elif op[2] == 2:
                old = [s for s in pr['heads'] if s != pr['head']]
                sha = old[-1] if old else None
                if sha is not None:
                    self.classes.add('push_back_to_old_head')
            gh.push(n, sha)
            self.push_t.setdefault(n, []).append(gh.tick)
            note = 'github'
        elif kind == 'close':
            n = self.pick(gh.open_prs(), op[1])
            if n is None:
                return self.skip()
            gh.set_state(n, 'closed')
            note = 'github'
        elif kind == 'reopen':
            n = self.pick([m for m, p in sorted(gh.prs.items()) if p['state'] == 'closed'], op[1])
            if n is None:
                return self.skip()
            gh.set_state(n, 'open')
            note = 'github'
        elif kind == 'review':
            n = self.pick(gh.open_prs(), op[1])
            if n is None:
                return self.skip()
            gh.set_review(n, REVIEWS[op[2] % len(REVIEWS)])
            note = 'github'
        elif kind == 'label':
            n = self.pick(gh.open_prs(), op[1])
            if n is None or not gh.set_label(n, LABELS[op[2] % len(LABELS)], bool(op[3])):
                return self.skip()
            note = 'github'
        elif kind == 'status':
            n = self.pick(gh.open_prs(), op[1])
            if n is None:
                return self.skip()
            pr = gh.prs[n]
            sha = pr['head']
            if op[4]:
                old = [s for s in pr['heads'] if s != pr['head']]
                if not old:
                    return self.skip()
                sha = old[-1]
                self.classes.add('status_on_old_head')
            cname, ckind = CONTEXTS[op[2] % len(CONTEXTS)]
            state = (ST_STATES if ckind == 'status' else CK_STATES)[op[3] % (len(ST_STATES) if ckind == 'status' else len(CK_STATES))]
            gh.report_status(sha, cname, ckind, state)
            note = 'update'      # no status webhook is registered in ci.py: CI learns by its periodic update
        elif kind == 'batch':
            rec = self.pick(svc.running('test'), op[1])
            if rec is None:
                return self.skip()
            outcome = OUTCOMES[op[2] % 3]
            svc.finish(rec['id'], outcome)
            if outcome == 'success' and rec['attributes'].get('pr', '').isdigit():
                self.green_t.setdefault(int(rec['attributes']['pr']), []).append(rec['done_t'])
            note = 'batch'
        elif kind == 'deploy':
            rec = self.pick(svc.running('deploy'), 0)
            if rec is None:
                return self.skip()
            svc.finish(rec['id'], OUTCOMES[op[1] % 3])
            note = 'batch'
        elif kind == 'target':
            sha = None
            if op[1]:
                old = [s for s in gh.target_hist if s != gh.target_sha]
                sha = old[-1] if old else None
                if sha is not None:
                    self.classes.add('target_back_to_old_sha')
            gh.move_target(sha)
            note = 'github'
        elif kind == 'conflict':
            n = self.pick(gh.open_prs(), op[1])
            if n is None:
                return self.skip()
            gh.prs[n]['conflict'] = bool(op[2])
            gh._tick()
            self.classes.add('conflict_toggle')
            return
        elif kind == 'freeze':
            self.frozen = bool(op[1])
            self.classes.add('freeze_toggle')
            return
        elif kind == 'restart':
            self.new_ci()
            self.classes.add('ci_restart')
            self.drive('update')
            return
        elif kind == 'tick':
            self.drive('update')
            return
        elif kind == 'fault':
            _, cls, skip, nfail, fkind, ttl = op
            side = 'batch' if cls in self.env.F.BATCH_CLASSES or cls == 'batch-any' else 'gh'
            self.faults.arm(side, 'any' if cls.endswith('-any') else cls, int(skip), int(nfail), fkind, int(ttl))
            self.classes.add('fault_armed')
            if nfail > 1:
                self.classes.add('fault_burst_or_outage')
            return
        elif kind == 'during':
            # RE-ENTRANT DELIVERY: the event op `inner` happens during the (skip+1)-th upcoming client call of class cls;
            # when='post': before that request is served (answer carries the change), 'pre': after the answer was computed
            _, cls, skip, when, inner = op
            if inner[0] not in self.REENTRANT_KINDS:
                raise self.env.F.HarnessBug(f'malformed op {op!r}')
            side = 'batch' if cls in self.env.F.BATCH_CLASSES or cls == 'batch-any' else 'gh'
            inner = list(inner)

            async def fn(side_, cls_, when_, inner=inner):
                await self.reenter(inner, side_, cls_, when_)
            self.reentry.arm(side, 'any' if cls.endswith('-any') else cls, int(skip), when, fn, 3)
            self.classes.add('reentry_armed')
            return
        elif kind == 'nb':
            self.drive('batch')
            return
        elif kind == 'ng':
            self.drive('github')
            return
        else:
            raise self.env.F.HarnessBug(f'unknown op {op!r}')
        if reentrant:
            return note, deliver
        if deliver:
            self.drive(note)
        else:
            self.classes.add('undelivered_event')


def run_case(case):
    env = _env()
    cfg, ops = case['cfg'], case['ops']
    w = World(env, cfg)
    _CUR['world'] = w
    try:
        for p in cfg.get('prs', [])[:MAX_PRS]:
            n = w.gh.open_pr(approved=bool(p[0]), labels=[LABELS[p[1] % len(LABELS)]] if p[1] >= 0 else [])
            if len(p) > 2 and p[2] and n > 1:
                w.gh.prs[n]['head'] = w.gh.prs[n - 1]['head']
                w.gh.prs[n]['heads'] = [w.gh.prs[n]['head']]
                w.classes.add('same_commit_prs')
        w.drive('update')          # service start: update_loop's first pass
        from vlib.runner import known_signatures
        known = set(known_signatures(PROPERTY))
        for op in ops:
            w.apply(op)
            if any(f[0] not in known for f in w.fails):
                break              # a history is not continued behind an unknown violation; behind a known one it is
    finally:
        _CUR['world'] = None
    n_att = len(w.attempts)
    codes = [a['verdict'][0] for a in w.attempts]
    classes = set(w.classes)
    if n_att:
        classes.add('merge_attempt')
    if 200 in codes:
        classes.add('merge_accepted')
    if codes.count(200) >= 2:
        classes.add('two_or_more_merges')
    if 409 in codes:
        classes.add('merge_rejected_409_stale_sha')
    if 405 in codes:
        classes.add('merge_rejected_405')
    if w.gh.paged:
        classes.add('graphql_paged')
    if cfg.get('deployable'):
        classes.add('deployable_branch')
    if any('deploy' in r['attributes'] for r in w.svc.records):
        classes.add('deploy_batch_started')
    if any(r['cancelled_by_ci'] for r in w.svc.records):
        classes.add('ci_cancelled_a_batch')
    if w.nontrivial:
        classes.add('merge_after_invalidated_green')
    # de-duplicate failures by signature, keep the first message
    seen, fails = set(), []
    for sig, clause, msg in w.fails:
        if sig not in seen:
            seen.add(sig)
            fails.append((sig, clause, msg))
    stats = dict(attempts=n_att, accepted=codes.count(200), skipped=w.skipped, gh_calls=w.gh.n_calls,
                 batches=len(w.svc.records))
    return w.nontrivial, sorted(classes), fails, stats


# ---------------------------------------------------------------------------------------------------------------------------
def plan(tier):
    n = 420 if tier == 'quick' else 12000
    return [dict(kind='hyp', n=n, shard=i) for i in range(16)]


# weight table of the generator: (cumulative upper bound out of 100, fragment name).  Index 0 is the simplest op, so that
# integer shrinking (and Hypothesis' bias to small draws) moves towards delivered green batches and plain ticks.
_TABLE = [(18, 'green'), (22, 'tick'), (24, 'green_silent'), (32, 'approve'), (36, 'batch_bad'), (43, 'push'), (49, 'target'),
          (53, 'label_add'), (57, 'label_del'), (60, 'review_bad'), (65, 'status'), (68, 'open'), (70, 'close'), (71, 'reopen'),
          (75, 'deploy'), (76, 'conflict'), (78, 'freeze'), (79, 'restart'), (80, 'nb'), (81, 'ng'),
          (84, 'F_approve_green'), (88, 'F_silent_perturb_then_green'), (90, 'F_silent_perturb_then_tick'),
          (92, 'F_silent_green_then_perturb'), (97, 'F_green_blocked_perturb_unblock'), (99, 'F_frozen_green_perturb_unfreeze'),
          (100, 'F_check_run_in_progress'),
          # fault injection and the notifications that matter after a failed refresh (added behind the original table)
          (106, 'fault'), (109, 'nb'), (110, 'ng'), (113, 'F_two_green'), (117, 'F_fault_then_event'),
          (121, 'F_two_green_fault_notify'), (124, 'F_outage_then_events'),
          # re-entrant delivery: an event lands while the service is suspended inside a client call
          (128, 'during'), (134, 'F_during_then_trigger'), (142, 'F_during_refresh_then_green'),
          (145, 'F_during_fault_then_trigger')]
_W = _TABLE[-1][0]

# call classes a fault can be aimed at, weighted (41 slots = range of operand b): the target-branch read and the untargeted
# "k-th call from now" are the most frequent; every class of both clients occurs
_FAULT_CLS = (['refs'] * 8 + ['gh-any'] * 7 + ['graphql'] * 5 + ['pulls'] * 4 + ['merge'] * 4 + ['status'] * 3 + ['assignees']
              + ['list'] * 3 + ['bstatus'] * 3 + ['submit'] * 2 + ['cancel'] + [])
_FAULT_CLS = _FAULT_CLS + ['batch-any'] * (41 - len(_FAULT_CLS))
_GH_KINDS = ('http502', 'timeout', 'http403', 'disconnect', 'client_response_error')
_B_KINDS = ('batch404', 'batch403')


def fault_op(a, b, c, d, e):
    cls = _FAULT_CLS[b % len(_FAULT_CLS)]
    batch = cls in ('list', 'bstatus', 'submit', 'cancel', 'batch-any')
    skip = (2 * a + c) if cls.endswith('-any') else (0, 0, 0, 1, 2)[c % 5]
    nfail = (1, 1, 2, 99)[d % 4]
    kind = _B_KINDS[e % 2] if batch else _GH_KINDS[e % 5]
    return ['fault', cls, skip, nfail, kind, 1 if nfail == 99 else 3]


# call classes a re-entrant delivery can be aimed at (41 slots = range of operand b): mostly the three reads of a refresh
# (refs, pulls list, per-PR GraphQL), then the writes and the Batch calls; every class of both clients occurs
_DURING_CLS = (['graphql'] * 9 + ['pulls'] * 6 + ['refs'] * 6 + ['gh-any'] * 5 + ['merge'] * 2 + ['status'] * 2 + ['assignees']
               + ['list'] * 3 + ['bstatus'] * 2 + ['submit'] * 2 + ['cancel'])
_DURING_CLS = _DURING_CLS + ['batch-any'] * (41 - len(_DURING_CLS))
_REFRESH_CLS = ('graphql', 'graphql', 'pulls', 'refs', 'gh-any')


def during_op(cls, a, c, d, inner):
    skip = (a + c) if cls.endswith('-any') else (0, 0, 1, 2, 3)[c % 5]
    return ['during', cls, skip, ('pre', 'post')[d % 2], inner]


def decode(t):
    """(w, a, b, c, d, e) small integers -> list of ops (one op or a fragment)."""
    w, a, b, c, d, e = t
    name = next(nm for hi, nm in _TABLE if w < hi)
    dl = 1 if d else 0

    def push(flag):
        return ['push', b, (0, 0, 0, 1, 1, 2)[c % 6], flag]

    def target(flag):
        return ['target', 1 if c == 4 else 0, flag]

    def perturb(flag):
        k = e % 7
        if k == 0:
            return push(flag)
        if k == 1:
            return target(flag)
        if k == 2:
            return ['label', a, c % 4, 1, flag]
        if k == 3:
            return ['review', a, 1 + c % 3, flag]
        if k == 4:
            return ['status', a, b % 4, 1 + c % 4, 0, flag]
        if k == 5:
            return ['status', a, b % 4, c % 5, 1, flag]
        return ['close', a, flag]

    green = ['batch', a, 0, 1]
    event = [green, ['tick'], ['ng'], ['nb'], push(1), target(1), ['review', a, 0, 1]][e % 7]
    if name in ('during', 'F_during_then_trigger', 'F_during_refresh_then_green', 'F_during_fault_then_trigger'):
        lost = 0 if (a + b + c) % 6 == 0 else 1          # 1 of 6: the webhook / callback of the mid-call event is lost
        inner = [['label', a, c % 2, 1, lost], ['review', a, 1 + c % 3, lost], push(lost), target(lost),
                 ['status', a, b % 4, 1 + c % 4, 0, lost], ['close', a, lost], ['batch', a, (0, 0, 1, 2)[b % 4], lost]][e % 7]
        trigger = [['ng'], ['tick'], green, ['nb'], ['review', a, 0, 1], push(1), ['label', a, 2 + c % 3, 1, 1]][(b + d) % 7]
        if name == 'during':
            return [during_op(_DURING_CLS[b % len(_DURING_CLS)], a, c, d, inner)]
        if name == 'F_during_then_trigger':
            return [during_op(_DURING_CLS[b % len(_DURING_CLS)], a, c, d, inner), trigger]
        if name == 'F_during_fault_then_trigger':
            return [during_op(_DURING_CLS[b % len(_DURING_CLS)], a, c, d, inner), fault_op(a, b // 2, c, d, e), trigger,
                    [['nb'], green, ['tick']][d % 3]]
        # the change lands while a refresh is reading GitHub; afterwards, from idle, a test batch turns green
        inner = [['label', a, c % 2, 1, lost], ['review', a, 1 + c % 3, lost], push(lost), target(lost), ['close', a, lost],
                 ['label', a, c % 2, 1, lost], ['review', a, 1 + c % 3, lost]][e % 7]
        return [during_op(_REFRESH_CLS[b % len(_REFRESH_CLS)], a, c, d, inner), [['ng'], ['tick'], ['review', a, 0, 1]][(b + d) % 3],
                green]
    if name == 'fault':
        return [fault_op(a, b, c, d, e)]
    if name == 'F_two_green':
        # two test batches finish, CI hears of it once: both PRs become mergeable against the same target commit together
        return [['batch', a, 0, 0], green]
    if name == 'F_fault_then_event':
        return [fault_op(a, b, c, d, e), event]
    if name == 'F_two_green_fault_notify':
        return [['batch', a, 0, 0], fault_op(a, b, c, d, e), green, [['nb'], green, ['nb'], ['tick'], ['ng']][(a + c) % 5]]
    if name == 'F_outage_then_events':
        side = 'batch-any' if b % 4 == 0 else 'gh-any'
        kind = _B_KINDS[e % 2] if side == 'batch-any' else _GH_KINDS[e % 5]
        return [['fault', side, 0, 99, kind, 1 + c % 2], event, [['nb'], ['tick'], green][d % 3]]
    simple = {
        'tick': [['tick']], 'green': [green], 'green_silent': [['batch', a, 0, 0]], 'approve': [['review', a, 0, dl]],
        'batch_bad': [['batch', a, 1 + b % 2, dl]], 'push': [push(dl)], 'target': [target(dl)],
        'label_add': [['label', a, c % 5, 1, dl]], 'label_del': [['label', a, c % 5, 0, dl]],
        'review_bad': [['review', a, 1 + c % 3, dl]], 'status': [['status', a, b % 4, c % 5, 1 if e == 3 else 0, dl]],
        'open': [['open', 1 if b % 3 else 0, (-1, -1, -1, 0, 2)[c % 5], dl]], 'close': [['close', a, dl]],
        'reopen': [['reopen', a, dl]], 'deploy': [['deploy', (0, 0, 0, 1, 2)[c % 5], dl]], 'conflict': [['conflict', a, c % 2]],
        'freeze': [['freeze', c % 2]], 'restart': [['restart']], 'nb': [['nb']], 'ng': [['ng']],
    }
    if name in simple:
        return simple[name]
    unblock = [['review', a, 0, 1], ['label', a, c % 5, 0, 1], ['freeze', 0], ['tick']][e % 4]
    if name == 'F_approve_green':
        return [['review', a, 0, 1], green]
    if name == 'F_silent_perturb_then_green':
        return [perturb(0), green]
    if name == 'F_silent_perturb_then_tick':
        return [perturb(0), ['tick']]
    if name == 'F_silent_green_then_perturb':
        return [['batch', a, 0, 0], perturb(1), ['nb']]
    if name == 'F_green_blocked_perturb_unblock':
        return [green, (target(dl) if b % 2 else push(dl)), unblock]
    if name == 'F_check_run_in_progress':
        return [['status', a, 3, 3, 0, 0], ['tick'], green]
    return [['freeze', 1], green, (target(dl) if b % 2 else push(dl)), ['freeze', 0], ['tick']]


def _strategy(tier='quick'):
    from hypothesis import strategies as st
    frag = st.tuples(st.integers(0, _W - 1), st.integers(0, 5), st.integers(0, 40), st.integers(0, 4), st.integers(0, 3),
                     st.integers(0, 6))
    frags = st.lists(frag, min_size=6, max_size=18 if tier == 'quick' else 28)
    one_pr = st.tuples(st.sampled_from([1, 1, 1, 1, 0]), st.sampled_from([-1, -1, -1, -1, 0, 2, 3]),
                       st.sampled_from([0, 0, 0, 0, 1])).map(list)
    # mostly 2..3 initial PRs: "at most one merge per target-branch update" says nothing about a lone PR
    prs = st.integers(0, 5).flatmap(lambda k: st.lists(one_pr, min_size=1 if k == 0 else 2, max_size=1 if k == 0 else 3))
    cfg = st.fixed_dictionaries(dict(deployable=st.sampled_from([0, 0, 0, 0, 1]), ci_required=st.sampled_from([1, 1, 0]),
                                     dismiss_stale=st.sampled_from([0, 0, 1]), filler=st.sampled_from([0, 0, 11]), prs=prs))

    def build(d):
        ops = []
        if len(d['cfg']['prs']) >= 2 and d['opener']:
            # the PRs' first test batches (all against T0) finish before CI hears of any of them: the first notification finds
            # >= 2 PRs mergeable against one target commit, the shape "at most one merge per update" is about
            ops.extend([['batch', 0, 0, 0]] * (len(d['cfg']['prs']) - 1) if d['opener'] == 1 else [['batch', 0, 0, 0]])
        for t in d['frags']:
            if d['cfg']['deployable'] and t[2] % 3 != 2:
                ops.append(['deploy', 0, 1])        # on a deployable branch merges wait for the running deploy to finish
            ops.extend(decode(t))
        return dict(cfg=d['cfg'], ops=ops[:70])
    return st.fixed_dictionaries(dict(cfg=cfg, frags=frags, opener=st.sampled_from([0, 0, 0, 1, 1, 2]))).map(build)


def _minimise(case, sig, msg, budget=400):
    import copy

    def still(c):
        nonlocal budget, msg
        budget -= 1
        for s_, _, m_ in run_case(c)[2]:
            if s_ == sig:
                msg = m_
                return True
        return False

    best = copy.deepcopy(case)
    for key in ('deployable', 'filler', 'dismiss_stale'):
        if best['cfg'].get(key):
            cand = copy.deepcopy(best)
            cand['cfg'][key] = 0
            if still(cand):
                best = cand
    changed = True
    while changed and budget > 0:
        changed = False
        i = 0
        while i < len(best['ops']) and budget > 0:
            cand = copy.deepcopy(best)
            del cand['ops'][i]
            if still(cand):
                best, changed = cand, True
            else:
                i += 1
        i = len(best['cfg']['prs']) - 1
        while i >= 0 and len(best['cfg']['prs']) > 1 and budget > 0:
            cand = copy.deepcopy(best)
            del cand['cfg']['prs'][i]
            if still(cand):
                best, changed = cand, True
            i -= 1
    return best, msg


def run_shard(spec, seed, tier):
    from vlib.hyp import search
    res = Result()
    tot = dict(attempts=0, accepted=0, gh_calls=0, batches=0)

    def check(case):
        nt, classes, fails, stats = run_case(case)
        for k in tot:
            tot[k] += stats[k]
        res.skipped_ops += stats['skipped']
        return nt, classes, fails

    search(res, PROPERTY, _strategy(tier), check, spec['n'], seed)
    for f in res.failures:          # bounded greedy minimisation of the op list and of the initial PRs (same signature kept)
        f['case'], f['message'] = _minimise(f['case'], f['signature'], f['message'])
    res.notes['merge_attempts_total'] = tot['attempts']
    res.notes['merges_accepted_total'] = tot['accepted']
    res.notes['github_api_calls_total'] = tot['gh_calls']
    res.notes['batches_created_total'] = tot['batches']
    return res


def replay(case):
    nt, cls, fl, _ = run_case(case)
    return [dict(signature=s, clause=c, message=m, case=case) for s, c, m in fl]


if __name__ == '__main__':      # ad-hoc: python -m checks.c30 '<json case>'
    import json
    import sys
    print(json.dumps(run_case(json.loads(sys.argv[1]))[:3], indent=1, default=str))
