"""C20 — bounded gather helpers respect their bound and their error contract (hailtop.utils.utils)."""
from __future__ import annotations

from vlib import hostenv
from vlib.runner import Result

PROPERTY = 'C20'
LEVEL = 'exploration'
RULE = ('gate-driven leaf tasks (each counts itself running), parallelism 1..5, the caller holds the semaphore as documented '
        'callers do; shapes: flat bounded_gather2 in raise / raise+cancel_on_error / return_exceptions mode, a two-level tree '
        '(return_exceptions over parents that each run a nested cancel_on_error gather, as Copier does), and OnlineBoundedGather2 '
        '(call all, optional wait on a subset, optional body exception, late call). The plan lists completions in order: '
        'ok/err of the i-th running leaf, cancel of a leaf task (online) or of the outer call. After the shape finishes, a second '
        'gather of par+2 leaves runs on the same semaphore. Oracle: running-at-once <= parallelism at all times (both phases); '
        'results in submission order; return_exceptions gives (v,None)/(None,exc) in place and never raises; raise mode raises '
        'exactly the first failure in completion order; cancel_on_error / online exit leave no unfinished task; normal return '
        'leaves no unfinished task; PoolShutdownError after a failure. Non-trivial: >= 1 failure while >= 1 other leaf is '
        'running and >= 1 is queued.')
ASSUMPTIONS = ['single-threaded asyncio; the order of gate completions is the whole schedule space',
               'raise mode without cancel_on_error documents that remaining tasks keep running after the raise; not flagged']
TRUSTED = ['vlib/aiosched.py virtual loop']


class Err(Exception):
    pass


class BodyErr(Exception):
    pass


def run_case(case):
    hostenv.install()
    import asyncio
    import functools
    from hailtop.utils import utils as U
    from vlib.aiosched import new_loop, close_loop, Gate, Livelock

    par = case['par']
    shape = case['shape']
    n = case['n']
    plan = case['plan']
    loop = new_loop()
    fails = []
    classes = set()
    nontrivial = False
    try:
        class TrackingSemaphore(asyncio.Semaphore):
            """asyncio.Semaphore that also records, per task, how many slots that task holds."""

            def __init__(self, value):
                super().__init__(value)
                self.held = {}
                self.double_released = 0

            async def acquire(self):
                r = await super().acquire()
                t = asyncio.current_task()
                self.held[t] = self.held.get(t, 0) + 1
                return r

            def release(self):
                t = asyncio.current_task()
                self.held[t] = self.held.get(t, 0) - 1
                if self.held[t] < 0:
                    # only WithoutSemaphore.__aenter__ releases on behalf of its caller; a negative count means the
                    # caller's slot had already been given away by an earlier error exit that skipped the re-acquire
                    self.double_released += 1
                super().release()

        sema = TrackingSemaphore(par)
        compensated = [0]
        flags = dict(cancel=False, body=False)

        def error_event():
            # the known over-release needs an exception/cancellation to travel through a WithoutSemaphore block
            return bool(failed_order) or flags['cancel'] or flags['body']

        async def holding(coro_fn):
            """What documented callers do: hold a slot while calling the helper.  If the helper hands control back by an
            exception WITHOUT the caller's slot (known finding sema-not-reacquired-on-error-exit), record it and re-acquire, so
            that the search continues behind that defect (excluded by construction, counted)."""
            await sema.acquire()
            try:
                return await coro_fn()
            finally:
                if sema.held.get(asyncio.current_task(), 0) > 0:
                    sema.release()
                elif error_event():
                    compensated[0] += 1     # slot already given away by the error exit: do not release it twice
                else:
                    fails.append(('slot-not-returned', 'the helper hands control back with the caller holding exactly its own slot',
                                  'helper returned normally but the caller no longer holds its semaphore slot'))

        async def reacquire():
            while True:
                try:
                    await sema.acquire()
                    return
                except asyncio.CancelledError:
                    pass                    # the original exception is re-raised by the caller anyway

        running = {}            # leaf id -> gate (currently inside leaf)
        cleaning = {}           # leaf id -> gate (cancelled, inside its clean-up)
        at_return = {}
        started = []
        finished = {}           # leaf id -> 'ok' | 'err' | 'cancelled'
        max_running = [0]
        failed_order = []
        selfcancelled = []

        def over(phase):
            if len(running) > par and (sema.double_released or shape == 'legacy') and error_event():
                compensated[0] += 1
            elif len(running) > par:
                fails.append(('bound-exceeded' if phase == 1 else 'bound-exceeded-after',
                              'never runs more tasks at once than the semaphore allows',
                              f'phase {phase}: {len(running)} leaves running > parallelism {par}'))

        phase = [1]

        async def leaf(i):
            g = Gate(loop)
            running[i] = g
            started.append(i)
            max_running[0] = max(max_running[0], len(running))
            over(phase[0])
            try:
                r = await g
            except asyncio.CancelledError:
                # cancellation takes time: the leaf's clean-up waits for the harness, so "cancel and wait" is observable
                del running[i]
                cg = Gate(loop)
                cleaning[i] = cg
                try:
                    await cg
                except asyncio.CancelledError:
                    pass                      # cancelled again during clean-up: finish at once
                finally:
                    del cleaning[i]
                finished[i] = 'cancelled'
                raise
            del running[i]
            if i in sigs and not sigs[i].done():
                sigs[i].set_result(None)
            if r == 'cancel':
                finished[i] = 'selfcancel'
                selfcancelled.append(i)
                raise asyncio.CancelledError()
            if r == 'err':
                finished[i] = 'err'
                failed_order.append(i)
                raise Err(i)
            finished[i] = 'ok'
            return ('v', i)

        outcome = {}
        online = {}
        chasers = []
        sigs = {}

        async def outer():
            try:
                return await holding(outer_body)
            finally:
                at_return['busy'] = sorted(set(running) | set(cleaning))
                # (online pool: a submitted task that has not even started counts as work left behind, too)
                at_return['busy'] += [f'pool-task#{k}' for k, t in enumerate(online.get('tasks', [])) if not t.done()
                                      and not at_return['busy']]

        async def outer_body():
            if True:
                if shape in ('raise', 'raise_cancel', 'return_exc'):
                    pfs = [functools.partial(leaf, i) for i in range(n)]
                    return await U.bounded_gather2(sema, *pfs, return_exceptions=(shape == 'return_exc'),
                                                   cancel_on_error=(shape == 'raise_cancel'))
                if shape == 'legacy':
                    # bounded_gather(parallelism=p) builds its own semaphore; leaves count themselves against p
                    pfs = [functools.partial(leaf, i) for i in range(n)]
                    return await U.bounded_gather(*pfs, parallelism=par, return_exceptions=False, cancel_on_error=bool(case.get('coe')))
                if shape == 'tree':
                    k = case['fanout']

                    async def parent(p):
                        # bounded_gather2 runs parent under `async with sema`; the nested call may lose that slot on error
                        pfs = [functools.partial(leaf, p * 100 + j) for j in range(k)]
                        try:
                            return await U.bounded_gather2(sema, *pfs, cancel_on_error=True)
                        except BaseException:
                            if sema.held.get(asyncio.current_task(), 0) == 0:
                                compensated[0] += 1
                                await reacquire()
                            raise
                    return await U.bounded_gather2_return_exceptions(sema, *[functools.partial(parent, p) for p in range(n)])
                if shape == 'online':
                    async with U.OnlineBoundedGather2(sema) as pool:
                        online['in_body'] = True
                        ts = [pool.call(leaf, i) for i in range(n)]
                        online['tasks'] = ts

                        async def chaser(t, j):
                            # somebody outside the block who holds the pool submits follow-up work when a task finishes (how the
                            # pool is used for recursive listings): this can land between the last task's completion and the
                            # resumption of the exiting coroutine
                            try:
                                await sigs.setdefault(j % n, loop.create_future())     # resolved by the leaf just before it returns
                            except asyncio.CancelledError:
                                return
                            try:
                                ts.append(pool.call(leaf, 2000 + j))
                                classes.add('follow_up_submitted_from_outside')
                            except U.PoolShutdownError:
                                pass
                        for j in case.get('chase', []):
                            if n:
                                sigs.setdefault(j % n, loop.create_future())
                                chasers.append(loop.create_task(chaser(ts[j % n], j)))
                        sub = [ts[j % n] for j in case.get('wait', [])] if n else []
                        if sub:
                            await pool.wait(sub)
                            online['failed_at_resume'] = bool(failed_order)
                            try:
                                t = pool.call(leaf, 999)
                                online['late'] = 'accepted'
                                ts.append(t)
                            except U.PoolShutdownError:
                                online['late'] = 'shutdown'
                        if case.get('body_raises'):
                            flags['body'] = True
                            online['in_body'] = False
                            raise BodyErr()
                        online['in_body'] = False
                    return [t for t in ts]

        outer_task = loop.create_task(outer())
        loop.settle()
        cancelled_outer = False
        n_outer_cancels = [0]
        cancelled_leaf_tasks = set()
        for step in plan:
            kind = step[0]
            if outer_task.done():
                break
            if kind in ('ok', 'err', 'cerr'):
                rs = sorted(running)
                if not rs:
                    classes.add('skipped')
                    continue
                i = rs[step[1] % len(rs)]
                if kind == 'err':
                    queued = (n if shape != 'tree' else n * case['fanout']) - len(started)
                    if len(rs) >= 2 and queued >= 1:
                        nontrivial = True
                        classes.add('failure_with_running_and_queued')
                if kind == 'cerr':
                    flags['cancel'] = True
                    classes.add('leaf_raises_cancelled')
                running[i].open('cancel' if kind == 'cerr' else kind)
            elif kind == 'clean':
                cs = sorted(cleaning)
                if not cs:
                    continue
                cleaning[cs[step[1] % len(cs)]].open()
            elif kind == 'cancel_outer':
                cancelled_outer = True
                online['cancelled_in_exit_wait'] = (shape == 'online' and online.get('in_body') is False)
                n_outer_cancels[0] += 1
                if failed_order or selfcancelled:
                    n_outer_cancels[0] += 10      # a cancellation that interrupts the helper's own clean-up wait is not judged
                flags['cancel'] = True
                classes.add('cancel_outer')
                outer_task.cancel()
            elif kind == 'cancel_leaf' and shape == 'online' and online.get('tasks'):
                ts = [t for t in online['tasks'] if not t.done()]
                if not ts:
                    continue
                t = ts[step[1] % len(ts)]
                cancelled_leaf_tasks.add(id(t))
                flags['cancel'] = True
                classes.add('cancel_leaf_task')
                t.cancel()
            loop.settle()
            if fails:
                break
        # finish: complete everything still running with ok until quiescent
        for _ in range(1000):
            if not running and not cleaning:
                break
            for i in sorted(running):
                running[i].open('ok')
            for i in sorted(cleaning):
                cleaning[i].open()
            loop.settle()
        if not outer_task.done():
            fails.append(('outer-hangs', 'the helper returns once all its tasks have finished',
                          f'outer call still pending; started {started}, finished {finished}'))
        else:
            # ---- oracle on the outcome
            exc = None
            res = None
            if outer_task.cancelled():
                if not cancelled_outer and not selfcancelled:
                    fails.append(('spurious-cancel', 'the call is cancelled only if the caller cancelled it', 'outer got CancelledError'))
            else:
                exc = outer_task.exception()
                if exc is None:
                    res = outer_task.result()
            first_failed = failed_order[0] if failed_order else None
            if shape in ('raise', 'raise_cancel', 'legacy') and not cancelled_outer and not selfcancelled:
                if first_failed is None:
                    if exc is not None:
                        fails.append(('raised-without-failure', 'raises only if a task failed', repr(exc)))
                    elif res != [('v', i) for i in range(n)]:
                        fails.append(('order', 'results are returned in submission order', f'{res}'))
                else:
                    if not isinstance(exc, Err) or exc.args[0] != first_failed:
                        fails.append(('wrong-exception', 'raises exactly the first exception (in completion order)',
                                      f'got {exc!r} / result {res!r}; first failed leaf {first_failed}; failures in order {failed_order}'))
            if shape == 'return_exc' and not cancelled_outer and not selfcancelled:
                if exc is not None:
                    fails.append(('return-exc-raised', 'return_exceptions mode never raises', repr(exc)))
                else:
                    for i, pair in enumerate(res):
                        st = finished.get(i)
                        okp = (st == 'ok' and pair == (('v', i), None)) or \
                              (st == 'err' and pair[0] is None and isinstance(pair[1], Err) and pair[1].args[0] == i)
                        if not okp:
                            fails.append(('return-exc-slot', 'every result or exception is returned in place',
                                          f'slot {i}: {pair!r} but leaf finished {st}'))
                            break
            if shape == 'return_exc' and not cancelled_outer and selfcancelled:
                # a task that raises CancelledError itself is one more failure pattern: return_exceptions mode returns it in place
                # (the helper catches every exception of a task) and the call itself neither raises nor is cancelled
                if outer_task.cancelled() or exc is not None:
                    fails.append(('return-exc-raised', 'return_exceptions mode never raises',
                                  f'leaf(s) {selfcancelled} raised CancelledError themselves; the call ended with '
                                  f'{"CancelledError" if outer_task.cancelled() else repr(exc)}'))
                else:
                    for i, pair in enumerate(res):
                        st = finished.get(i)
                        okp = (st == 'ok' and pair == (('v', i), None)) or \
                              (st == 'err' and pair[0] is None and isinstance(pair[1], Err) and pair[1].args[0] == i) or \
                              (st == 'selfcancel' and pair[0] is None and isinstance(pair[1], asyncio.CancelledError))
                        if not okp:
                            fails.append(('return-exc-slot', 'every result or exception is returned in place',
                                          f'slot {i}: {pair!r} but leaf finished {st}'))
                            break
            if shape == 'tree' and not cancelled_outer and not selfcancelled:
                if exc is not None:
                    fails.append(('return-exc-raised', 'return_exceptions mode never raises', repr(exc)))
                else:
                    k = case['fanout']
                    for p, pair in enumerate(res):
                        fl = [i for i in failed_order if i // 100 == p]
                        if fl:
                            if not (pair[0] is None and isinstance(pair[1], Err) and pair[1].args[0] == fl[0]):
                                fails.append(('return-exc-slot', 'every result or exception is returned in place',
                                              f'parent {p}: {pair!r}, first failed leaf {fl[0]}'))
                        elif pair != ([('v', p * 100 + j) for j in range(k)], None):
                            fails.append(('order', 'results are returned in submission order', f'parent {p}: {pair!r}'))
            if shape == 'online' and not cancelled_outer and not selfcancelled:
                want = None
                if failed_order and case.get('body_raises'):
                    want = 'either'
                elif failed_order:
                    want = Err
                elif case.get('body_raises'):
                    want = BodyErr
                if want is None and exc is not None:
                    fails.append(('raised-without-failure', 'raises only if a task or the body failed', repr(exc)))
                elif want == Err and not (isinstance(exc, Err) and exc.args[0] == first_failed):
                    fails.append(('wrong-exception', 'the first exception raised is raised by the context manager exit',
                                  f'got {exc!r}; first failed {first_failed}'))
                elif want == BodyErr and not isinstance(exc, BodyErr):
                    fails.append(('wrong-exception', 'the first exception raised is raised by the context manager exit', f'got {exc!r}'))
                elif want == 'either' and not isinstance(exc, (Err, BodyErr)):
                    fails.append(('wrong-exception', 'the first exception raised is raised by the context manager exit', f'got {exc!r}'))
                if 'late' in online and not online['failed_at_resume'] and online['late'] != 'accepted':
                    # (after a failure the call may still be accepted in the tick before shutdown runs; the new task is
                    #  cancelled with the rest, so only the no-failure direction is checked)
                    fails.append(('late-call', 'call() is refused only after a failure shut the pool down',
                                  f'late call {online["late"]} although no task had failed'))
            judged = (not cancelled_outer and not selfcancelled) or \
                (shape in ('raise_cancel', 'online') and n_outer_cancels[0] <= 1 and len(selfcancelled) + (1 if failed_order else 0) + n_outer_cancels[0] <= 1)
            raised = outer_task.cancelled() or exc is not None
            if judged and at_return.get('busy') and not ((shape in ('raise', 'return_exc', 'tree') or (shape == 'legacy' and not case.get('coe'))) and raised):
                sig = 'returned-with-running-task'
                if shape == 'online' and online.get('cancelled_in_exit_wait') and not failed_order:
                    sig = 'online-exit-wait-cancelled-leaves-tasks'
                fails.append((sig, 'cancels the remaining work when asked to and leaves no task running after it returns',
                              f'helper handed control back while leaves {at_return["busy"]} were still running / cleaning up'))
            for ch in chasers:
                ch.cancel()
            loop.settle()
            # no task left running (all modes once every gate has been completed and the loop drained)
            left = [t for t in asyncio.all_tasks(loop) if not t.done()]
            if left:
                fails.append(('task-leak', 'leaves no task running after it returns', f'{len(left)} unfinished task(s) after return'))
            mid = [i for i in started if i not in finished]
            if mid:
                fails.append(('task-leak', 'leaves no task running after it returns', f'leaves {mid} neither finished nor cancelled'))
            if shape in ('raise_cancel', 'tree', 'online') and failed_order and not cancelled_outer:
                classes.add('error_path')
        # ---- phase 2: the same semaphore must still enforce the same bound
        if not fails:
            phase[0] = 2
            m = par + 2

            async def outer2():
                return await holding(lambda: U.bounded_gather2(sema, *[functools.partial(leaf, 1000 + j) for j in range(m)]))
            t2 = loop.create_task(outer2())
            loop.settle()
            for _ in range(1000):
                if not running and not cleaning:
                    break
                for i in sorted(running):
                    running[i].open('ok')
                for i in sorted(cleaning):
                    cleaning[i].open()
                loop.settle()
            if not t2.done():
                fails.append(('outer-hangs-after', 'a later gather on the same semaphore still completes',
                              f'second gather pending; sema value {sema._value}'))
            elif t2.exception() is not None:
                fails.append(('second-gather-raised', 'a later gather works', repr(t2.exception())))
        for t in [outer_task]:
            if t.done() and not t.cancelled():
                t.exception()
        if compensated[0]:
            classes.add('compensated_known_over_release')
            fails.append(('sema-not-reacquired-on-error-exit',
                          'never runs more tasks at once than the semaphore allows (the caller keeps exactly its own slot)',
                          f'{compensated[0]} time(s) a bounded_gather2* call exited by exception without re-acquiring the '
                          f"caller's slot (WithoutSemaphore.__aexit__ skips acquire on error); the caller's own release then "
                          f'raises the semaphore above its initial value {par}'))
    except Livelock as e:
        fails.append(('livelock', 'terminates', str(e)))
    finally:
        close_loop(loop)
    return nontrivial, sorted(classes | {f'shape_{shape}'}), fails


def plan(tier):
    n = 1200 if tier == 'quick' else 20000
    return [dict(kind='hyp', n=n) for _ in range(16)]


def run_shard(spec, seed, tier):
    from hypothesis import strategies as st
    from vlib.hyp import search
    res = Result()
    step = st.one_of(st.tuples(st.sampled_from(['ok', 'ok', 'err', 'clean', 'cerr']), st.integers(0, 5)).map(list),
                     st.tuples(st.just('cancel_leaf'), st.integers(0, 5)).map(list),
                     st.just(['cancel_outer']))
    stepnc = st.one_of(st.tuples(st.sampled_from(['ok', 'ok', 'err', 'clean', 'cerr']), st.integers(0, 5)).map(list),
                       st.tuples(st.just('cancel_leaf'), st.integers(0, 5)).map(list))

    @st.composite
    def cases(draw):
        shape = draw(st.sampled_from(['raise', 'raise_cancel', 'return_exc', 'tree', 'online', 'legacy']))
        c = dict(par=draw(st.integers(1, 5)), shape=shape, n=draw(st.integers(0, 8) if shape != 'tree' else st.integers(1, 4)))
        if shape == 'tree':
            c['fanout'] = draw(st.integers(1, 4))
        if shape == 'legacy':
            c['coe'] = draw(st.booleans())
        if shape == 'online':
            c['wait'] = draw(st.lists(st.integers(0, 7), max_size=3))
            c['body_raises'] = draw(st.booleans())
            c['chase'] = draw(st.lists(st.integers(0, 7), max_size=2, unique=True))
        c['plan'] = draw(st.lists(step if draw(st.integers(0, 4)) == 0 else stepnc, max_size=20))
        return c
    search(res, PROPERTY, cases(), run_case, spec['n'], seed)
    return res


def replay(case):
    nt, cls, fl = run_case(case)
    return [dict(signature=s, clause=c, message=m, case=case) for s, c, m in fl]
