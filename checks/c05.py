"""C05 — dependencies gate readiness; failed parents cancel children."""
from vlib.batchsim import histcheck as H, oracle as O

PROPERTY = 'C05'
LEVEL = 'exploration'
RULE = ('Hypothesis-generated histories (see C01) weighted towards DAGs spread over 1-3 updates (parents in the same update and, '
        'absolutely referenced, in earlier updates), commits interleaved with completions of earlier-update parents, all outcomes '
        '(success / failed / error / cancelled), always_run flags, group cancels, scheduler and canceller bodies. After every op: a job '
        'not Pending has every parent terminal; a committed Pending job whose parents are all terminal does not exist; '
        'n_pending_parents == number of non-terminal parents; when a job leaves Pending its cancelled flag is set iff it was already '
        'set or some parent did not succeed; a cancelled non-always_run job never newly enters Creating/Running. '
        'Non-trivial: a job with parents in an earlier update, or a failed parent in a history with an always_run job.')
ASSUMPTIONS = ['serializable at transaction granularity on minimysql']
TRUSTED = ['vlib/minimysql', 'vlib/batchsim', 'vlib/batchsim/oracle.py']


def step(w, prev, cur, op, res):
    return O.check_dependencies(prev, cur) or O.check_no_cancelled_running(prev, cur)


def extra(w):
    out = set()
    for op, r in w.log:
        if op[0] == 'complete' and r.get('ok') and r.get('new_state') in ('failed', 'error'):
            out.add('failed_completion')
    return out


def nontrivial(w, cls):
    return 'complete' in cls and ('cross_update_parent' in cls or ('failed_completion' in cls and 'always_run_job' in cls and 'has_parents' in cls))


plan, run_shard, replay = H.standard_module(PROPERTY, 'deps', step, nontrivial, RULE, quick_n=60, thorough_n=1500, extra_classes=extra)
