"""C18 — Batch DSL resource plumbing through the real ServiceBackend._async_run against a recording fake client.

A case is a DSL program as data:

    {"tok": [int|null, ...], "uid": [int|null, ...], "ops": [op, ...]}

ops (job / input / group operands are indices taken modulo the number of live objects; an op or reference whose
precondition does not hold is skipped and counted):

    ["input", p]                      b.read_input(PATHS[p])
    ["ingroup", [[n, p], ...]]        b.read_input_group(**{INNAMES[n]: PATHS[p]})
    ["job", name]                     b.new_job(name=NAMES[name])
    ["declare", j, g, [m, ...]]       job.declare_resource_group(GNAMES[g]={MEMBERS[m]: '{root}.'+MEMBERS[m]})
    ["cmd", j, [part, ...], big]      job.command(text); a part is a literal string or a reference:
                                        ["own", i]        job[IDENTS[i]]   (defines the job's own file)
                                        ["owng", g, m]    own declared group g (m null) or its member m
                                        ["in", k]         k-th input file
                                        ["ing", k, m]     k-th input group (m null) or its member m
                                        ["oth", j, k]     k-th valid resource (file / group / member) of another job
                                      big=1 pads the command beyond 10 KiB (code.sh upload path)
    ["ext", j, k, e]                  add_extension(EXTS[e]) on the k-th file resource of job j
    ["write", kind, a, k, d]          b.write_output(resource, DESTS[d]); kind "job" (k-th valid resource of job a),
                                      "in" (a-th input file; URL inputs only)
    ["pyjob", name, img]              b.new_python_job(name=NAMES[name]); img=1 also calls .image(PYIMAGE)
    ["call", p, f, [arg, ...], [[kw, arg], ...]]
                                      result = (p-th python job).call(FUNCS[f], *args, **{KWNAMES[kw]: arg}); an arg is
                                        ["val", v]          the plain Python value VALUES[v]
                                        ["in", k] / ["ing", k, m] / ["oth", j, k]     as in commands
                                        ["pyr", j, k, how]  k-th result of the j-th *other* python job: the PythonResult
                                                            itself (how null) or result.as_str/as_repr/as_json() (how 0/1/2)
                                        ["res", k, how]     the same for an earlier result of this python job
                                        ["lst", [arg, ...]] / ["tup", [arg, ...]] / ["dct", [[kw, arg], ...]]
                                                            list / tuple / dict holding further args
    ["conv", p, k, how]               (k-th result of the p-th python job).as_str() / as_repr() / as_json(); may repeat
                                      (a repeated call must hand back the same resource or a resource with its own path)

"cmd", "declare" and "ext" address Bash jobs only, "call" and "conv" python jobs only; "write" and ["oth", ...] address
all jobs.  Commands of Bash jobs may also name ["pyr", j, k, how]; a Bash reference that resolves to a PythonResult
itself is turned into one of its converted files (the documented route), how taken from the reference.
"pyimg": 1 builds the Batch with default_python_image=PYIMAGE.

"tok" feeds hailtop.batch.batch.secret_alnum_string (job tokens, input roots) and "uid" feeds uuid4 in backend.py:
an int k names the k-th pool value (so two draws can collide), null is a fresh never-repeated value.
"""
from __future__ import annotations

import contextlib
import io
import json
import os
import pickle
import posixpath
import re
import shlex
import warnings

from vlib import hostenv
from vlib.runner import Result, known_signatures

PROPERTY = 'C18'
LEVEL = 'exploration'
RULE = ('DSL programs of 3-24 ops over Bash and Python jobs: read_input (local paths and gs:// URLs, names with spaces/quotes), '
        'read_input_group, declare_resource_group, add_extension, write_output, and commands assembled from literal '
        'fragments (alphabet: letters, digits, space, tab, newline, quotes, $, backslash, braces, |;&>/.-=) interleaved '
        'with references to own / other-job / input resources, optionally padded past 10 KiB; PythonJob.call(f, *args, '
        '**kwargs) with module-level functions of the check (builtins are generated too, see the notes) and arguments drawn '
        'from plain values, input files / groups, files / groups / group members of other jobs, PythonResults of other '
        'python jobs and of earlier calls of the same job, also nested in lists / tuples / dicts; results converted with '
        'any subset of as_str / as_repr / as_json (repeated calls included) and consumed by Bash commands, by other python '
        'jobs and by write_output; random names (job tokens, input roots incl. those of the pickled function / argument '
        'files, uuids) are drawn from the case. The program runs through the real Batch._async_run + '
        'ServiceBackend._async_run(wait=False) (incl. PythonJob._compile over a pickle-backed dill) against a recording '
        'fake batch client / fs. The oracle never calls _get_path: the local path of a resource is read back from the '
        'recorded command at the reference site; for python jobs the sites are the open(...) calls of the generated '
        'wrapper (result file, function file, argument file, one write per converted file) and the paths inside the '
        'uploaded, unpickled argument file. Non-trivial: >= 1 cross-job resource edge and (a resource group, an '
        'add_extension or a converted PythonResult); distinct by case.')
ASSUMPTIONS = [
    'ServiceBackend is built with object.__new__ and given remote_tmpdir/regions/billing project directly; the network '
    'boundary (AioBatchClient, RouterAsyncFS incl. the GCS cold-storage validation, copy_from_dict upload of local '
    'inputs, rich progress bars) is replaced by recorders; everything between the DSL call and create_job() is real',
    'leading/trailing whitespace removal of a command by the DSL is not counted as a change unless it removes a '
    'backslash-escaped character',
    'identifiers are Python identifiers, extensions start with ".", group templates have the form "{root}.<name>", so '
    'file names chosen by the user inside one job are distinct by construction; write_output of an input resource is '
    'only exercised for URL inputs',
    'dill is absent: vlib/hostenv.py serves a pickle-backed module of that name, so the callables handed to '
    'PythonJob.call are importable module-level functions of checks/c18.py (or builtins); lambdas, closures and async '
    'callables (which only real dill can serialize) are out of scope, and no python job is ever executed: the wrapper '
    'code is read, not run. The file names PythonJob picks for results, converted files and pickled function / argument '
    'files are not documented and not judged; that distinct resources get distinct paths is',
    'the resource model of a python job: every call() yields one PythonResult resource; as_str/as_repr/as_json yield '
    'one JobResourceFile each (a repeated call may return the same object; a different object is a further resource); '
    'one pickled function file per distinct callable per batch (may be shared by jobs) and one pickled argument file '
    'per call are internal input resources: each must be uploaded (fs.write) exactly where the job downloads it from, '
    'unpickle to the callable / to the arguments with every resource replaced by its local path, and share its '
    'local / remote path with no other resource',
    'documented file naming is part of the oracle: a job resource file is named <identifier><extension>, a group member '
    '<group root>.<member>, an input file keeps the source basename',
]
TRUSTED = ['program interpreter / expectation model and command parser in checks/c18.py', 'shlex.quote / shlex.split']

PATHS = ['data/hello.txt', '/abs/dir/hello.txt', 'gs://bkt/a/hello.txt', 'gs://bkt/b/hello.txt', 'gs://bkt/my file.vcf',
         'data/ref.fasta', 'gs://bkt2/ref.fasta.idx', "data/it's.txt", 'gs://bkt/dir/', 'gs://bkt/x$y.bin']
INNAMES = ['bed', 'bim', 'fam', 'fasta', 'fasta.idx']
NAMES = [None, None, 'align', 'my job', 'a/b', 'align']
IDENTS = ['ofile', 'out', 'tmp1', 'o2']
GNAMES = ['grp', 'bfile']
MEMBERS = ['bed', 'bim', 'fam', 'fa.idx', 'log']
EXTS = ['.txt', '.vcf.bgz', '.t x', ".q'"]
DESTS = ['gs://out/o1.txt', 'gs://out/dir/o2', 'gs://out/my out', 'gs://out/o1.txt', 'gs://out2/z']
REMOTE_TMPDIR = 'gs://tmp-bucket/scratch'
MARK = '${BATCH_TMPDIR}'
LIT_ALPHABET = ' abz019\t\n\'"$\\{}|;&>/.-='
BIG_PAD = ' #' + 'x' * 10300

PYIMAGE = 'hailgenetics/python-dill:3.11-slim'
VALUES = [0, 'abc', 2.5, None, True, 'two words', [1, 'x'], {'k': [1, 2]}, (1, ('y', 2))]
KWNAMES = ['x', 'path', 'opt']
HOWS = ['str', 'repr', 'json']
FORMATTERS = {'str': 'str', 'repr': 'repr', 'json.dumps': 'json'}
JOBFILE = ('jrf', 'mem', 'pyres', 'conv')           # files living in the scratch directory of the job that writes them
INPUTLIKE = ('in', 'inmem', 'pyfn', 'pyargs')       # files living under inputs/<random root>/


def py_pack(*args, **kwargs):
    return [list(args), kwargs]


def py_count(*args, **kwargs):
    return len(args) + len(kwargs)


def py_show(*args, **kwargs):
    return ' '.join([str(a) for a in args] + [f'{k}={v}' for k, v in sorted(kwargs.items())])


# callables for PythonJob.call: module-level functions (picklable by reference, inspect.getsource works) and builtins
FUNCS = [py_pack, py_count, py_show, print, repr]

# failure signatures that can be excluded by construction (guards) once they are listed as known findings
GUARDABLE = ('job-token-collision', 'input-root-collision', 'input-group-basename-collision',
             'extension-after-reference', 'reference-followed-by-digit', 'strip-eats-escaped-whitespace',
             'python-builtin-callable')
# reported, not (yet) listed in known_findings.json: excluded by construction in *every* shard until listed; once listed
# as known the usual regime applies (shards 0-3 re-demonstrate it, the others exclude it)
PENDING = ()        # (python-builtin-callable was repaired in /repo: fix commit 889808824)


# ------------------------------------------------------------------------------------------------ fakes

class FakeJob:
    def __init__(self, batch, kind, kw):
        self.batch, self.kind, self.kw = batch, kind, kw
        self.index = len(batch.jobs)
        self.job_id = self.index + 1
        self.id = (batch.id, self.job_id)
        self.batch_id = batch.id

    def __repr__(self):
        return f'<FakeJob {self.index}>'


class FakeBatch:
    id = 1

    def __init__(self, kw):
        self.kw = kw
        self.jobs = []
        self.submits = []

    def create_job(self, **kw):
        j = FakeJob(self, 'job', kw)
        self.jobs.append(j)
        return j

    def create_jvm_job(self, **kw):
        j = FakeJob(self, 'jvm', kw)
        self.jobs.append(j)
        return j

    async def submit(self, **kw):
        self.submits.append(kw)

    async def wait(self, **kw):
        return {'state': 'success'}


class FakeClient:
    def __init__(self):
        self.batches = []

    def create_batch(self, **kw):
        b = FakeBatch(kw)
        self.batches.append(b)
        return b

    async def close(self):
        pass


def _root_draw_counts(draws):
    out = {}
    for purpose, v in draws.log:
        if purpose == 'root':
            out[v] = out.get(v, 0) + 1
    return out


class FakeFS:
    def __init__(self):
        self.writes = {}
        self.yields = []       # generated: how often each storage call suspends (real storage calls are network round trips)
        self.yi = 0

    async def _suspend(self):
        import asyncio
        if self.yields:
            k = self.yields[self.yi % len(self.yields)]
            self.yi += 1
            for _ in range(k):
                await asyncio.sleep(0)

    async def _get_fs(self, uri):
        await self._suspend()
        return self

    async def makedirs(self, path, exist_ok=False):
        pass

    async def write(self, path, data):
        await self._suspend()
        self.writes[path] = data

    async def close(self):
        pass


class _Cache(dict):
    def __init__(self, fs):
        super().__init__()
        self.fs = fs

    def __missing__(self, k):
        return self.fs


class _NullBar:
    def __init__(self, *a, **k):
        pass

    def __enter__(self):
        return self

    def __exit__(self, *a):
        return False

    def update(self, *a, **k):
        pass


class Draws:
    """Source for secret_alnum_string / uuid4 draws: values come from the case."""

    def __init__(self):
        self.reset([], [])

    def reset(self, tok, uid, guards=frozenset()):
        self.tok, self.uid = list(tok), list(uid)
        self.ti = self.ui = 0
        self.fresh = 0
        self.purpose = 'root'
        self.guards = guards
        self.log = []            # (purpose, value) for every alnum draw
        self.used = {'job': set(), 'root': set()}
        self.excluded = 0

    def _fresh(self, n):
        self.fresh += 1
        return ('Z' + str(self.fresh).rjust(n - 1, '0'))[:max(n, 1)]

    def alnum(self, n=22, *, case=None):
        k = self.tok[self.ti] if self.ti < len(self.tok) else None
        self.ti += 1
        v = self._fresh(n) if k is None else ('T' + str(k).rjust(n - 1, '0'))
        guard = {'job': 'job-token-collision', 'root': 'input-root-collision'}[self.purpose]
        if v in self.used[self.purpose] and guard in self.guards:
            self.excluded += 1
            v = self._fresh(n)
        self.used[self.purpose].add(v)
        self.log.append((self.purpose, v))
        return v

    class _U:
        def __init__(self, hexs):
            self.hex = hexs

    def uuid4(self):
        k = self.uid[self.ui] if self.ui < len(self.uid) else None
        self.ui += 1
        if k is None:
            self.fresh += 1
            h = f'f{self.fresh:05x}'
        else:
            h = f'{k:06x}'
        return Draws._U((h * 6)[:32])


class Session:
    """Process-wide fake ServiceBackend; patches the randomness / network names inside hailtop.batch modules."""

    def __init__(self):
        hostenv.install()
        import hailtop.batch as hb
        import hailtop.batch.backend as backend_mod
        import hailtop.batch.batch as batch_mod
        from hailtop.batch.exceptions import BatchException
        self.hb, self.backend_mod, self.batch_mod, self.BatchException = hb, backend_mod, batch_mod, BatchException
        self.draws = Draws()
        self.fs = FakeFS()
        self.client = FakeClient()
        self.uploads = []
        be = object.__new__(backend_mod.ServiceBackend)
        be._requester_pays_fses = _Cache(self.fs)
        be._ServiceBackend__fs = self.fs
        be._ServiceBackend__batch_client = self.client
        be._token = None
        be._billing_project = 'test'
        be.remote_tmpdir = REMOTE_TMPDIR
        be.regions = ['us-central1']
        be._closed = True          # nothing to close; keeps Backend.__del__ inert
        self.backend = be

        async def copy_from_dict(*, files, **kw):
            self.uploads.extend(files)

        class _Uuid:
            uuid4 = staticmethod(self.draws.uuid4)

        self._saved = [(backend_mod, 'copy_from_dict', backend_mod.copy_from_dict),
                       (backend_mod, 'track', backend_mod.track),
                       (backend_mod, 'SimpleCopyToolProgressBar', backend_mod.SimpleCopyToolProgressBar),
                       (backend_mod, 'uuid', backend_mod.uuid),
                       (batch_mod, 'secret_alnum_string', batch_mod.secret_alnum_string)]
        backend_mod.copy_from_dict = copy_from_dict
        backend_mod.track = lambda it, **kw: it
        backend_mod.SimpleCopyToolProgressBar = _NullBar
        backend_mod.uuid = _Uuid
        batch_mod.secret_alnum_string = self.draws.alnum

    def __enter__(self):
        return self

    def __exit__(self, *a):
        for mod, name, val in self._saved:
            setattr(mod, name, val)
        return False

    def fresh(self, case, guards):
        self.draws.reset(case.get('tok', []), case.get('uid', []), guards)
        self.fs.writes.clear()
        self.fs.yields = list(case.get('yields', []))
        self.fs.yi = 0
        del self.client.batches[:]
        del self.uploads[:]


# ------------------------------------------------------------------------------------------------ model

class MRes:
    """A file resource as the program sees it."""

    def __init__(self, rid, kind, job=None, ident=None, group=None, mname=None, path=None):
        self.rid, self.kind, self.job, self.ident, self.group, self.mname, self.path = rid, kind, job, ident, group, mname, path
        self.ext = ''
        self.obj = None
        self.sites_before_ext = 0
        self.locals = []           # (L, had_ext, job index, what) from reference sites
        self.dests = []

    def label(self):
        if self.kind == 'pyres':
            return f'job{self.job}.result{self.n}'
        if self.kind == 'conv':
            return f'job{self.job}.result{self.of.n}.as_{self.how}()' + (f'#{self.nth}' if self.nth > 1 else '')
        if self.kind == 'pyfn':
            return f'function-file({self.ident})'
        if self.kind == 'pyargs':
            return f'job{self.job}.call{self.n}.args-file'
        if self.kind == 'in':
            return f'input({self.path})'
        if self.kind == 'inmem':
            return f'ingroup{self.group.gid}.{self.mname}({self.path})'
        if self.kind == 'mem':
            return f'job{self.job}.{self.group.name}.{self.mname}'
        return f'job{self.job}.{self.ident}'

    def fname(self, with_ext=True):
        """documented file name"""
        if self.kind in ('in', 'inmem'):
            return posixpath.basename(self.path.rstrip('/'))
        base = self.ident if self.kind == 'jrf' else f'{self.group.name}.{self.mname}'
        return base + (self.ext if with_ext else '')


class MGrp:
    def __init__(self, gid, job, name):
        self.gid, self.job, self.name = gid, job, name
        self.members = {}
        self.obj = None
        self.roots = []            # (G, job index) from reference sites of the group itself
        self.dests = []

    def label(self):
        return f'job{self.job}.{self.name}' if self.job is not None else f'ingroup{self.gid}'


class MJob:
    def __init__(self, idx, name):
        self.idx, self.name = idx, name
        self.obj = None
        self.files = {}            # ident -> MRes
        self.file_list = []        # all file resources incl. group members, definition order (for "ext")
        self.groups = {}           # gname -> MGrp
        self.valid = []            # targets other jobs may reference, definition order
        self.mentioned = set()     # rids / ('g', gid) mentioned by this job's own commands
        self.cmds = []             # dict(pieces=[str|('ref', target, had_ext)], hazards=set(), big=bool)
        self.consumed = []         # targets from elsewhere referenced by this job
        self.token = None
        self.deps = set()
        self.py = False            # a PythonJob
        self.results = []          # PythonResults (MRes 'pyres'), call order
        self.calls = []            # dict(res=MRes, fi=int, fobj=callable, builtin=bool, args=[model], kwargs={kw: model}, argres=MRes)
        self.internal = set()      # (remote, local) of the pickled function / argument files this job downloads


def _quote_ok(q):
    """-> the word if q is exactly shlex.quote(word) for one word, else None"""
    try:
        words = shlex.split(q)
    except ValueError:
        return None
    if len(words) != 1 or shlex.quote(words[0]) != q:
        return None
    return words[0]


# ------------------------------------------------------------------------------------------------ interpreter + oracle

def run_case(case, sess, guards=frozenset()):
    """-> (nontrivial, classes, failures, skipped_ops, excluded)

    A random-name collision or equal basenames inside an input group make several clauses fail at once (whichever sees
    the shared path first); such cases are reported under the signature of the cause so that signatures are stable."""
    sess.causes = []
    sess.excluded_builtin = 0
    nt, classes, fails, skipped, excluded = _run_case(case, sess, guards)
    if fails and sess.causes:
        keep = [f for f in fails if f[0] in GUARDABLE]
        other = [f for f in fails if f[0] not in GUARDABLE]
        if other:
            order = {s: i for i, s in enumerate(GUARDABLE)}
            sig, msg = sorted(sess.causes, key=lambda c: order[c[0]])[0]
            if not any(f[0] == sig for f in keep):
                keep.append((sig, 'distinct resources never share a path',
                             f'{msg}; observed: [{other[0][0]}] {other[0][2]}'))
        fails = keep
    return nt, classes, fails, skipped, excluded


def _run_case(case, sess, guards=frozenset()):
    hb = sess.hb
    BatchException = sess.BatchException
    sess.fresh(case, guards)
    draws = sess.draws
    fails = []
    classes = set()
    skipped = 0
    excluded = 0
    out = io.StringIO()

    def fail(sig, clause, msg):
        fails.append((sig, clause, msg))

    jobs, inputs, ingroups = [], [], []
    rid = [0]

    def new_res(*a, **k):
        rid[0] += 1
        return MRes(rid[0], *a, **k)

    gid = [0]
    any_group = any_ext = False
    roots_used = set()
    fnres = {}                 # index into FUNCS -> MRes 'pyfn' (one pickled function file per callable per batch)
    pyflags = set()
    builtin_calls = []

    def convert(res, how):
        """res.as_<how>(): the same object again is the same resource, a different object is a further resource"""
        obj = getattr(res.obj, 'as_' + how)()
        have = res.conv.setdefault(how, [])
        for c in have:
            if c.obj is obj:
                pyflags.add('python_conversion_repeated')
                return c
        c = new_res('conv', job=res.job)
        c.of, c.how, c.obj, c.nth = res, how, obj, len(have) + 1
        have.append(c)
        pj = jobs[res.job]
        pj.file_list.append(c)
        pj.valid.append(c)
        pj.mentioned.add(c.rid)
        return c

    def resolve(part, mj):
        k = part[0]
        if k == 'pyr':
            pys = [o for o in jobs if o.py and o.idx != mj.idx and o.results]
            if not pys:
                return None
            o = pys[part[1] % len(pys)]
            res = o.results[part[2] % len(o.results)]
            how = part[3]
            if how is None:
                if mj.py:
                    return res
                how = part[2]
            return convert(res, HOWS[how % len(HOWS)])
        if k == 'res':
            if not mj.py or not mj.results:
                return None
            res = mj.results[part[1] % len(mj.results)]
            return res if part[2] is None else convert(res, HOWS[part[2] % len(HOWS)])
        if mj.py and k in ('own', 'owng'):
            return None
        t = _resolve(part, mj, jobs, inputs, ingroups, new_res)
        if not mj.py and isinstance(t, MRes) and t.kind == 'pyres':
            # a command cannot name a PythonResult (documented BatchException); the documented route is a converted file
            t = convert(t, HOWS[part[2] % len(HOWS)])
        return t

    def target(part, mj):
        """resolve + the no-cycle precondition; registers the dependency"""
        t = resolve(part, mj)
        if t is not None and t.job is not None and t.job != mj.idx and _reaches(jobs, t.job, mj.idx):
            t = None           # would close a dependency cycle (C17's subject)
        if t is not None and t.job is not None and t.job != mj.idx:
            mj.deps.add(t.job)
        return t

    def build_arg(a, mj, leaves, depth=0):
        """symbolic python argument -> (model, actual object) or None"""
        nonlocal skipped
        k = a[0]
        if k == 'val':
            v = VALUES[a[1] % len(VALUES)]
            return ('val', v), v
        if k in ('lst', 'tup'):
            built = [x for x in (build_arg(e, mj, leaves, depth + 1) for e in a[1]) if x is not None] if depth < 2 else []
            models, actual = [m for m, _ in built], [o for _, o in built]
            pyflags.add('python_arg_nested')
            return (k, models), (actual if k == 'lst' else tuple(actual))
        if k == 'dct':
            models, actual = {}, {}
            for kw, e in (a[1] if depth < 2 else []):
                name = KWNAMES[kw % len(KWNAMES)]
                if name in models:
                    continue
                x = build_arg(e, mj, leaves, depth + 1)
                if x is not None:
                    models[name], actual[name] = x
            pyflags.add('python_arg_nested')
            return ('dct', models), actual
        t = target(a, mj)
        if t is None:
            skipped += 1
            return None
        leaves.append(t)
        return ('res', t), t.obj

    with warnings.catch_warnings(), contextlib.redirect_stdout(out):
        warnings.simplefilter('ignore')
        b = hb.Batch(backend=sess.backend, default_python_image=PYIMAGE if case.get('pyimg') else None)
        try:
            for op in case['ops']:
                kind = op[0]
                bash = [j for j in jobs if not j.py]
                pys = [j for j in jobs if j.py]
                if kind == 'input':
                    r = new_res('in', path=PATHS[op[1] % len(PATHS)])
                    draws.purpose = 'root'
                    n_draws = len(draws.log)
                    r.obj = b.read_input(r.path)
                    # the root normally is the random string just drawn; if the code names it otherwise, read it off the resource
                    r.root = draws.log[-1][1] if len(draws.log) > n_draws else posixpath.dirname(str(r.obj._value)).split('/')[-1]
                    if r.root in roots_used:
                        sess.causes.append(('input-root-collision',
                                            f'read_input({r.path!r}) drew root {r.root!r}, already used by an earlier input: '
                                            f'Batch._new_input_resource_file does not check uniqueness'))
                    roots_used.add(r.root)
                    inputs.append(r)
                elif kind == 'ingroup':
                    members = {}
                    for n, p in op[1]:
                        members[INNAMES[n % len(INNAMES)]] = PATHS[p % len(PATHS)]
                    if not members:
                        skipped += 1
                        continue
                    if 'input-group-basename-collision' in guards:
                        seen, keep = set(), {}
                        for n, p in members.items():
                            bn = posixpath.basename(p.rstrip('/'))
                            if bn in seen:
                                excluded += 1
                                continue
                            seen.add(bn)
                            keep[n] = p
                        members = keep
                    gid[0] += 1
                    g = MGrp(gid[0], None, None)
                    draws.purpose = 'root'
                    n_draws = len(draws.log)
                    g.obj = b.read_input_group(**members)
                    if len(draws.log) > n_draws:
                        g.root = draws.log[-1][1]
                    else:
                        any_member = next(iter(g.obj._resources.values()))
                        g.root = posixpath.dirname(str(any_member._value)).split('/')[-1]
                    if g.root in roots_used:
                        sess.causes.append(('input-root-collision',
                                            f'read_input_group drew root {g.root!r}, already used by an earlier input: '
                                            f'Batch.read_input_group does not check uniqueness'))
                    roots_used.add(g.root)
                    bns = [posixpath.basename(p.rstrip('/')) for p in members.values()]
                    if len(set(bns)) < len(bns):
                        sess.causes.append(('input-group-basename-collision',
                                            f'read_input_group(**{members}) places every member at <root>/<basename>, so '
                                            f'members with equal basenames share one local path'))
                    for n, p in members.items():
                        m = new_res('inmem', group=g, mname=n, path=p)
                        m.obj = g.obj[n]
                        g.members[n] = m
                    ingroups.append(g)
                    any_group = True
                elif kind == 'job':
                    name = NAMES[op[1] % len(NAMES)]
                    mj = MJob(len(jobs), name)
                    draws.purpose = 'job'
                    mj.obj = b.new_job(name=name) if len(jobs) % 2 == 0 else b.new_bash_job(name=name)
                    mj.token = draws.log[-1][1]
                    if any(o.token == mj.token and o.name == name for o in jobs):
                        sess.causes.append(('job-token-collision',
                                            f'two jobs named {name!r} both drew token {mj.token!r}: Batch._unique_job_token '
                                            f'never records the tokens it hands out, so both use scratch dir <name>-<token>'))
                    draws.purpose = 'root'
                    jobs.append(mj)
                elif kind == 'pyjob':
                    name = NAMES[op[1] % len(NAMES)]
                    mj = MJob(len(jobs), name)
                    mj.py = True
                    draws.purpose = 'job'
                    mj.obj = b.new_python_job(name=name)
                    if op[2]:
                        mj.obj.image(PYIMAGE)
                    mj.token = draws.log[-1][1]
                    if any(o.token == mj.token and o.name == name for o in jobs):
                        sess.causes.append(('job-token-collision',
                                            f'two jobs named {name!r} both drew token {mj.token!r}: Batch._unique_job_token '
                                            f'never records the tokens it hands out, so both use scratch dir <name>-<token>'))
                    draws.purpose = 'root'
                    jobs.append(mj)
                elif kind == 'call':
                    if not pys:
                        skipped += 1
                        continue
                    mj = pys[op[1] % len(pys)]
                    fi = op[2] % len(FUNCS)
                    builtin = not hasattr(FUNCS[fi], '__code__')
                    if builtin and 'python-builtin-callable' in guards:
                        excluded += 1
                        sess.excluded_builtin += 1
                        fi, builtin = fi % 3, False
                    fobj = FUNCS[fi]
                    leaves = []
                    # builtins are called the way their signatures allow (call() binds the arguments and refuses otherwise):
                    # print(*values), repr(one_object); no harness keyword arguments
                    arg_specs = (list(op[3][:1]) or [['val', 0]]) if fobj is repr else op[3]
                    built = [x for x in (build_arg(a, mj, leaves) for a in arg_specs) if x is not None]
                    if fobj is repr and not built:
                        built = [build_arg(['val', 0], mj, leaves)]
                    kmodels, kactual = {}, {}
                    for kw, a in ([] if builtin else op[4]):
                        kwname = KWNAMES[kw % len(KWNAMES)]
                        if kwname in kmodels:
                            continue
                        x = build_arg(a, mj, leaves)
                        if x is not None:
                            kmodels[kwname], kactual[kwname] = x
                    r = new_res('pyres', job=mj.idx)
                    r.n = len(mj.results) + 1
                    r.conv = {}
                    r.obj = mj.obj.call(fobj, *[o for _, o in built], **kactual)
                    mj.results.append(r)
                    mj.file_list.append(r)
                    mj.valid.append(r)
                    mj.mentioned.add(r.rid)
                    for t in leaves:
                        if t.job == mj.idx:
                            pyflags.add('python_result_reused_in_job')
                            continue
                        mj.consumed.append(t)
                        if isinstance(t, MGrp):
                            pyflags.add('python_arg_resource_group')
                        elif t.kind == 'pyres':
                            pyflags.add('python_result_consumed_by_python')
                        elif t.kind == 'conv':
                            pyflags.add('python_converted_consumed_by_python')
                        elif t.kind in ('in', 'inmem'):
                            pyflags.add('python_arg_input')
                        else:
                            pyflags.add('python_arg_job_file')
                    if fi not in fnres:
                        fnres[fi] = new_res('pyfn', ident=fobj.__name__)
                    argres = new_res('pyargs', job=mj.idx)
                    argres.n = r.n
                    mj.calls.append(dict(res=r, fi=fi, fobj=fobj, builtin=builtin, args=[m for m, _ in built],
                                         kwargs=kmodels, argres=argres))
                    if builtin:
                        builtin_calls.append((mj.idx, fobj.__name__))
                    if kmodels:
                        pyflags.add('python_call_kwargs')
                elif kind == 'conv':
                    mj = pys[op[1] % len(pys)] if pys else None
                    if mj is None or not mj.results:
                        skipped += 1
                        continue
                    convert(mj.results[op[2] % len(mj.results)], HOWS[op[3] % len(HOWS)])
                elif kind == 'declare':
                    if not bash:
                        skipped += 1
                        continue
                    mj = bash[op[1] % len(bash)]
                    gname = GNAMES[op[2] % len(GNAMES)]
                    mnames = []
                    for m in op[3]:
                        mn = MEMBERS[m % len(MEMBERS)]
                        if mn not in mnames:
                            mnames.append(mn)
                    if gname in mj.groups or not mnames:
                        skipped += 1
                        continue
                    gid[0] += 1
                    g = MGrp(gid[0], mj.idx, gname)
                    mj.obj.declare_resource_group(**{gname: {mn: '{root}.' + mn for mn in mnames}})
                    g.obj = mj.obj[gname]
                    for mn in mnames:
                        m = new_res('mem', job=mj.idx, group=g, mname=mn)
                        m.obj = g.obj[mn]
                        g.members[mn] = m
                        mj.file_list.append(m)
                    mj.groups[gname] = g
                    mj.valid.append(g)
                    mj.valid.extend(g.members.values())
                    any_group = True
                elif kind == 'cmd':
                    if not bash:
                        skipped += 1
                        continue
                    mj = bash[op[1] % len(bash)]
                    parts = []
                    for part in op[2]:
                        if isinstance(part, str):
                            parts.append(part)
                            continue
                        t = target(part, mj)
                        if t is None:
                            skipped += 1
                            continue
                        parts.append(('ref', t))
                    if op[3]:
                        parts.append(BIG_PAD)
                    # merge adjacent literals
                    merged = []
                    for p in parts:
                        if isinstance(p, str) and merged and isinstance(merged[-1], str):
                            merged[-1] += p
                        else:
                            merged.append(p)
                    parts = merged
                    hazards = set()
                    if 'reference-followed-by-digit' in guards:
                        for i in range(1, len(parts)):
                            if isinstance(parts[i], str) and parts[i][:1].isdigit() and not isinstance(parts[i - 1], str):
                                parts[i] = ' ' + parts[i]
                                excluded += 1
                    if 'strip-eats-escaped-whitespace' in guards and parts and isinstance(parts[-1], str):
                        s = parts[-1]
                        t = s.rstrip()
                        if s != t and _odd_backslashes(t):
                            while _odd_backslashes(t):
                                t = t[:-1].rstrip()
                            parts[-1] = t + ' '
                            excluded += 1
                    for i in range(1, len(parts)):
                        if isinstance(parts[i], str) and parts[i][:1].isdigit() and not isinstance(parts[i - 1], str):
                            hazards.add('reference-followed-by-digit')
                    text = ''.join(p if isinstance(p, str) else _uid(p[1]) for p in parts)
                    if text.strip() == '':
                        # documented: empty commands are ignored (with a warning)
                        mj.obj.command(text)
                        skipped += 1
                        continue
                    if isinstance(parts[-1], str) and parts[-1] != parts[-1].rstrip() and \
                            _odd_backslashes(text.rstrip()):
                        hazards.add('strip-eats-escaped-whitespace')
                    try:
                        mj.obj.command(text)
                    except BatchException as e:
                        if 'reference-followed-by-digit' in hazards:
                            fail('reference-followed-by-digit', 'every resource reference in a command is replaced by its path',
                                 f'command {text!r}: a reference immediately followed by a digit is read as a different '
                                 f'resource uid -> {e}')
                        else:
                            fail('command-rejected', 'a command referencing defined resources is accepted',
                                 f'command {text!r} raised BatchException: {e}')
                        return False, sorted(classes), fails, skipped, excluded + draws.excluded
                    pieces = []
                    for p in parts:
                        if isinstance(p, str):
                            pieces.append(p)
                        else:
                            t = p[1]
                            pieces.append(('ref', t, t.ext if isinstance(t, MRes) else None))
                            if isinstance(t, MRes):
                                if t.job == mj.idx:
                                    mj.mentioned.add(t.rid)
                                    if t.kind == 'jrf' and t not in mj.valid:
                                        mj.valid.append(t)
                                    if t.ext == '':
                                        t.sites_before_ext += 1
                                else:
                                    mj.consumed.append(t)
                                    if t.kind == 'conv':
                                        pyflags.add('python_result_consumed_by_bash')
                                    if t.ext == '' and t.kind in ('jrf', 'mem'):
                                        t.sites_before_ext += 1
                            else:
                                if t.job == mj.idx:
                                    mj.mentioned.add(('g', t.gid))
                                else:
                                    mj.consumed.append(t)
                    mj.cmds.append(dict(pieces=pieces, hazards=hazards, big=bool(op[3]), text=text))
                elif kind == 'ext':
                    if not bash:
                        skipped += 1
                        continue
                    mj = bash[op[1] % len(bash)]
                    if not mj.file_list:
                        skipped += 1
                        continue
                    r = mj.file_list[op[2] % len(mj.file_list)]
                    if r.ext:
                        skipped += 1       # documented: BatchException on a second extension
                        continue
                    if r.sites_before_ext and 'extension-after-reference' in guards:
                        excluded += 1
                        continue
                    r.ext = EXTS[op[3] % len(EXTS)]
                    r.obj.add_extension(r.ext)
                    any_ext = True
                elif kind == 'write':
                    dest = DESTS[op[4] % len(DESTS)]
                    if op[1] == 'in':
                        if not inputs:
                            skipped += 1
                            continue
                        r = inputs[op[2] % len(inputs)]
                        if '://' not in r.path:
                            skipped += 1
                            continue
                        b.write_output(r.obj, dest)
                        r.dests.append(dest)
                    else:
                        if not jobs:
                            skipped += 1
                            continue
                        mj = jobs[op[2] % len(jobs)]
                        if not mj.valid:
                            skipped += 1
                            continue
                        t = mj.valid[op[3] % len(mj.valid)]
                        if isinstance(t, MRes) and t.rid not in mj.mentioned:
                            skipped += 1   # documented precondition: resource must be defined in the job's command
                            continue
                        b.write_output(t.obj, dest)
                        t.dests.append(dest)
                        if isinstance(t, MRes) and t.kind in ('pyres', 'conv'):
                            pyflags.add('python_result_written')
                else:
                    raise ValueError(f'unknown op {op!r}')
        except BatchException as e:
            fail('dsl-rejected', 'a well-formed program is accepted by the DSL', f'{type(e).__name__}: {e}')
            return False, sorted(classes), fails, skipped, excluded + draws.excluded

        if not jobs:
            return False, ['no_jobs'], fails, skipped, excluded + draws.excluded
        draws.purpose = 'root'     # run() draws further input roots: code.sh, pickled function / argument files
        try:
            b.run(wait=False, disable_progress_bar=True)
        except Exception as e:
            import traceback
            tb = traceback.extract_tb(e.__traceback__)
            where = next((f'{os.path.basename(f.filename)}:{f.name}' for f in reversed(tb) if '/hailtop/' in f.filename), '?')
            if builtin_calls and isinstance(e, TypeError) and where == 'job.py:_compile' and \
                    any(f.name == 'getsource' for f in tb):
                ji, fname = builtin_calls[0]
                fail('python-builtin-callable', 'a well-formed program is submitted',
                     f'job {ji} calls the builtin {fname}: PythonJob.call accepts it (it even tolerates builtins without a '
                     f'readable signature) but run() raises from PythonJob._compile, which wants inspect.getsource of the '
                     f'callable for the user_code display -> {type(e).__name__}: {e}')
            else:
                fail(f'run-raised-{type(e).__name__}-{where}', 'a well-formed program is submitted',
                     f'run() raised {type(e).__name__}: {e}')
            return False, sorted(classes), fails, skipped, excluded + draws.excluded

    # ---------------------------------------------------------------- observations
    fb = sess.client.batches[-1]
    if len(fb.submits) != 1:
        fail('not-submitted', 'the batch is submitted once', f'submit calls: {fb.submits}')
    rec = {}
    for mj in jobs:
        cj = getattr(mj.obj, '_client_job', None)
        fj = getattr(cj, '_async_job', None)
        if not isinstance(fj, FakeJob) or fj not in fb.jobs:
            fail('job-not-submitted', 'every job is submitted', f'job {mj.idx} has no recorded create_job call')
            return False, sorted(classes), fails, skipped, excluded + draws.excluded
        rec[mj.idx] = fj
    if len({id(f) for f in rec.values()}) != len(rec):
        fail('job-submitted-twice', 'every job is submitted once', 'two DSL jobs share one recorded job')

    LT = None
    for mj in jobs:
        kw = rec[mj.idx].kw
        lt = (kw.get('env') or {}).get('BATCH_TMPDIR')
        if LT is None:
            LT = lt
        if not lt or lt != LT:
            fail('batch-tmpdir-env', 'BATCH_TMPDIR names the local scratch directory', f'job {mj.idx} env {kw.get("env")}')
            return False, sorted(classes), fails, skipped, excluded + draws.excluded

    # ---- parse every job's command: recover the local path at each reference site
    for mj in jobs:
        kw = rec[mj.idx].kw
        mj.inputs = [tuple(x) for x in (kw.get('input_files') or [])]
        mj.outputs = [tuple(x) for x in (kw.get('output_files') or [])]
        command = kw.get('command')
        if not (isinstance(command, list) and len(command) == 3 and command[1] == '-c'):
            fail('wrapper-unrecognised', 'user command can be located in the submitted command', f'command {command!r}')
            return False, sorted(classes), fails, skipped, excluded + draws.excluded
        lines = command[2].split('\n')
        if len(lines) < 6 or lines[0] != '' or not lines[1].startswith('set -e') or not lines[2].startswith('mkdir -p ') \
                or lines[-1] != '':
            fail('wrapper-unrecognised', 'user command can be located in the submitted command', f'command {command[2][:300]!r}')
            return False, sorted(classes), fails, skipped, excluded + draws.excluded
        mj.symlinks = lines[3]
        body = '\n'.join(lines[4:-1])
        if mj.py:
            _parse_python_job(mj, body, sess, fail, fnres, LT)
            continue
        if not mj.cmds:
            if body != '':
                fail('command-literal-changed', 'nothing else in the command changes',
                     f'job {mj.idx} has no command but body {body[:200]!r}')
            continue
        pieces = ['{\n']
        hazards = set()
        user = []
        for ci, c in enumerate(mj.cmds):
            hazards |= c['hazards']
            ps = list(c['pieces'])
            # DSL strips the command text
            if isinstance(ps[0], str):
                ps[0] = ps[0].lstrip() if len(ps) > 1 else ps[0].strip()
            if len(ps) > 1 and isinstance(ps[-1], str):
                ps[-1] = ps[-1].rstrip()
            user += ['{\n'] + ps + ['\n}'] + (['\n'] if ci + 1 < len(mj.cmds) else [])
        big = any(c['big'] for c in mj.cmds)
        code_t = None
        if big:
            code_paths = [p for p in sess.fs.writes if p.endswith('/code.sh')]
            mine = None
            for p in code_paths:
                if any(p == r for r, _ in mj.inputs):
                    mine = p
            if mine is None:
                fail('code-upload-missing', 'a long command is uploaded and read back as an input file',
                     f'job {mj.idx}: no uploaded code.sh among inputs {mj.inputs}; writes {sorted(sess.fs.writes)}')
                continue
            if not mine.startswith(REMOTE_TMPDIR + '/'):
                fail('remote-outside-tmpdir', 'temporary data lives under remote_tmpdir', f'code uploaded to {mine}')
            _match(mj, _flatten(user), sess.fs.writes[mine].decode(), fail, hazards, 'uploaded code.sh', LT)
            code_t = ('code', mine)
            wrapper = ['{\nchmod u+x ', ('ref', code_t, None), '\nsource ', ('ref', code_t, None), '\n}']
            _match(mj, _flatten(wrapper), body, fail, hazards, 'wrapper command', LT)
            if kw.get('user_code') is None:
                fail('user-code-missing', 'the user command is recorded', f'job {mj.idx} user_code is None')
        else:
            _match(mj, _flatten(pieces + user + ['\n}']), body, fail, hazards, 'command', LT)
        for h in sorted(hazards):
            if h == 'strip-eats-escaped-whitespace' and not any(f[0] == h for f in fails):
                c = next(c for c in mj.cmds if h in c['hazards'])
                fail(h, 'nothing else in the command changes',
                     f'command {c["text"]!r} ends in a backslash-escaped whitespace character; the DSL strips it, leaving '
                     f'a trailing backslash that joins the next wrapper line ("\\\\\\n}}")')

    if fails:
        return False, sorted(classes), fails, skipped, excluded + draws.excluded

    # ---- per-resource path facts
    all_res = list(inputs) + [m for g in ingroups for m in g.members.values()] + [r for mj in jobs for r in mj.file_list]
    all_res += [fnres[k] for k in sorted(fnres)] + [c['argres'] for mj in jobs for c in mj.calls]
    all_grp = list(ingroups) + [g for mj in jobs for g in mj.groups.values()]
    for g in all_grp:
        roots = sorted({G for G, _ in g.roots})
        if len(roots) > 1:
            fail('same-resource-different-paths', 'a resource has one local path', f'{g.label()}: {roots}')
        g.G = roots[0] if roots else None
    # which files are moved between jobs / written out (model only)
    transferred = set()
    for mj in jobs:
        mj.need = {}
        mj.producers = set()
        for t in mj.consumed:
            files = list(t.members.values()) if isinstance(t, MGrp) else \
                (list(t.group.members.values()) if t.group is not None else [t])
            for r in files:
                mj.need[r.rid] = r
                transferred.add(r.rid)
            if t.job is not None:
                mj.producers.add(t.job)
    for g in all_grp:
        if g.dests:
            transferred.update(m.rid for m in g.members.values())
    transferred.update(r.rid for r in all_res if r.dests)
    for r in all_res:
        seen = sorted({L for L, *_ in r.locals})
        with_ext = sorted({L for L, had, *_ in r.locals if had == r.ext})
        stale = sorted({L for L, had, *_ in r.locals if had != r.ext})
        if stale and (with_ext or r.rid in transferred):
            fail('extension-after-reference', 'a reference is replaced by the path the file is transferred at',
                 f'{r.label()}: referenced as {stale} before add_extension({r.ext!r}); later references'
                 f'{" " + str(with_ext) if with_ext else ""} and the upload/download use the renamed file, commands '
                 f'already interpolated keep the old name')
        elif len(seen) > 1 and r.kind != 'pyfn':    # (jobs may or may not share the pickled file of one callable)
            fail('same-resource-different-paths', 'a resource has one local path', f'{r.label()}: {seen}')
        r.L = with_ext[0] if with_ext else None
        for L, had, *_ in r.locals:
            # (the names PythonJob picks for results / converted / pickled files are not documented: not judged)
            want = r.fname(with_ext=False) + had if r.kind in ('jrf', 'mem') else r.fname() if r.kind in ('in', 'inmem') else None
            if want is not None and posixpath.basename(L) != want:
                sig = 'extension-dropped' if had and posixpath.basename(L) == r.fname(with_ext=False) else 'file-name'
                fail(sig, 'a resource file is named <identifier><extension> / keeps the input basename',
                     f'{r.label()}: local path {L!r}, expected file name {want!r}')
            if not L.startswith(LT + '/'):
                fail('local-outside-tmpdir', 'local paths live under BATCH_TMPDIR', f'{r.label()}: {L}')
    # group roots: members named in commands must sit at <root>.<member>
    for g in all_grp:
        if g.job is None:
            continue
        for m in g.members.values():
            for L, had, *_ in m.locals:
                suffix = '.' + m.mname + had
                if g.G is None and L.endswith(suffix):
                    g.G = L[:-len(suffix)]
                if g.G is not None and L != g.G + suffix:
                    fail('group-root', 'resource-group members share the group root',
                         f'{m.label()}: {L!r} is not {g.G + suffix!r}')
    if fails:
        return False, sorted(classes), fails, skipped, excluded + draws.excluded

    # ---- expected transfers
    def expected_local(r, tuples_local):
        """local path of file resource r, from reference sites or (group members) from the shared root"""
        if r.L is not None:
            return r.L
        if r.kind == 'mem' and r.group.G is not None:
            return r.group.G + '.' + r.mname + r.ext
        return None

    edges = 0
    for mj in jobs:
        kw = rec[mj.idx].kw
        need, producers = mj.need, mj.producers
        explained = 0
        mj.in_local = {}
        links = {}
        for piece in (mj.symlinks.split('; ') if mj.symlinks else []):
            try:
                w = shlex.split(piece)
            except ValueError:
                w = []
            if len(w) == 4 and w[:2] == ['ln', '-sf']:
                links[w[3]] = w[2]
        claimed = set()
        group_mentions = {t.gid for t in mj.consumed if isinstance(t, MGrp)}
        def loc(r):
            L = expected_local(r, None)
            if L is None and r.kind == 'inmem' and r.group.gid in group_mentions and r.group.G is not None:
                L = links.get(r.group.G + '.' + r.mname)     # the documented handle <group root>.<member>
            return L

        for r in sorted(need.values(), key=lambda r: (loc(r) is None, r.rid)):
            L = loc(r)
            if r.kind in ('in', 'inmem'):
                cands = [(R, Lx) for R, Lx in mj.inputs if (L is not None and Lx == L) or
                         (L is None and (R, Lx) not in claimed and posixpath.basename(Lx) == r.fname()
                          and (R == r.path or '://' not in r.path))]
                if L is None and r.kind == 'inmem' and len(cands) > 1:
                    # an unmentioned member of an input group: prefer the copy sitting next to a located sibling
                    dirs = {posixpath.dirname(mj.in_local[m.rid]) for m in r.group.members.values() if m.rid in mj.in_local}
                    cands.sort(key=lambda c: posixpath.dirname(c[1]) not in dirs)
                claimed.update(cands[:1])
                if not cands:
                    fail('consumer-input-missing', 'the consumer downloads every resource it reads',
                         f'job {mj.idx} reads {r.label()} (local {L}) but input_files = {mj.inputs}')
                    continue
                explained += 1
                R, Lx = cands[0]
                if '://' in r.path:
                    if R != r.path:
                        fail('input-url-changed', 'a URL input is downloaded from that URL', f'{r.label()}: from {R}')
                else:
                    if not R.startswith(REMOTE_TMPDIR + '/'):
                        fail('remote-outside-tmpdir', 'temporary data lives under remote_tmpdir', f'{r.label()}: {R}')
                    if {'from': r.path, 'to': R} not in sess.uploads:
                        fail('local-input-not-uploaded', 'a local input is uploaded to where the consumer downloads it',
                             f'{r.label()}: job {mj.idx} downloads {R}; uploads {sess.uploads}')
                    r.__dict__.setdefault('remotes', set()).add(R)
                r.__dict__.setdefault('in_locals', set()).add(Lx)
                mj.in_local[r.rid] = Lx
                continue
            # produced by another job
            edges += 1
            P = jobs[r.job]
            if L is None:
                fail('harness-no-path', 'harness', f'no local path known for {r.label()}')
                continue
            cands = [R for R, Lx in mj.inputs if Lx == L]
            if len(cands) != 1:
                fail('consumer-input-missing', 'the consumer downloads every resource it reads',
                     f'job {mj.idx} reads {r.label()} at {L} but input_files = {mj.inputs}')
                continue
            explained += 1
            R = cands[0]
            ups = [Rp for Lp, Rp in P.outputs if Lp == L and not (Rp in r.dests)]
            ups_all = [Rp for Lp, Rp in P.outputs if Lp == L]
            if R not in ups_all:
                other = [(Lp, Rp) for Lp, Rp in P.outputs if Rp == R]
                if other:
                    fail('producer-uploads-other-file', 'the producer uploads the file its command wrote',
                         f'{r.label()}: consumer job {mj.idx} downloads {R} -> {L}; producer job {P.idx} uploads {other}')
                else:
                    fail('remote-mismatch', 'the producer uploads to exactly the location the consumer downloads from',
                         f'{r.label()}: consumer job {mj.idx} downloads {R}; producer job {P.idx} uploads {L} to {ups} '
                         f'(output_files {P.outputs})')
            if not R.startswith(REMOTE_TMPDIR + '/'):
                fail('remote-outside-tmpdir', 'temporary data lives under remote_tmpdir', f'{r.label()}: {R}')
            r.__dict__.setdefault('remotes', set()).add(R)
        if len(mj.inputs) != len(set(mj.inputs)):
            fail('duplicate-transfer', 'each file is transferred once', f'job {mj.idx} input_files {mj.inputs}')
        n_code = (1 if any(c['big'] for c in mj.cmds) else 0) + len(mj.internal)
        if len(set(mj.inputs)) > explained + n_code and not fails:
            fail('unexpected-input', 'only the resources a job reads are downloaded',
                 f'job {mj.idx}: input_files {mj.inputs}; expected {[r.label() for r in need.values()]}')
        want_links = []
        for t in mj.consumed:
            if isinstance(t, MGrp) and t.job is None and t.G is None:
                # the group is only ever passed to python jobs (as a dict of member paths): its root shows in no command;
                # take it from the symlinks of this job if they agree on one
                roots = set()
                for n, m in t.members.items():
                    for dest, src in links.items():
                        if src == mj.in_local.get(m.rid) and dest.endswith('.' + n):
                            roots.add(dest[:-len(n) - 1])
                if len(roots) == 1:
                    t.G = roots.pop()
                elif not fails:
                    fail('input-group-symlinks', 'an input group is reachable as <group root>.<member>',
                         f'job {mj.idx} is handed {t.label()}; symlink line {mj.symlinks!r} names no common root')
        for t in mj.consumed:
            if isinstance(t, MGrp) and t.job is None and t.G is not None:
                for n, m in t.members.items():
                    if m.rid in mj.in_local:
                        ln = f'ln -sf {shlex.quote(mj.in_local[m.rid])} {shlex.quote(t.G + "." + n)}'
                        if ln not in want_links:
                            want_links.append(ln)
        got_links = mj.symlinks.split('; ') if mj.symlinks else []
        if sorted(got_links) != sorted(want_links) and not fails:
            fail('input-group-symlinks', 'an input group is reachable as <group root>.<member>',
                 f'job {mj.idx}: symlink line {mj.symlinks!r}; expected {want_links}')
        parents = kw.get('parents') or []
        want = {id(rec[p]) for p in producers}
        got = {id(p) for p in parents}
        missing = sorted(p for p in producers if id(rec[p]) not in got)
        if missing:
            fail('parent-missing', 'the consumer is submitted as a child of the producer',
                 f'job {mj.idx} consumes resources of jobs {missing} but parents = {parents}')
        elif got - want:
            fail('unexpected-parent', 'parents are exactly the producers', f'job {mj.idx}: parents {parents}, producers {sorted(producers)}')

    # external outputs
    for mj in jobs:
        targets = [t for t in mj.valid if t.dests]
        for t in targets:
            if isinstance(t, MGrp):
                for d in t.dests:
                    roots = None
                    for m in t.members.values():
                        dm = d + '.' + m.mname
                        L = expected_local(m, None)
                        suffix = '.' + m.mname + m.ext
                        hit = [Lp for Lp, Rp in mj.outputs if Rp == dm and
                               (Lp == L if L is not None else posixpath.basename(Lp) == m.fname())]
                        if not hit:
                            fail('external-output-missing', 'external outputs are uploaded by the producer to dest',
                                 f'{m.label()} ({L}) -> {dm}: output_files {mj.outputs}')
                            continue
                        rs = {Lp[:-len(suffix)] for Lp in hit}
                        roots = rs if roots is None else roots & rs
                    if roots is not None and not roots:
                        fail('group-root', 'resource-group members share the group root',
                             f'{t.label()} -> {d}: members uploaded from different roots: {mj.outputs}')
            else:
                L = expected_local(t, None)
                for d in t.dests:
                    if (L, d) not in mj.outputs:
                        fail('external-output-missing', 'external outputs are uploaded by the producer to dest',
                             f'{t.label()} ({L}) -> {d}: output_files {mj.outputs}')
        for Lp, Rp in mj.outputs:
            if not Lp.startswith(LT + '/'):
                fail('upload-from-outside-tmpdir', 'outputs are uploaded from the local scratch directory', f'job {mj.idx}: {(Lp, Rp)}')
    written_inputs = [(r, d) for r in inputs for d in r.dests]
    if written_inputs:
        wj = [f for f in fb.jobs if (f.kw.get('attributes') or {}).get('name') == 'write_external_inputs']
        got = []
        for f in wj:
            cmd = f.kw.get('command') or []
            if len(cmd) == 5 and cmd[:3] == ['python3', '-m', 'hailtop.aiotools.copy']:
                try:
                    got += [(x['from'], x['to']) for x in json.loads(cmd[4])]
                except Exception:
                    pass
        for r, d in written_inputs:
            if (r.path, d) not in got:
                fail('external-output-missing', 'written inputs are copied by the documented copy job',
                     f'{r.label()} -> {d}: copy job transfers {got}')

    # ---- distinct resources, distinct paths
    if not fails:
        loc = {}
        for r in all_res:
            Ls = set()
            L = expected_local(r, None)
            if L is not None:
                Ls.add(L)
            Ls |= r.__dict__.get('in_locals', set())
            for L in sorted(Ls):
                loc.setdefault(L, []).append(r)
        rem = {}
        for r in all_res:
            for R in r.__dict__.get('remotes', ()):
                rem.setdefault(R, []).append(r)
        for where, table in (('local', loc), ('remote', rem)):
            for pth, rs in sorted(table.items()):
                ids = {r.rid for r in rs}
                if len(ids) < 2:
                    continue
                rs = sorted({r.rid: r for r in rs}.values(), key=lambda r: r.rid)
                a, c = rs[0], rs[1]
                if a.kind in JOBFILE and c.kind in JOBFILE and a.job != c.job and \
                        jobs[a.job].token == jobs[c.job].token:
                    fail('job-token-collision', 'distinct resources never share a path',
                         f'{a.label()} and {c.label()} share {where} path {pth}: jobs {a.job} and {c.job} both got token '
                         f'{jobs[a.job].token!r} (Batch._unique_job_token never records the tokens it hands out)')
                elif a.kind == 'inmem' and c.kind == 'inmem' and a.group is c.group:
                    fail('input-group-basename-collision', 'distinct resources never share a path',
                         f'{a.label()} and {c.label()} share {where} path {pth}: members of one read_input_group with '
                         f'equal basenames are both placed at <root>/<basename>')
                elif a.kind in INPUTLIKE and c.kind in INPUTLIKE and \
                        any(v in pth.split('/') and n >= 2 for v, n in _root_draw_counts(draws).items()):
                    # the known finding is about two *random draws* that coincide (harness-controlled RNG); inputs that share a path
                    # although no drawn root occurred twice are a different defect and keep the generic signature below
                    fail('input-root-collision', 'distinct resources never share a path',
                         f'{a.label()} and {c.label()} share {where} path {pth}: same random root and basename')
                else:
                    fail('distinct-resources-share-path', 'distinct resources never share a path',
                         f'{a.label()} and {c.label()} share {where} path {pth}')

    if edges:
        classes.add('cross_job_edge')
    if any_group:
        classes.add('resource_group')
    if any_ext:
        classes.add('extension')
    if any(c['big'] for mj in jobs for c in mj.cmds):
        classes.add('big_command')
    if any(r.dests for r in all_res) or any(g.dests for g in all_grp):
        classes.add('write_output')
    if any(isinstance(t, MRes) and t.kind in ('in', 'inmem') and '://' not in t.path for mj in jobs for t in mj.consumed):
        classes.add('local_input')
    if any(isinstance(t, MGrp) and t.job is None for mj in jobs for t in mj.consumed):
        classes.add('input_group_symlinks')
    if any(q != w for mj in jobs for q, w in getattr(mj, 'quoted', [])):
        classes.add('path_needed_quoting')
    any_conv = False
    if any(mj.py for mj in jobs):
        classes.add('python_job')
        classes.update(pyflags)
        results = [r for mj in jobs for r in mj.results]
        if results:
            classes.add('python_call')
        if any(len(mj.results) > 1 for mj in jobs):
            classes.add('python_job_several_calls')
        any_conv = any(r.conv for r in results)
        if any_conv:
            classes.add('python_result_converted')
        if any(len(r.conv) >= 2 for r in results):
            classes.add('python_result_converted_twice')
        if any('str' in r.conv and 'repr' in r.conv for r in results):
            classes.add('python_result_as_str_and_as_repr')
        if len(fnres) > 1:
            classes.add('python_several_functions')
        users = {}
        for mj in jobs:
            for c in mj.calls:
                users.setdefault(c['fi'], set()).add(mj.idx)
        if any(len(u) > 1 for u in users.values()):
            classes.add('python_function_shared_by_jobs')
        if any(mj.py and not mj.calls for mj in jobs):
            classes.add('python_job_without_call')
    nontrivial = edges >= 1 and (any_group or any_ext or any_conv)
    return nontrivial, sorted(classes), fails, skipped, excluded + draws.excluded


_RE_OPEN = re.compile(r"open\('\$\{BATCH_TMPDIR\}([^\n]*?)', '(wb|rb|w)'\) as (\w+):(?:\n\s*out\.write\(([\w.]+)\(result\))?")


def _plain(v):
    """how a plain argument travels inside the pickled argument file (documented: containers are searched for resources)"""
    if isinstance(v, list):
        return ('list', [_plain(e) for e in v])
    if isinstance(v, tuple):
        return ('tuple', tuple(_plain(e) for e in v))
    if isinstance(v, dict):
        return ('dict', {k: _plain(e) for k, e in v.items()})
    return ('value', v)


def _walk_arg(model, got, mj, bad):
    """compare one pickled argument with the model; resource leaves are reference sites (local path recorded)"""
    k = model[0]
    if not (isinstance(got, tuple) and len(got) == 2):
        return bad(f'{got!r} is not a (tag, value) pair')
    tag, val = got
    if k == 'val':
        if got != _plain(model[1]) or repr(got) != repr(_plain(model[1])):
            bad(f'plain value {model[1]!r} travels as {got!r}')
    elif k == 'res':
        t = model[1]
        if isinstance(t, MGrp):
            if tag != 'dict_path' or not isinstance(val, dict) or sorted(val) != sorted(t.members) or \
                    not all(isinstance(x, str) for x in val.values()):
                return bad(f'resource group {t.label()} travels as {got!r}')
            for n, m in t.members.items():
                m.locals.append((val[n], m.ext, mj.idx, 'python arguments'))
        else:
            if tag != ('py_path' if t.kind == 'pyres' else 'path') or not isinstance(val, str):
                return bad(f'{t.label()} travels as {got!r}')
            t.locals.append((val, t.ext, mj.idx, 'python arguments'))
    elif k in ('lst', 'tup'):
        if tag != {'lst': 'list', 'tup': 'tuple'}[k] or type(val) is not {'lst': list, 'tup': tuple}[k] or \
                len(val) != len(model[1]):
            return bad(f'{k} of {len(model[1])} travels as {got!r}')
        for m, g in zip(model[1], val):
            _walk_arg(m, g, mj, bad)
    else:
        if tag != 'dict' or not isinstance(val, dict) or list(val) != list(model[1]):
            return bad(f'dict with keys {list(model[1])} travels as {got!r}')
        for n, m in model[1].items():
            _walk_arg(m, val[n], mj, bad)


def _parse_python_job(mj, body, sess, fail, fnres, LT):
    """Reference sites of a python job: the open(...) calls of each generated wrapper and the pickled argument file."""
    if not mj.calls:
        if body != '':
            fail('command-literal-changed', 'nothing else in the command changes',
                 f'python job {mj.idx} has no call but body {body[:200]!r}')
        return
    if not (body.startswith('{\n') and body.endswith('\n}')):
        fail('wrapper-unrecognised', 'user command can be located in the submitted command', f'python job body {body[:300]!r}')
        return
    chunks = body[2:-2].split('\n} && {\n')
    if len(chunks) != len(mj.calls):
        fail('python-call-count', 'every call of a python job is submitted',
             f'job {mj.idx}: {len(mj.calls)} call(s) but {len(chunks)} wrapper(s)')
        return
    for call, chunk in zip(mj.calls, chunks):
        res = call['res']
        what = f'job {mj.idx} call {res.n}'
        sites = {'dill_out': [], 'func_file': [], 'arg_file': [], 'out': []}
        found = _RE_OPEN.findall(chunk)
        if chunk.count(MARK) != len(found) or not chunk.startswith('python3 -c "') or not chunk.endswith('"'):
            fail('reference-count', 'every resource reference is replaced by its quoted local path',
                 f'{what}: wrapper names {chunk.count(MARK)} scratch paths, {len(found)} of them in recognised open() calls: '
                 f'{chunk[-700:]!r}')
            return
        for q, mode, var, fmt in found:
            w = _quote_ok(q)
            if w is None:
                fail('reference-not-quoted-path', 'every resource reference is replaced by its quoted local path',
                     f'{what}: open({MARK + q!r})')
                return
            mj.__dict__.setdefault('quoted', []).append((q, w))
            if var not in sites or mode != {'dill_out': 'wb', 'func_file': 'rb', 'arg_file': 'rb', 'out': 'w'}[var] or \
                    (var == 'out') != bool(fmt) or (fmt and fmt not in FORMATTERS):
                fail('wrapper-unrecognised', 'user command can be located in the submitted command',
                     f'{what}: open(..., {mode!r}) as {var} {fmt}')
                return
            sites[var].append((LT + w, fmt))
        if not (len(sites['dill_out']) == len(sites['func_file']) == len(sites['arg_file']) == 1):
            fail('wrapper-unrecognised', 'user command can be located in the submitted command', f'{what}: sites {sites}')
            return
        res.locals.append((sites['dill_out'][0][0], res.ext, mj.idx, 'python wrapper'))
        # converted files: one write with the right formatter per converted resource
        outs = {}
        for L, fmt in sites['out']:
            outs.setdefault(FORMATTERS[fmt], []).append(L)
        for how in HOWS:
            convs, got = res.conv.get(how, []), outs.get(how, [])
            if len(convs) != len(got):
                fail('python-conversion-missing' if len(got) < len(convs) else 'python-conversion-unexpected',
                     'the producing job writes each converted file of a PythonResult (and nothing else)',
                     f'{what}: {[c.label() for c in convs]} but the wrapper writes {how}(result) to {got}')
                continue
            for c, L in zip(convs, got):
                c.locals.append((L, c.ext, mj.idx, 'python wrapper'))
        # internal input files: uploaded exactly where this job downloads them from, with the right content
        for r, (L, _), role in ((fnres[call['fi']], sites['func_file'][0], 'function'), (call['argres'], sites['arg_file'][0], 'arguments')):
            r.locals.append((L, r.ext, mj.idx, 'python wrapper'))
            cands = [R for R, Lx in mj.inputs if Lx == L]
            if len(cands) != 1:
                fail('consumer-input-missing', 'the consumer downloads every resource it reads',
                     f'{what} opens its pickled {role} at {L} but input_files = {mj.inputs}')
                continue
            R = cands[0]
            mj.internal.add((R, L))
            r.__dict__.setdefault('remotes', set()).add(R)
            r.__dict__.setdefault('in_locals', set()).add(L)
            if not R.startswith(REMOTE_TMPDIR + '/'):
                fail('remote-outside-tmpdir', 'temporary data lives under remote_tmpdir', f'{r.label()}: {R}')
            data = sess.fs.writes.get(R)
            if data is None:
                fail('python-file-not-uploaded', 'the producer uploads to exactly the location the consumer downloads from',
                     f'{what} downloads its pickled {role} from {R}; uploaded: {sorted(sess.fs.writes)}')
                continue
            try:
                obj = pickle.loads(data)
            except Exception as e:
                fail('python-file-content', 'python callables and arguments are passed unchanged', f'{r.label()} at {R}: {e!r}')
                continue
            if role == 'function':
                if obj is not call['fobj']:
                    fail('python-file-content', 'python callables and arguments are passed unchanged',
                         f'{what} calls {call["fobj"].__name__} but {R} holds {obj!r}')
                continue
            msgs = []
            if not (isinstance(obj, tuple) and len(obj) == 2 and isinstance(obj[0], list) and isinstance(obj[1], dict)
                    and len(obj[0]) == len(call['args']) and list(obj[1]) == list(call['kwargs'])):
                msgs.append(f'shape {obj!r}')
            else:
                for m, g in zip(call['args'], obj[0]):
                    _walk_arg(m, g, mj, msgs.append)
                for n, m in call['kwargs'].items():
                    _walk_arg(m, obj[1][n], mj, msgs.append)
            if msgs:
                fail('python-args-changed', 'python arguments are passed unchanged, every resource as its local path',
                     f'{what}: {msgs[0]} (argument file {R})')


def _reaches(jobs, a, b):
    """does job a (transitively) depend on job b?"""
    todo, seen = [a], set()
    while todo:
        x = todo.pop()
        if x == b:
            return True
        if x not in seen:
            seen.add(x)
            todo.extend(jobs[x].deps)
    return False


def _odd_backslashes(s):
    n = 0
    while n < len(s) and s[-1 - n] == '\\':
        n += 1
    return n % 2 == 1


def _uid(t):
    return str(t.obj) if isinstance(t, MRes) else str(t.obj)


def _flatten(pieces):
    out = []
    for p in pieces:
        if isinstance(p, str) and out and isinstance(out[-1], str):
            out[-1] += p
        else:
            out.append(p)
    return out


def _resolve(part, mj, jobs, inputs, ingroups, new_res):
    """symbolic reference -> model target (MRes / MGrp) or None when its precondition does not hold"""
    k = part[0]
    if k == 'own':
        ident = IDENTS[part[1] % len(IDENTS)]
        r = mj.files.get(ident)
        if r is None:
            r = new_res('jrf', job=mj.idx, ident=ident)
            r.obj = mj.obj[ident]
            mj.files[ident] = r
            mj.file_list.append(r)
        return r
    if k == 'owng':
        gs = list(mj.groups.values())
        if not gs:
            return None
        g = gs[part[1] % len(gs)]
        if part[2] is None:
            return g
        ms = list(g.members.values())
        return ms[part[2] % len(ms)]
    if k == 'in':
        return inputs[part[1] % len(inputs)] if inputs else None
    if k == 'ing':
        if not ingroups:
            return None
        g = ingroups[part[1] % len(ingroups)]
        if part[2] is None:
            return g
        ms = list(g.members.values())
        return ms[part[2] % len(ms)]
    if k == 'oth':
        if len(jobs) < 2:
            return None
        o = jobs[(mj.idx + 1 + part[1] % (len(jobs) - 1)) % len(jobs)]
        if not o.valid:
            return None
        return o.valid[part[2] % len(o.valid)]
    raise ValueError(f'unknown reference {part!r}')


def _match(mj, pieces, text, fail, hazards, what, LT):
    """Compare `text` with literal pieces / reference slots; record the local path found at each slot."""
    nref = sum(1 for p in pieces if not isinstance(p, str))
    segs = text.split(MARK)
    haz = 'reference-followed-by-digit' if 'reference-followed-by-digit' in hazards else None
    if len(segs) != nref + 1:
        fail(haz or 'reference-count', 'every resource reference is replaced by its quoted local path',
             f'job {mj.idx} {what}: {nref} references but {len(segs) - 1} substituted paths in {text[:400]!r}')
        return None
    lits = []
    refs = []
    cur = ''
    for p in pieces:
        if isinstance(p, str):
            cur += p
        else:
            lits.append(cur)
            cur = ''
            refs.append(p)
    lits.append(cur)
    if segs[0] != lits[0]:
        fail(haz or 'command-literal-changed', 'nothing else in the command changes',
             f'job {mj.idx} {what}: expected literal {lits[0][-200:]!r}, found {segs[0][-200:]!r}')
        return None
    for i, ref in enumerate(refs):
        seg, lit = segs[i + 1], lits[i + 1]
        if not seg.endswith(lit):
            fail(haz or 'command-literal-changed', 'nothing else in the command changes',
                 f'job {mj.idx} {what}: after reference {i} expected literal {lit[:200]!r}, found {seg[-(len(lit) + 40):]!r}')
            return None
        q = seg[:len(seg) - len(lit)] if lit else seg
        w = _quote_ok(q)
        if w is None:
            fail(haz or 'reference-not-quoted-path', 'every resource reference is replaced by its quoted local path',
                 f'job {mj.idx} {what}: reference {i} became {MARK + q!r}')
            return None
        mj.__dict__.setdefault('quoted', []).append((q, w))
        t = ref[1]
        L = LT + w
        if isinstance(t, MGrp):
            t.roots.append((L, mj.idx))
        elif isinstance(t, MRes):
            t.locals.append((L, ref[2], mj.idx, what))
        else:  # ('code', remote path)
            if (t[1], L) not in mj.inputs:
                fail('code-upload-missing', 'a long command is uploaded and read back as an input file',
                     f'job {mj.idx}: wrapper sources {L}; input_files {mj.inputs}')
    return segs


# ------------------------------------------------------------------------------------------------ generation

def strategy():
    from hypothesis import strategies as st
    small = st.integers(0, 5)
    opt = st.one_of(st.none(), st.integers(0, 4))
    lit = st.one_of(
        st.text(alphabet=LIT_ALPHABET, min_size=0, max_size=6),
        st.sampled_from(['echo ', ' > ', ' && ', 'cat ', ' | wc -l ', ' ', '\n', '2', '.bed ', '\\ ', ' \\\n', '"', "'", '$x ', '{', '}']))
    ref = st.one_of(
        st.tuples(st.just('own'), small),
        st.tuples(st.just('own'), small),
        st.tuples(st.just('oth'), small, small),
        st.tuples(st.just('oth'), small, small),
        st.tuples(st.just('oth'), small, small),
        st.tuples(st.just('owng'), small, opt),
        st.tuples(st.just('in'), small),
        st.tuples(st.just('ing'), small, opt),
        st.tuples(st.just('pyr'), small, small, st.integers(0, 2)),
        st.tuples(st.just('pyr'), small, small, st.integers(0, 2)),
    ).map(list)
    parts = st.lists(st.one_of(lit, ref, ref), min_size=1, max_size=6)
    # python jobs
    # (leaves are enumerated, simplest first, and drawn with one choice each: operands are taken modulo the number of live
    # objects, so small ranges reach everything, and generation time is dominated by the number of draws)
    hows = [None, 0, 1, 2]
    leaf = st.one_of(
        st.sampled_from([['val', v] for v in range(len(VALUES))]),
        st.sampled_from([['val', v] for v in range(len(VALUES))]),
        st.sampled_from([['in', k] for k in range(3)] + [['ing', k, m] for k in range(2) for m in hows]),
        st.sampled_from([['oth', j, k] for j in range(4) for k in range(5)]),
        st.sampled_from([['oth', j, k] for j in range(4) for k in range(5)]),
        st.sampled_from([['pyr', j, k, h] for j in range(3) for k in range(3) for h in hows]),
        st.sampled_from([['pyr', j, k, h] for j in range(3) for k in range(3) for h in hows]),
        st.sampled_from([['res', k, h] for k in range(3) for h in hows]),
    )
    kwidx = st.integers(0, len(KWNAMES) - 1)
    arg = st.one_of(
        leaf, leaf, leaf, leaf,
        st.tuples(st.sampled_from(['lst', 'tup']), st.lists(leaf, max_size=3)).map(list),
        st.tuples(st.just('dct'), st.lists(st.tuples(kwidx, leaf).map(list), max_size=2)).map(list),
    )
    func = st.sampled_from([0, 0, 0, 0, 0, 1, 1, 1, 1, 1, 2, 2, 2, 2, 3, 4])
    args = st.lists(arg, max_size=3)
    kwargs = st.lists(st.tuples(kwidx, arg).map(list), max_size=2)
    call = st.tuples(st.just('call'), small, func, args, kwargs)
    conv = st.tuples(st.just('conv'), small, small, st.integers(0, 2))
    pyjob = st.tuples(st.just('pyjob'), small, st.integers(0, 1))
    big = st.sampled_from([0] * 24 + [1])
    input_op = st.tuples(st.just('input'), st.integers(0, len(PATHS) - 1)).map(list)
    ingroup_op = st.tuples(st.just('ingroup'), st.lists(st.tuples(st.integers(0, 4), st.integers(0, len(PATHS) - 1)).map(list),
                                                        min_size=1, max_size=3)).map(list)
    declare = st.tuples(st.just('declare'), small, st.integers(0, 1), st.lists(st.integers(0, 4), min_size=1, max_size=3))
    cmd = st.tuples(st.just('cmd'), small, parts, big)
    op = st.one_of(
        input_op, ingroup_op,
        st.tuples(st.just('job'), small),
        declare,
        cmd, cmd, cmd, cmd,
        st.tuples(st.just('ext'), small, small, st.integers(0, len(EXTS) - 1)),
        st.tuples(st.just('ext'), small, small, st.integers(0, len(EXTS) - 1)),
        st.tuples(st.just('write'), st.sampled_from(['job', 'job', 'job', 'in']), small, small, st.integers(0, len(DESTS) - 1)),
        pyjob, call, call, conv, conv,
    ).map(list)
    draw_v = st.sampled_from([None] * 10 + [0, 1])

    @st.composite
    def programs(draw):
        ops = list(draw(st.lists(st.one_of(input_op, ingroup_op), max_size=2)))
        nj = draw(st.integers(1, 4))
        nb = npy = 0               # "cmd"/"declare" count Bash jobs, "call"/"conv" count python jobs
        for _ in range(nj):
            if draw(st.integers(0, 2)) == 0:
                ops.append(['pyjob', draw(small), draw(st.integers(0, 1))])
                for c in range(draw(st.sampled_from([0, 1, 1, 1, 2]))):
                    ops.append(['call', npy, draw(func), draw(args), draw(kwargs)])
                    for h in draw(st.lists(st.integers(0, 2), max_size=3)):
                        ops.append(['conv', npy, c, h])
                npy += 1
                continue
            ops.append(['job', draw(small)])
            if draw(st.integers(0, 3)) == 0:
                ops.append(['declare', nb, draw(st.integers(0, 1)), draw(st.lists(st.integers(0, 4), min_size=1, max_size=3))])
            if draw(st.integers(0, 5)) > 0:
                first = [draw(lit), ['own', draw(small)]] + draw(st.lists(st.one_of(lit, ref, ref), max_size=4))
                ops.append(['cmd', nb, first, draw(big)])
            nb += 1
        ops += draw(st.lists(op, max_size=8))
        case = {'tok': draw(st.lists(draw_v, max_size=8)), 'uid': draw(st.lists(draw_v, max_size=4)), 'ops': ops}
        if draw(st.integers(0, 2)) == 0:
            # storage calls suspend: the compile / upload tasks of ServiceBackend._async_run interleave under a generated schedule
            case['yields'] = draw(st.lists(st.integers(0, 2), min_size=1, max_size=6))
        if npy or any(o[0] == 'pyjob' for o in ops):
            case['pyimg'] = draw(st.integers(0, 1))
        return case

    return programs()


def plan(tier):
    n = 1000 if tier == 'quick' else 25000
    # shards 0-3 search the whole domain (and re-find known findings); the others exclude, by construction, the
    # triggering steps of findings listed as known so the search continues behind them
    return [dict(kind='hyp', n=n, guarded=(i >= 4)) for i in range(16)]


def _guards(spec):
    env = os.environ.get('VERIF_C18_GUARD')
    if env is not None:
        return frozenset(GUARDABLE if env == 'all' else [s for s in env.split(',') if s])
    known = known_signatures(PROPERTY)
    pending = frozenset(s for s in PENDING if s not in known)
    if not spec.get('guarded'):
        return pending
    return frozenset(s for s in known if s in GUARDABLE) | pending


def run_shard(spec, seed, tier):
    from vlib.hyp import search
    res = Result()
    guards = _guards(spec)
    with Session() as sess:
        def chk(case):
            nt, cls, fl, skipped, excluded = run_case(case, sess, guards)
            res.skipped_ops += skipped
            if excluded:
                res.notes['excluded_steps'] = res.notes.get('excluded_steps', 0) + excluded
            nb = sess.excluded_builtin
            if nb:
                res.notes['excluded_builtin_callables'] = res.notes.get('excluded_builtin_callables', 0) + nb
            return nt, cls, fl

        search(res, PROPERTY, strategy(), chk, spec['n'], seed, max_rounds=10)
    return res


def replay(case):
    with Session() as sess:
        nt, cls, fl, _, _ = run_case(case, sess)
    return [dict(signature=s, clause=c, message=m, case=case) for s, c, m in fl]
