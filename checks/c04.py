"""C04 — jobs follow the lifecycle and complete at most once."""
from vlib.batchsim import histcheck as H, oracle as O

PROPERTY = 'C04'
LEVEL = 'exploration'
RULE = ('Hypothesis-generated histories (see C01) weighted towards worker messages: duplicated / late completions, completions for '
        'Pending and already-terminal jobs, started/complete with stale or brand-new attempt ids, racing second schedule calls, '
        'unschedule, deactivation, scheduler and canceller loop bodies. After every op, for every job the (old, new) state pair must '
        'be in the allowed lifecycle relation (terminal absorbing, Pending never jumps) -- observed at every transaction boundary, because '
        'one loop-body op runs many transactions -- and for every job group '
        'job_groups_n_jobs_in_complete_states == counts of terminal jobs in its subtree (so a job is tallied exactly once). '
        'A complete / started / unschedule message naming an attempt other than the job\'s current attempt must leave the job row\'s state and attempt unchanged. Non-trivial: a duplicated completion, or a completion/start for a non-current attempt, or a completion after the job is terminal.')
ASSUMPTIONS = ['serializable at transaction granularity on minimysql', 'state observed after each op, not inside a transaction']
TRUSTED = ['vlib/minimysql', 'vlib/batchsim', 'vlib/batchsim/oracle.py']


def step(w, prev, cur, op, res):
    f = O.check_terminal_absorbing(prev, cur) or O.check_tallies(cur)
    if f:
        return f
    # stale-attempt messages: a worker / driver message that names an attempt other than the job's current one never moves the job
    # ("a Creating or Running job may fall back to Ready when ITS attempt is withdrawn"; mark_job_complete / unschedule_job /
    # mark_job_started attempt-id checks).  A job without a current attempt (Ready) may be completed by a late report.
    if op[0] in ('complete', 'started', 'unschedule') and res.get('job') is not None and res.get('attempt_id') is not None:
        k = tuple(res['job'])
        pj, cj = prev.jobs.get(k), cur.jobs.get(k)
        if pj is not None and cj is not None and pj['attempt_id'] is not None and pj['attempt_id'] != res['attempt_id']:
            w.saw_stale_attempt_message = True
            if pj['state'] != cj['state'] or pj['attempt_id'] != cj['attempt_id']:
                return [('stale-attempt-moved-job', 'a message for an attempt that is not the job\'s current attempt never changes the job',
                         f'{op[0]} for attempt {res["attempt_id"]} moved job {k} from {pj["state"]}/{pj["attempt_id"]} to '
                         f'{cj["state"]}/{cj["attempt_id"]}')]
    # deactivating an instance withdraws the attempts placed on it: only a job whose CURRENT attempt sits on that instance may move
    if op[0] == 'deactivate' and res.get('ok') and res.get('instance'):
        for k, cj in cur.jobs.items():
            pj = prev.jobs.get(k)
            if pj is None or pj['state'] == cj['state']:
                continue
            a = prev.attempts.get((k[0], k[1], pj['attempt_id'])) if pj['attempt_id'] is not None else None
            if a is None or a['instance_name'] != res['instance']:
                return [('deactivate-moved-foreign-job', 'a Creating or Running job falls back to Ready only when its own attempt is withdrawn',
                         f'deactivating {res["instance"]} moved job {k} {pj["state"]} -> {cj["state"]} although its current attempt '
                         f'{pj["attempt_id"]} is on {a["instance_name"] if a else None}')]
            w.saw_deactivate_with_job = True
    return []


def extra(w):
    out = set()
    seen = {}
    for op, r in w.log:
        if op[0] == 'complete' and r.get('ok'):
            k = r.get('job')
            if k in seen:
                out.add('second_completion_report')
            seen[k] = True
        if op[0] == 'started' and len(op) > 4 and op[4] and r.get('ok'):
            out.add('fresh_attempt_started')
        if op[0] == 'schedule' and len(op) > 3 and r.get('ok'):
            out.add('racing_schedule')
    if getattr(w, 'saw_stale_attempt_message', False):
        out.add('stale_attempt_message_for_job_with_other_current_attempt')
    return out


def nontrivial(w, cls):
    return bool(cls & {'dup_complete', 'second_completion_report', 'fresh_attempt_started', 'racing_schedule'})


plan, run_shard, replay = H.standard_module(PROPERTY, 'lifecycle', step, nontrivial, RULE, quick_n=60, thorough_n=1500, extra_classes=extra, txn_oracle=O.check_transitions_txn)
