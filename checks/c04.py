"""C04 — jobs follow the lifecycle and complete at most once."""
from vlib.batchsim import histcheck as H, oracle as O

PROPERTY = 'C04'
LEVEL = 'exploration'
RULE = ('Hypothesis-generated histories (see C01) weighted towards worker messages: duplicated / late completions, completions for '
        'Pending and already-terminal jobs, started/complete with stale or brand-new attempt ids, racing second schedule calls, '
        'unschedule, deactivation, scheduler and canceller loop bodies. After every op, for every job the (old, new) state pair must '
        'be in the allowed lifecycle relation (terminal absorbing, Pending never jumps) -- observed at every transaction boundary, because '
        'one loop-body op runs many transactions -- and for every job group '
        'job_groups_n_jobs_in_complete_states == counts of terminal jobs in its subtree (so a job is tallied exactly once). '
        'Non-trivial: a duplicated completion, or a completion/start for a non-current attempt, or a completion after the job is terminal.')
ASSUMPTIONS = ['serializable at transaction granularity on minimysql', 'state observed after each op, not inside a transaction']
TRUSTED = ['vlib/minimysql', 'vlib/batchsim', 'vlib/batchsim/oracle.py']


def step(w, prev, cur, op, res):
    return O.check_terminal_absorbing(prev, cur) or O.check_tallies(cur)


def extra(w):
    out = set()
    seen = {}
    for op, r in w.log:
        if op[0] == 'complete' and r.get('ok'):
            k = r.get('job')
            if k in seen:
                out.add('second_completion_report')
            seen[k] = True
        if op[0] == 'started' and len(op) > 4 and op[4] and r.get('ok'):
            out.add('fresh_attempt_started')
        if op[0] == 'schedule' and len(op) > 3 and r.get('ok'):
            out.add('racing_schedule')
    return out


def nontrivial(w, cls):
    return bool(cls & {'dup_complete', 'second_completion_report', 'fresh_attempt_started', 'racing_schedule'})


plan, run_shard, replay = H.standard_module(PROPERTY, 'lifecycle', step, nontrivial, RULE, quick_n=60, thorough_n=1500, extra_classes=extra, txn_oracle=O.check_transitions_txn)
