"""C23 — ranged reads (open_from / read_from / read_range) return exactly the requested bytes on every filesystem backend.

Backends: the real LocalAsyncFS on real temp files; the real GoogleStorageAsyncFS + GoogleStorageClient.get_object + GetObjectStream
over a fake HTTP session that honours `Range` per RFC 7233 and streams through a real aiohttp.StreamReader; the real S3AsyncFS over
a fake boto client honouring `Range=`; the real AzureAsyncFS + AzureReadableStream over a fake blob client honouring
download_blob(offset=, length=).  Each backend is also reached through the real RouterAsyncFS.
"""
from __future__ import annotations

import functools
import os
import re
import shutil
import tempfile
import types

from vlib import hostenv
from vlib.runner import Result

PROPERTY = 'C23'
LEVEL = 'exploration'
RULE = ('backend in {local, gs, s3, azure} x {direct, via RouterAsyncFS}; object of 0..300 bytes (position-dependent contents) or one '
        '70 000-byte object; provider stream chunking 1..64 bytes (8 KiB/16 KiB for the large object); start in [0,size] biased to 0, '
        '1, size-1, size; length in {None, 0, 1, .., beyond end}; operations: open_from followed by a read plan (read(n) for several '
        'n, readexactly(k), read(-1), then drain by read(n) or read(-1)), read_from, read_range with both end_inclusive values '
        'including the last byte, empty ranges and ranges beyond the end; object kinds file / missing / directory / file-and-directory '
        'for the documented length==0 rule. Oracle: concatenated bytes == data[start:start+length] (to the end if no length), no read '
        'returns more than n or an empty result before the end of the range; readexactly(k) returns exactly k bytes or raises '
        'UnexpectedEOFError; read_range returns exactly end-start+inclusive bytes or raises UnexpectedEOFError when the object is '
        'shorter; length==0 gives an empty stream for a file, IsADirectoryError for a directory, FileNotFoundError for nothing, '
        'FileAndDirectoryError for both. Non-trivial: an existing object and a non-empty requested span that is a proper sub-range of '
        'the object (start > 0 or end before the last byte), or a span that runs past the end.')
ASSUMPTIONS = [
    'the fakes encode the providers\' documented range semantics: HTTP Range bytes=a-b is inclusive, bytes=a- runs to the end, b beyond '
    'the end is truncated, a >= size (also any range on an empty object) is 416 (RFC 7233; GCS and S3 InvalidRange); Azure '
    'download_blob(offset, length) truncates at the end and answers 416 for an explicit offset >= size, offset=None reads the whole blob',
    'no real cloud is contacted',
    'a request that starts exactly at the end of the object (start == size, nothing to return) may either return no bytes or signal '
    'UnexpectedEOFError: the repository deliberately maps the providers\' 416 to UnexpectedEOFError; any other exception is a violation',
    'read(n) may return fewer than n bytes (documented "at most n"), but not zero bytes before the end of the range',
]
TRUSTED = ['fake GCS session / boto client / Azure blob client in checks/c23.py (provider range semantics)',
           'aiohttp.StreamReader (real) used as the GCS response body']

BIG = 70000
CASE_TIMEOUT = 30.0
SCRATCH = os.environ.get('VERIF_SCRATCH', '/tmp')
BACKENDS = ['local', 'gs', 's3', 'azure']


@functools.lru_cache(maxsize=64)
def content(size: int, seed: int) -> bytes:
    return bytes(((i * 167 + seed * 59 + (i >> 3) * 13 + (i >> 8) * 101 + 7) & 0xFF) for i in range(size))


# ----------------------------------------------------------------------------------------------------------------------
# provider fakes (documented semantics only; nothing here looks at the repository's code)

_RANGE_RE = re.compile(r'^bytes=(\d+)-(\d*)$')


class Unsatisfiable(Exception):
    pass


def http_range(data: bytes, header):
    """RFC 7233 single byte-range on `data`: -> bytes; raises Unsatisfiable (416).  A syntactically invalid header is ignored."""
    if header is None:
        return data
    m = _RANGE_RE.match(header)
    if not m:
        return data
    first = int(m.group(1))
    last = int(m.group(2)) if m.group(2) != '' else None
    if last is not None and last < first:
        return data                 # invalid byte-range-spec: the header is ignored
    if first >= len(data):
        raise Unsatisfiable(header)
    if last is None or last >= len(data):
        last = len(data) - 1
    return data[first:last + 1]


class Store:
    """Flat object namespace shared by the three cloud fakes: name -> bytes."""

    def __init__(self):
        self.objects = {}
        self.requests = []

    def list(self, prefix, delimiter=None):
        items, prefixes = [], []
        for name in sorted(self.objects):
            if not name.startswith(prefix):
                continue
            rest = name[len(prefix):]
            if delimiter and delimiter in rest:
                pre = prefix + rest.split(delimiter, 1)[0] + delimiter
                if pre == name:         # object whose name ends with the delimiter (includeTrailingDelimiter)
                    items.append(name)
                if pre not in prefixes:
                    prefixes.append(pre)
            else:
                items.append(name)
        return items, prefixes


def make_env():
    """Import the repository modules and build the fake providers.  Returns a namespace."""
    hostenv.install()
    import asyncio
    import urllib.parse
    import aiohttp
    import hailtop.aiocloud.aioaws.fs as s3m
    import hailtop.aiocloud.aioazure.fs as azm
    import hailtop.aiocloud.aiogoogle.client.storage_client as gsm
    from hailtop.aiotools.fs.exceptions import FileAndDirectoryError, UnexpectedEOFError
    from hailtop.aiotools.local_fs import LocalAsyncFS
    from hailtop.aiotools.router_fs import RouterAsyncFS

    E = types.SimpleNamespace(asyncio=asyncio, UnexpectedEOFError=UnexpectedEOFError, FileAndDirectoryError=FileAndDirectoryError,
                              LocalAsyncFS=LocalAsyncFS, RouterAsyncFS=RouterAsyncFS, gsm=gsm, s3m=s3m, azm=azm)

    # ---------------- GCS: HTTP session ----------------
    class _Proto:
        _reading_paused = False
        connected = True

        def pause_reading(self, *a, **k):
            self._reading_paused = True

        def resume_reading(self, *a, **k):
            self._reading_paused = False

    def http_error(status):
        return aiohttp.ClientResponseError(None, (), status=status, message={404: 'Not Found', 416: 'Requested range not satisfiable'}[status])

    class FakeMediaResponse:
        def __init__(self, body: bytes, chunk: int, status: int):
            loop = asyncio.get_running_loop()
            self.status = status
            self.headers = {'Content-Length': str(len(body))}
            self.content = aiohttp.StreamReader(_Proto(), 2 ** 16, loop=loop)
            self._feeder = loop.create_task(self._feed(body, chunk))

        async def _feed(self, body, chunk):
            try:
                for i in range(0, len(body), chunk):
                    self.content.feed_data(body[i:i + chunk])
                    await asyncio.sleep(0)
                self.content.feed_eof()
            except asyncio.CancelledError:
                pass

        def close(self):
            self._feeder.cancel()

        def release(self):
            self.close()

    class FakeJsonResponse:
        def __init__(self, doc):
            self._doc = doc

        async def json(self):
            return self._doc

        async def __aenter__(self):
            return self

        async def __aexit__(self, *a):
            return False

    class FakeGCSSession:
        def __init__(self, store, chunk):
            self.store = store
            self.chunk = chunk

        @staticmethod
        def _split(url):
            path = urllib.parse.urlparse(url).path
            m = re.match(r'^/storage/v1/b/([^/]+)/o(?:/(.*))?$', path)
            assert m, url
            return m.group(1), (urllib.parse.unquote(m.group(2)) if m.group(2) is not None else None)

        async def get(self, url, **kwargs):            # media download (alt=media)
            bucket, name = self._split(url)
            assert kwargs.get('params', {}).get('alt') == 'media' and name is not None
            rng = (kwargs.get('headers') or {}).get('Range')
            self.store.requests.append(('gs', name, rng))
            await asyncio.sleep(0)
            if name not in self.store.objects:
                raise http_error(404)
            try:
                body = http_range(self.store.objects[name], rng)
            except Unsatisfiable:
                raise http_error(416) from None
            return FakeMediaResponse(body, self.chunk, 206 if rng else 200)

        async def request(self, method, url, **kwargs):
            assert method == 'GET'
            bucket, name = self._split(url)
            params = kwargs.get('params') or {}
            await asyncio.sleep(0)
            if name is not None:                      # object metadata
                if name not in self.store.objects:
                    raise http_error(404)
                return FakeJsonResponse({'name': name, 'size': str(len(self.store.objects[name])), 'bucket': bucket})
            items, prefixes = self.store.list(params.get('prefix', ''), params.get('delimiter'))
            doc = {}
            mr = params.get('maxResults')
            if mr is not None:                        # one page is enough for isdir
                both = [('p', p) for p in prefixes] + [('i', i) for i in items]
                both = both[:int(mr)]
                prefixes = [x for k, x in both if k == 'p']
                items = [x for k, x in both if k == 'i']
            if items:
                doc['items'] = [{'name': n, 'size': str(len(self.store.objects[n]))} for n in items]
            if prefixes:
                doc['prefixes'] = prefixes
            return FakeJsonResponse(doc)

        async def close(self):
            pass

    def make_gs(store, chunk):
        client = object.__new__(gsm.GoogleStorageClient)
        client._base_url = 'https://storage.googleapis.com/storage/v1'
        client._session = FakeGCSSession(store, chunk)
        client._gcs_requester_pays_configuration = None
        return gsm.GoogleStorageAsyncFS(storage_client=client)

    # ---------------- S3: boto client ----------------
    BotoClientError = s3m.botocore.exceptions.ClientError

    class ClientError(BotoClientError):
        def __init__(self, code, status):
            Exception.__init__(self, code)
            self.response = {'Error': {'Code': code, 'Message': code}, 'ResponseMetadata': {'HTTPStatusCode': status}}

    class NoSuchKey(ClientError):
        def __init__(self):
            ClientError.__init__(self, 'NoSuchKey', 404)

    class FakeBody:
        """botocore StreamingBody surface: read(amt=None), close(); a read may return fewer bytes than asked (never 0 before EOF)."""

        def __init__(self, data, chunk):
            self._data = data
            self._pos = 0
            self._chunk = chunk
            self.closed = False

        def read(self, amt=None):
            if amt is None or amt < 0:
                b = self._data[self._pos:]
            else:
                b = self._data[self._pos:self._pos + min(amt, self._chunk)]
            self._pos += len(b)
            return b

        def close(self):
            self.closed = True

    class FakeS3:
        exceptions = types.SimpleNamespace(NoSuchKey=NoSuchKey)

        def __init__(self, store, chunk):
            self.store = store
            self.chunk = chunk

        def get_object(self, Bucket, Key, Range=None):
            self.store.requests.append(('s3', Key, Range))
            if Key not in self.store.objects:
                raise NoSuchKey()
            try:
                body = http_range(self.store.objects[Key], Range)
            except Unsatisfiable:
                raise ClientError('InvalidRange', 416) from None
            return {'Body': FakeBody(body, self.chunk), 'ContentLength': len(body)}

        def head_object(self, Bucket, Key):
            if Key not in self.store.objects:
                raise ClientError('404', 404)
            return {'ContentLength': len(self.store.objects[Key])}

        def list_objects_v2(self, Bucket, Prefix, Delimiter=None, ContinuationToken=None):
            items, prefixes = self.store.list(Prefix, Delimiter)
            page = {'KeyCount': len(items) + len(prefixes)}
            if items:
                page['Contents'] = [{'Key': n, 'Size': len(self.store.objects[n])} for n in items]
            if prefixes and Delimiter:
                page['CommonPrefixes'] = [{'Prefix': p} for p in prefixes]
            return page

    def make_s3(store, chunk, tp):
        fs = object.__new__(s3m.S3AsyncFS)
        fs._thread_pool = tp
        fs._s3 = FakeS3(store, chunk)
        return fs

    # ---------------- Azure: blob clients ----------------
    AZE = azm.azure.core.exceptions

    class HttpResponseError(AZE.HttpResponseError):
        def __init__(self, status_code, msg=''):
            Exception.__init__(self, msg or str(status_code))
            self.status_code = status_code

    class ResourceNotFoundError(AZE.ResourceNotFoundError, AZE.HttpResponseError):
        def __init__(self):
            Exception.__init__(self, 'BlobNotFound')
            self.status_code = 404

    class FakeDownloader:
        def __init__(self, data, chunk):
            self._data = data
            self._chunk = chunk
            self.size = len(data)

        async def readall(self):
            await asyncio.sleep(0)
            return self._data

        def chunks(self):
            data, chunk = self._data, self._chunk

            async def it():
                for i in range(0, len(data), chunk):
                    await asyncio.sleep(0)
                    yield data[i:i + chunk]
            return it()

    class FakeBlobProps:
        def __init__(self, name, size):
            self.name = name
            self.size = size

    class FakeBlobClient:
        def __init__(self, store, chunk, name):
            self.store = store
            self.chunk = chunk
            self.name = name

        async def exists(self):
            return self.name in self.store.objects

        async def get_blob_properties(self):
            if self.name not in self.store.objects:
                raise ResourceNotFoundError()
            return FakeBlobProps(self.name, len(self.store.objects[self.name]))

        async def download_blob(self, offset=None, length=None, **kwargs):
            self.store.requests.append(('azure', self.name, (offset, length)))
            await asyncio.sleep(0)
            if length is not None and offset is None:
                raise ValueError('Offset value must not be None if length is set.')
            if self.name not in self.store.objects:
                raise ResourceNotFoundError()
            data = self.store.objects[self.name]
            if offset is None:
                return FakeDownloader(data, self.chunk)          # whole blob; the SDK recovers from 416 on an empty blob
            if offset >= len(data):
                raise HttpResponseError(416, 'InvalidRange')
            end = len(data) if length is None else min(len(data), offset + length)
            return FakeDownloader(data[offset:end], self.chunk)

    class FakeContainerClient:
        def __init__(self, store):
            self.store = store

        def walk_blobs(self, name_starts_with='', include=None, delimiter='/'):
            items, prefixes = self.store.list(name_starts_with or '', delimiter)
            store = self.store

            async def it():
                for p in prefixes:
                    if p not in items:
                        yield types.SimpleNamespace(prefix=p, name=p)
                for n in items:
                    yield FakeBlobProps(n, len(store.objects[n]))
            return it()

        def list_blobs(self, name_starts_with='', include=None):
            items, _ = self.store.list(name_starts_with or '', None)
            store = self.store

            async def it():
                for n in items:
                    yield FakeBlobProps(n, len(store.objects[n]))
            return it()

    class FakeBlobService:
        def __init__(self, store, chunk):
            self.store = store
            self.chunk = chunk

        def get_blob_client(self, container, path):
            return FakeBlobClient(self.store, self.chunk, path)

        def get_container_client(self, container):
            return FakeContainerClient(self.store)

        async def close(self):
            pass

    def make_azure(store, chunk):
        fs = object.__new__(azm.AzureAsyncFS)
        fs._credential = None
        fs.read_timeout = 5
        fs.connection_timeout = 5
        fs._blob_service_clients = {('acct', 'cont', None): FakeBlobService(store, chunk)}
        return fs

    E.make_gs, E.make_s3, E.make_azure = make_gs, make_s3, make_azure
    return E


_ENV = None


def env():
    global _ENV
    if _ENV is None:
        _ENV = make_env()
    return _ENV


URL_BASE = {'gs': 'gs://bkt/', 's3': 's3://bkt/', 'azure': 'https://acct.blob.core.windows.net/cont/'}


class Scratch:
    """Per-process temp dir for the local backend + thread pool; removed by close()."""

    def __init__(self):
        from concurrent.futures import ThreadPoolExecutor
        self.dir = tempfile.mkdtemp(prefix=f'verif-c23-{os.getpid()}-', dir=SCRATCH)
        self.tp = ThreadPoolExecutor(max_workers=2)
        self.made = set()

    def local_file(self, size, seed):
        p = os.path.join(self.dir, f'o-{size}-{seed}')
        if p not in self.made:
            os.makedirs(p, exist_ok=True)
            with open(os.path.join(p, 'obj'), 'wb') as f:
                f.write(content(size, seed))
            os.makedirs(os.path.join(p, 'dir'), exist_ok=True)
            with open(os.path.join(p, 'dir', 'child'), 'wb') as f:
                f.write(b'child')
            self.made.add(p)
        return p

    def close(self):
        self.tp.shutdown(wait=False, cancel_futures=True)
        shutil.rmtree(self.dir, ignore_errors=True)


# ----------------------------------------------------------------------------------------------------------------------
# one case

def expected_span(case):
    """-> (data, E) : object bytes and the bytes the request designates (None if the request is not a plain span)."""
    data = content(case['size'], case['seed'])
    s = case['start']
    op = case['op']
    if op == 'read_range':
        n = case['end'] - s + (1 if case['incl'] else 0)
        return data, (data[s:s + n] if s + n <= len(data) else None), n
    if op == 'read_from' or case.get('length') is None:
        return data, data[s:], None
    return data, data[s:s + case['length']], case['length']


def run_case(case, scratch=None):
    """-> (nontrivial, classes, failures)"""
    E = env()
    asyncio = E.asyncio
    own = scratch is None
    if own:
        scratch = Scratch()
    try:
        return _run_case(case, scratch, E, asyncio)
    finally:
        if own:
            scratch.close()


def _run_case(case, scratch, E, asyncio):
    backend = case['backend']
    kind = case['kind']
    if backend == 'local' and kind == 'file_and_dir':
        kind = 'dir'
    size, seed = case['size'], case['seed']
    data, span, n_req = expected_span(case)
    op = case['op']
    start = case['start']
    length = case.get('length') if op == 'open_from' else None
    zero_len = (op == 'open_from' and length == 0) or (op == 'read_range' and n_req == 0)
    at_eof = kind in ('file', 'file_and_dir') and start >= size and not zero_len
    fails = []
    classes = {f'backend_{backend}', f'op_{op}', f'kind_{kind}', 'via_router' if case['router'] else 'direct'}
    if size == BIG:
        classes.add('big_object')
    if zero_len:
        classes.add('length_zero')
    if at_eof:
        classes.add('start_at_eof')
    if op == 'open_from':
        classes.add('length_none' if length is None else ('length_beyond_end' if start + length > size else 'length_within'))
    if op == 'read_range':
        classes.add('end_inclusive' if case['incl'] else 'end_exclusive')
        if span is None:
            classes.add('range_beyond_end')
        elif n_req and start + n_req == size:
            classes.add('range_to_last_byte')

    # ---- world
    store = Store()
    if backend == 'local':
        d = scratch.local_file(size, seed)
        url = {'file': d + '/obj', 'missing': d + '/nothing', 'dir': d + '/dir'}[kind]
    else:
        if kind in ('file', 'file_and_dir'):
            store.objects['path/obj'] = data
        if kind in ('dir', 'file_and_dir'):
            store.objects['path/obj/child'] = b'child'
        store.objects['path/obj2'] = b'neighbour'
        store.objects['other'] = b'x'
        url = URL_BASE[backend] + 'path/obj'
    chunk = case['net']

    def opkey():
        return op + ('+len' if op == 'open_from' and length is not None else '')

    async def go():
        if backend == 'local':
            fs = E.LocalAsyncFS(thread_pool=scratch.tp)
        elif backend == 'gs':
            fs = E.make_gs(store, chunk)
        elif backend == 's3':
            fs = E.make_s3(store, chunk, scratch.tp)
        else:
            fs = E.make_azure(store, chunk)
        if case['router']:
            r = E.RouterAsyncFS(local_kwargs={'thread_pool': scratch.tp}, gcs_bucket_allow_list=[])
            if backend == 'local':
                r._local_fs = fs
            elif backend == 'gs':
                r._google_fs = fs
            elif backend == 's3':
                r._s3_fs = fs
            else:
                r._azure_fs = fs
            fs = r
        log = partial        # (what, n, result bytes | exception)
        if op == 'read_range':
            log.append(('read_range', n_req, await fs.read_range(url, start, case['end'], end_inclusive=case['incl'])))
            return log
        if op == 'read_from':
            log.append(('read_from', -1, await fs.read_from(url, start)))
            return log
        async with await fs.open_from(url, start, length=length) as f:
            for what, n in case.get('reads') or []:
                if what == 'read':
                    log.append(('read', n, await f.read(n)))
                    if n == -1:
                        break
                else:
                    try:
                        log.append(('exact', n, await f.readexactly(n)))
                    except E.UnexpectedEOFError as e:
                        log.append(('exact', n, e))
                        return log
            dn = case.get('drain', -1)
            if dn == -1:
                log.append(('read', -1, await f.read(-1)))
            else:
                for _ in range(200000):
                    b = await f.read(dn)
                    log.append(('read', dn, b))
                    if not b:
                        break
        return log

    async def guarded():
        return await asyncio.wait_for(go(), CASE_TIMEOUT)

    exc = None
    log = None
    partial = []
    try:
        log = asyncio.run(guarded())
    except asyncio.TimeoutError:
        return False, sorted(classes | {'timeout'}), [(f'{backend}:hang', 'a ranged read terminates', f'no result within {CASE_TIMEOUT}s')]
    except Exception as e:      # noqa: BLE001
        exc = e

    def fail(symptom, clause, msg):
        fails.append((f'{backend}:{symptom}' + ('' if symptom.startswith('raised-') else ':' + opkey()), clause, f'{msg} [size={size} start={start} length={length!r} '
                      f'end={case.get("end")} incl={case.get("incl")} net_chunk={chunk} requests={store.requests[-3:]}]'))

    # ---- oracle
    ename = type(exc).__name__ if exc is not None else None
    consumed = sum(len(r) for _, _, r in partial if isinstance(r, (bytes, bytearray)))
    pos_at_eof = kind in ('file', 'file_and_dir') and start + consumed >= size
    if kind == 'missing':
        if ename != 'FileNotFoundError':
            fail(f'missing-object-{ename or "no-error"}', 'reading a missing object raises FileNotFoundError', f'got {exc!r} / {log!r}')
        return False, sorted(classes), fails
    if zero_len:
        want = {'file': None, 'dir': 'IsADirectoryError', 'file_and_dir': 'FileAndDirectoryError'}[kind]
        if ename != want:
            fail(f'length-zero-{kind}-{ename or "no-error"}', 'length == 0: empty stream for a file, IsADirectoryError for a directory, '
                 'FileNotFoundError for nothing, FileAndDirectoryError for both', f'expected {want or "an empty stream"}; got {exc!r}')
        elif want is None:
            for what, n, r in log:
                if what == 'exact' and n > 0:
                    if not isinstance(r, E.UnexpectedEOFError):
                        fail('eof-not-signalled', 'readexactly beyond the range raises UnexpectedEOFError', f'readexactly({n}) -> {r!r}')
                elif isinstance(r, Exception) or r != b'':
                    fail('over-read', 'a zero-length range yields no bytes', f'{what}({n}) -> {r!r}')
        return kind == 'file' and size > 0, sorted(classes), fails
    if kind == 'dir':
        if ename not in ('IsADirectoryError', 'FileNotFoundError'):
            fail(f'directory-{ename or "no-error"}', 'reading a directory raises IsADirectoryError or FileNotFoundError', f'got {exc!r} / {log!r}')
        return False, sorted(classes), fails

    nontrivial = False
    if op == 'read_range':
        nontrivial = n_req > 0 and (span is None or start > 0 or start + n_req < size)
        if span is None:
            if ename != 'UnexpectedEOFError':
                fail('eof-not-signalled' if exc is None else f'raised-{ename}', 'read_range past the end of the object raises '
                     'UnexpectedEOFError', f'requested {n_req} bytes from {start} of a {size}-byte object; got {exc!r} / '
                     f'{None if log is None else [len(r) for _, _, r in log]}')
        elif exc is not None:
            fail(f'raised-{ename}' + ('-at-eof' if at_eof else ''), 'read_range inside the object returns the bytes', f'got {exc!r}')
        else:
            _compare(log[0][2], span, fail, 'read_range returns exactly end - start + inclusive bytes of the object at start')
        return nontrivial, sorted(classes), fails

    # open_from / read_from
    nontrivial = len(span) > 0 and (start > 0 or (length is not None and start + length < size)) or \
        (length is not None and start + length > size and size > 0)
    if exc is not None:
        if at_eof and ename == 'UnexpectedEOFError':
            classes.add('at_eof_signalled')
        else:
            fail(f'raised-{ename}' + ('-at-eof' if pos_at_eof else ''), 'reading a span inside the object does not raise',
                 f'got {exc!r} after {consumed} bytes had been returned by {[(w, n) for w, n, _ in partial]}')
        return nontrivial, sorted(classes), fails
    pos = 0
    got_all = b''
    for what, n, r in log:
        rem = span[pos:]
        if what == 'exact':
            if isinstance(r, Exception):
                if at_eof:
                    classes.add('at_eof_signalled')
                elif n <= len(rem):
                    fail('spurious-eof', 'readexactly(k) inside the range returns k bytes', f'readexactly({n}) raised with {len(rem)} bytes left')
                break
            if n > len(rem):
                fail('over-read' if len(r) > len(rem) else 'eof-not-signalled', 'readexactly(k) beyond the range raises UnexpectedEOFError',
                     f'readexactly({n}) returned {len(r)} bytes with {len(rem)} bytes left in the range')
                break
            if r != rem[:n]:
                fail('corrupt' if len(r) == n else 'wrong-count', 'readexactly(k) returns the next k bytes of the range',
                     f'readexactly({n}) returned {len(r)} bytes, first difference at {_first_diff(r, rem[:n])}')
                break
            pos += n
            got_all += r
            continue
        # read(n) / read(-1) / read_from
        if n != -1 and len(r) > n:
            fail('read-more-than-n', 'read(n) returns at most n bytes', f'read({n}) returned {len(r)} bytes')
            break
        if len(r) > len(rem):
            fail('over-read', 'no byte beyond the requested range is returned', f'{what}({n}) returned {len(r)} bytes with {len(rem)} '
                 f'left in the range (extra bytes are object bytes: {r[len(rem):] == data[start + pos + len(rem):start + pos + len(r)]})')
            break
        if r != rem[:len(r)]:
            fail('corrupt', 'the bytes returned are the object bytes at that offset', f'{what}({n}) differs at {_first_diff(r, rem[:len(r)])}')
            break
        if n == -1 and r != rem:
            fail('short', 'read(-1) returns every remaining byte of the range', f'read(-1) returned {len(r)} of {len(rem)} bytes')
            break
        if n > 0 and len(r) == 0 and len(rem) > 0:
            fail('short', 'read(n) returns at least one byte before the end of the range', f'read({n}) returned b"" with {len(rem)} left')
            break
        pos += len(r)
        got_all += r
    else:
        if pos != len(span):
            fail('short', 'the reads together yield the whole requested range', f'{pos} of {len(span)} bytes were returned before the end')
    return nontrivial, sorted(classes), fails


def _first_diff(a, b):
    for i in range(min(len(a), len(b))):
        if a[i] != b[i]:
            return i
    return min(len(a), len(b))


def _compare(got, want, fail, clause):
    if got == want:
        return
    if len(got) > len(want):
        fail('over-read', clause, f'returned {len(got)} bytes, requested span has {len(want)}')
    elif len(got) < len(want):
        fail('short', clause, f'returned {len(got)} bytes, requested span has {len(want)}')
    else:
        fail('corrupt', clause, f'first difference at offset {_first_diff(got, want)}')


# ----------------------------------------------------------------------------------------------------------------------
# generation

def strategy(backend):
    from hypothesis import strategies as st

    @st.composite
    def cases(draw):
        big = draw(st.integers(0, 24)) == 0
        if big:
            size = BIG
            seed = draw(st.integers(0, 1))
            net = draw(st.sampled_from([8192, 16384, 65536, 1000]))
            marks = [0, 1, 8191, 8192, 16383, 16384, 16385, 65535, 65536, 65537, BIG - 1, BIG]
        else:
            size = draw(st.one_of(st.integers(0, 300), st.sampled_from([0, 1, 2, 255, 256, 257, 300])))
            seed = draw(st.integers(0, 7))
            net = draw(st.sampled_from([1, 2, 3, 7, 16, 64, 1000]))
            marks = [0, 1, 2, size // 2, size - 2, size - 1, size]
        marks = sorted({m for m in marks if 0 <= m <= size})
        start = draw(st.one_of(st.sampled_from(marks), st.integers(0, size)))
        rem = size - start
        lens = sorted({x for x in [0, 1, 2, rem - 1, rem, rem + 1, rem + 7, 16, 100, size + 5] if x >= 0})
        kind = draw(st.sampled_from(['file'] * 12 + ['missing', 'dir', 'dir', 'file_and_dir', 'file_and_dir']))
        op = draw(st.sampled_from(['open_from', 'open_from', 'open_from', 'read_range', 'read_range', 'read_from']))
        case = dict(backend=backend, router=draw(st.booleans()), size=size, seed=seed, kind=kind, net=net, op=op, start=start)
        if op == 'read_range':
            incl = draw(st.booleans())
            n = draw(st.one_of(st.sampled_from(lens), st.sampled_from([rem, rem, max(rem - 1, 0), rem + 1]), st.integers(0, rem + 3)))
            if kind in ('dir', 'file_and_dir', 'missing') and draw(st.booleans()):
                n = 0
            end = start + n - (1 if incl else 0)
            case.update(end=end, incl=incl)
        elif op == 'open_from':
            length = draw(st.one_of(st.none(), st.sampled_from(lens), st.integers(0, rem + 3)))
            if kind in ('dir', 'file_and_dir') and draw(st.booleans()):
                length = 0
            ns = [1, 2, 3, 7, 16, 64, 100, 1000] + ([8192, 65536, BIG + 1] if big else [])
            step = st.one_of(st.tuples(st.just('read'), st.sampled_from(ns + [-1])),
                             st.tuples(st.just('exact'), st.one_of(st.sampled_from(ns + [0]), st.integers(0, max(1, min(rem + 2, 400))))))
            reads = [list(x) for x in draw(st.lists(step, max_size=3))]
            drain = draw(st.sampled_from([-1, -1] + ([1, 7, 64, 1000] if not big else [4096, 65536])))
            case.update(length=length, reads=reads, drain=drain)
        return case

    return cases()


def plan(tier):
    n = 1500 if tier == 'quick' else 25000
    specs = []
    for b in BACKENDS:
        specs.append(dict(kind='grid', backend=b))
        for _ in range(3):
            specs.append(dict(kind='hyp', backend=b, n=n))
    return specs


def grid_cases(backend):
    """Small exhaustive grid: sizes 0..6, every start, every length 0..rem+1 / None, read_range both inclusivities, three read styles."""
    for size in range(0, 7):
        for start in range(0, size + 1):
            rem = size - start
            for length in [None] + list(range(0, rem + 3)):
                for reads, drain in (([], -1), ([], 2), ([['read', 1]], -1), ([['exact', max(0, rem - 1)]], 3)):
                    yield dict(backend=backend, router=False, size=size, seed=3, kind='file', net=2, op='open_from', start=start,
                               length=length, reads=reads, drain=drain)
            for n in range(0, rem + 3):
                for incl in (True, False):
                    yield dict(backend=backend, router=(n % 2 == 0), size=size, seed=3, kind='file', net=3, op='read_range', start=start,
                               end=start + n - (1 if incl else 0), incl=incl)
            yield dict(backend=backend, router=True, size=size, seed=3, kind='file', net=1, op='read_from', start=start)


def run_shard(spec, seed, tier):
    res = Result()
    scratch = Scratch()
    try:
        if spec['kind'] == 'grid':
            from vlib.runner import known_signatures
            known = known_signatures(PROPERTY)
            res.exhaustive = None
            for case in grid_cases(spec['backend']):
                nt, cls, fl = run_case(case, scratch)
                res.case(case, nt, list(cls) + ['grid'])
                for sig, cl, m in fl:
                    if sig in known:
                        res.known_hits[sig] = res.known_hits.get(sig, 0) + 1
                    else:
                        res.fail(sig, cl, m, case)
            return res
        from vlib.hyp import search
        search(res, PROPERTY, strategy(spec['backend']), lambda c: run_case(c, scratch), spec['n'], seed)
        return res
    finally:
        scratch.close()


def replay(case):
    nt, cls, fl = run_case(case)
    return [dict(signature=s, clause=c, message=m, case=case) for s, c, m in fl]
