"""C31 — Hail type strings round-trip (Python half + engine lexer differential).

(a) Python: hl.dtype(str(t)) == t; hl.dtype(t.pretty()) == t; the engine form t._parsable_string() parses back with the
    front end's own engine-form grammar (vcf_type_grammar) for the fragment that grammar covers;
    unescape_parsable(escape_parsable(s)) == s for all strings s.
(b) Engine (vlib.jvmslice): the REAL `object IRLexer` cut from Parser.scala (with the real StringEscapeUtils)
    tokenises t._parsable_string() into exactly the token sequence predicted from the type (constructor names,
    punctuation skeleton, identifier tokens whose values are the field / reference-genome names, in order), and
    tokenises escape_id(name) / escape_parsable(name) into exactly one identifier token with value `name`.
    Skipped (counted in notes['engine_clause_skipped']) when vlib.jvmslice cannot be imported.
"""
from __future__ import annotations

import atexit
import json

from vlib import hailenv, hailgen
from vlib.runner import Result

PROPERTY = 'C31'
LEVEL = 'exploration'
RULE = ('types from vlib.hailgen.type_descs (recursive over all type constructors incl. wide structs; struct field '
        'names and reference-genome names from an escaping-stress alphabet: ASCII identifiers, digit-first, spaces, '
        'backtick, backslash, quotes, \\n\\t\\0, C1 controls, Latin-1, BMP, astral, superscript/other-number digits, '
        'empty) plus free-standing name strings; single-character names (alone, after and before an ASCII letter) over '
        'U+0000..U+FFFF (thorough: every code point; quick: all below U+3000, every 4th above) and samples of the astral planes. Oracle (a) Python: dtype(str(t))==t, dtype(t.pretty())==t, vcf grammar on the engine form, '
        'unescape_parsable(escape_parsable(s))==s. Oracle (b) engine: real IRLexer slice tokenises _parsable_string()/'
        'escape_id(name)/escape_parsable(name) into the predicted token sequence. Non-trivial: type contains a name that '
        'is not accepted bare or is non-ASCII (string cases: the string itself); distinct by canonical case.  SEQUENCE cases '
        '(shard kind redef): a reference genome name (own name space "redef:"+stress name) is registered with 1..4 contigs, '
        '1..2 types mentioning locus<name> (bare / interval / array / set / struct field / dict key / dict value / tuple / '
        'nested, plus a random sub-type) are built, printed and parsed, the name is registered AGAIN (other lengths | other '
        'contigs | superset | subset | reordered; different by construction), then for a type over the current definition '
        'all clauses above hold and every locus type in dtype(str(t)) / dtype(t.pretty()) carries the reference genome '
        'registered now (same object as hl.get_reference(name), equal contigs and lengths); the name is removed afterwards.')
ASSUMPTIONS = [
    'names contain no lone surrogates (not encodable as UTF-8)',
    'the PEG shim compiles ~"..." with stdlib re; parsimonious 0.11 uses the `regex` module, whose \\w differs from re on '
    'some category-No code points (e.g. U+00B2): bare names containing such characters may parse here and not there',
    'IRLexer is exercised as a Scala source slice compiled with Scala 3.3.4 -source:3.0-migration against '
    'scala-parser-combinators for 2.13/3 (Hail builds with 2.12); JavaTokenParsers.ident and whiteSpace are library code',
]
TRUSTED = ['vlib/hailenv.py PEG interpreter', 'vlib/jvmslice.py slicer; stubs: fatal, ParserUtils.error (message only)',
           'expected-token predictor in checks/c31.py']

P = 'hail/hail/src/is/hail/expr/ir/Parser.scala'
U = 'hail/hail/utils/src/is/hail/utils/'

HANDLER = r'''
    def hx(s: String): String = {          // token values travel hex-encoded (UTF-8): cheap and unambiguous
      val bs = s.getBytes("UTF-8")
      val sb = new java.lang.StringBuilder(bs.length * 2 + 2)
      sb.append('"')
      var i = 0
      while (i < bs.length) {
        sb.append(Character.forDigit((bs(i) >> 4) & 0xf, 16)); sb.append(Character.forDigit(bs(i) & 0xf, 16)); i += 1
      }
      sb.append('"').toString
    }
    op match {
      case "lex" =>
        val toks = IRLexer.parse(unhex(a(0)))
        toks.map(t => "[" + jstr(t.getName) + "," + hx(String.valueOf(t.value)) + "]").mkString("[", ",", "]")
    }
'''

_jvm = None
_jvm_state = None        # None = not tried, 'ok', 'skipped'


def engine():
    """-> running Jvm with the IRLexer slice, or None when vlib.jvmslice is not importable (clause skipped)."""
    global _jvm, _jvm_state
    if _jvm_state is not None:
        return _jvm
    try:
        from vlib import jvmslice
    except ImportError:
        _jvm_state = 'skipped'
        return None
    sl = jvmslice.Slice('c31', imports='''
import scala.util.parsing.combinator.JavaTokenParsers
import scala.util.parsing.input.{Position, Positional}
import java.util.Locale
''')
    sl.cut(U + 'ErrorHandling.scala', 'class HailException')
    sl.prelude('''
object stubs {
  def fatal(msg: String): Nothing = throw new HailException(msg)
}
import stubs._
object ParserUtils {
  def error(pos: Position, msg: String): Nothing = fatal(msg + " @" + pos.line + ":" + pos.column)
}
''')
    sl.cut(U + 'StringEscapeUtils.scala', 'object StringEscapeUtils')
    sl.prelude('import StringEscapeUtils._')
    sl.cut(P, 'class Token', 'case class IdentifierToken', 'case class StringToken', 'case class IntegerToken',
           'case class FloatToken', 'case class PunctuationToken', 'object IRLexer')
    sl.handler(HANDLER)
    _jvm = sl.start()
    atexit.register(_jvm.close)
    # smoke test: the slice must lex the design-time example
    from vlib.jvmslice import hexs, JvmSliceError
    r = _unhex_replies(_jvm.ask(['lex ' + hexs('Struct{a:Int32,`b c`:Array[String]}')]))[0]
    want = [['identifier', 'Struct'], ['punctuation', '{'], ['identifier', 'a'], ['punctuation', ':'], ['identifier', 'Int32'],
            ['punctuation', ','], ['identifier', 'b c'], ['punctuation', ':'], ['identifier', 'Array'], ['punctuation', '['],
            ['identifier', 'String'], ['punctuation', ']'], ['punctuation', '}']]
    if r != want:
        raise JvmSliceError(f'IRLexer slice smoke test failed: {r!r}')
    _jvm_state = 'ok'
    return _jvm


_lex_cache = {}          # filled by batch shards: text -> reply (one JVM round trip per 2000 texts)


def lex(texts):
    from vlib.jvmslice import hexs
    todo = [t for t in dict.fromkeys(texts) if t not in _lex_cache]
    if not todo:
        return [_lex_cache[t] for t in texts]
    got = dict(zip(todo, _unhex_replies(engine().ask_chunked(['lex ' + hexs(t) for t in todo], chunk=2000))))
    return [_lex_cache[t] if t in _lex_cache else got[t] for t in texts]


def prefetch(names):
    """Batch-lex escape_parsable(n) and escape_id(n) for many names (exhaustive shards)."""
    if engine() is None:
        return
    from hail.utils.java import escape_parsable
    from hail.utils.misc import escape_id
    from vlib.jvmslice import hexs
    texts = list(dict.fromkeys(t for n in names for t in (escape_parsable(n), escape_id(n))))
    _lex_cache.clear()
    _lex_cache.update(zip(texts, _unhex_replies(engine().ask_chunked(['lex ' + hexs(t) for t in texts], chunk=2000))))


def _unhex_replies(replies):
    out = []
    for r in replies:
        if isinstance(r, list):
            r = [[k, bytes.fromhex(v).decode('utf-8', errors='surrogatepass')] for k, v in r]
        out.append(r)
    return out


# ---------------------------------------------------------------------------------------------------------------
# predicted token sequence of t._parsable_string()
# ---------------------------------------------------------------------------------------------------------------

ENGINE_PRIM = {'int32': 'Int32', 'int64': 'Int64', 'float32': 'Float32', 'float64': 'Float64', 'bool': 'Boolean',
               'str': 'String', 'call': 'Call'}


def expected_tokens(td):
    i, p = (lambda v: ['identifier', v]), (lambda v: ['punctuation', v])
    k = hailgen.kind(td)
    if k in ENGINE_PRIM:
        return [i(ENGINE_PRIM[k])]
    if k == 'locus':
        return [i('Locus'), p('('), i(td[1]), p(')')]
    if k in ('interval', 'array', 'set'):
        return [i({'interval': 'Interval', 'array': 'Array', 'set': 'Set'}[k]), p('[')] + expected_tokens(td[1]) + [p(']')]
    if k == 'dict':
        return [i('Dict'), p('[')] + expected_tokens(td[1]) + [p(',')] + expected_tokens(td[2]) + [p(']')]
    if k == 'ndarray':
        return [i('NDArray'), p('[')] + expected_tokens(td[1]) + [p(','), ['integer', str(td[2])], p(']')]
    if k == 'tuple':
        out = [i('Tuple'), p('[')]
        for n, x in enumerate(td[1]):
            if n:
                out.append(p(','))
            out += expected_tokens(x)
        return out + [p(']')]
    if k == 'struct':
        out = [i('Struct'), p('{')]
        for n, (name, x) in enumerate(td[1]):
            if n:
                out.append(p(','))
            out += [i(name), p(':')] + expected_tokens(x)
        return out + [p('}')]
    raise ValueError(td)


def vcf_fragment(td):
    k = hailgen.kind(td)
    if k in ENGINE_PRIM:
        return True
    if k in ('array', 'set'):
        return vcf_fragment(td[1])
    if k == 'struct':
        return all(vcf_fragment(x) for _, x in td[1])
    return False


def name_class(escaped):
    """Which escape forms the Python-side escaped text uses (root-cause class for signatures)."""
    if not escaped.startswith('`'):
        return 'bare'
    cls = []
    body = escaped[1:-1]
    i = 0
    while i < len(body):
        if body[i] == '\\' and i + 1 < len(body):
            c = body[i + 1]
            if c in 'xUuN' and c not in cls:
                cls.append(c)
            i += 2
        else:
            i += 1
    return 'escape-' + ''.join(sorted(cls)) if cls else 'backticked'


def _slug(msg):
    msg = (msg or '').split(' @')[0].split('\n')[0]
    return ''.join(c if c.isalnum() else '-' for c in msg.lower()).strip('-')[:50] or 'error'


def char_class(name):
    if any(ord(c) > 0xFFFF for c in name):
        return 'astral'
    if any(0x7F < ord(c) <= 0xFF for c in name):
        return 'latin1'
    if any(ord(c) < 0x20 or ord(c) == 0x7F for c in name):
        return 'control'
    if any(ord(c) > 0xFF for c in name):
        return 'bmp'
    return 'ascii'


# ---------------------------------------------------------------------------------------------------------------
# clauses
# ---------------------------------------------------------------------------------------------------------------

def python_string_clause(s):
    """unescape_parsable(escape_parsable(s)) == s -> failures"""
    from hail.utils.java import escape_parsable, unescape_parsable
    try:
        e = escape_parsable(s)
        body = e[1:-1] if (e.startswith('`') and e.endswith('`') and len(e) >= 2 and e != s) else e
        back = unescape_parsable(body) if body is not e else e
    except Exception as ex:
        return [(f'escape-roundtrip:{type(ex).__name__}:{char_class(s)}', 'unescape_parsable(escape_parsable(s)) == s',
                 f'raised {ex!r} for s={s!r}')]
    if back != s:
        return [(f'escape-roundtrip:neq:{name_class(e)}', 'unescape_parsable(escape_parsable(s)) == s',
                 f's={s!r} escaped={e!r} unescaped={back!r}')]
    if not e.isascii() and e.startswith('`'):
        return [('escape-nonascii-in-backticks', 'escaped identifiers are ASCII', f's={s!r} escaped={e!r}')]
    return []


def python_type_clause(td):
    hl = hailenv.init()
    from hail.expr.type_parsing import vcf_type_grammar, vcf_type_node_visitor
    t = hailgen.build_type(td)
    fails = []
    for label, render in (('str', str), ('pretty', lambda x: x.pretty()), ('repr', lambda x: repr(x)[7:-2].replace("\\'", "'"))):
        try:
            text = render(t)
        except Exception as ex:
            fails.append((f'{label}:render-{type(ex).__name__}', f'{label}(t) renders', f'{ex!r} for {json.dumps(td)}'))
            continue
        try:
            back = hl.dtype(text)
        except Exception as ex:
            culprit = _culprit(td, lambda sub: _parses(hl, render, sub))
            fails.append((f'{label}:parse-{type(ex).__name__}:{culprit[0]}', f'hl.dtype({label}(t)) parses',
                          f'dtype({text!r}) raised {type(ex).__name__}: {str(ex)[:200]} | culprit {culprit[1]!r}'))
            continue
        if back != t:
            culprit = _culprit(td, lambda sub: _parses(hl, render, sub) is True)
            fails.append((f'{label}:neq:{culprit[0]}', f'hl.dtype({label}(t)) == t',
                          f'dtype({text!r}) = {back!r} != {t!r} | culprit {culprit[1]!r}'))
    if vcf_fragment(td):
        text = t._parsable_string()
        try:
            back = vcf_type_node_visitor.visit(vcf_type_grammar.parse(text))
            if back != t:
                fails.append(('vcf-engine-form:neq', 'engine form parses back with the front end\'s engine-form grammar',
                              f'{text!r} -> {back!r} != {t!r}'))
        except Exception as ex:
            fails.append((f'vcf-engine-form:parse-{type(ex).__name__}', 'engine form parses back with the front end\'s engine-form grammar',
                          f'{text!r} raised {type(ex).__name__}: {str(ex)[:200]}'))
    return fails


def _parses(hl, render, td):
    t = hailgen.build_type(td)
    try:
        return hl.dtype(render(t)) == t
    except Exception:
        return None


def _culprit(td, ok):
    """Find a single name whose one-field struct / locus fails `ok`; -> (class, name)."""
    from hail.utils.java import escape_parsable
    for nm in hailgen.type_names(td):
        for probe in (['struct', [[nm, 'int32']]],):
            if not ok(probe):
                return name_class(escape_parsable(nm)) + '/' + char_class(nm), nm
    return 'structure', None


def engine_clause(td, names, res=None):
    """Clause (b).  -> failures; if the engine slice is unavailable counts res.notes['engine_clause_skipped']."""
    jvm = engine()
    if jvm is None:
        if res is not None:
            res.notes['engine_clause_skipped'] = res.notes.get('engine_clause_skipped', 0) + 1
        return []
    hailenv.init()
    from hail.utils.java import escape_parsable
    from hail.utils.misc import escape_id
    fails = []
    texts = []
    if td is not None:
        t = hailgen.build_type(td)
        texts.append(('type', td, t._parsable_string()))
    for nm in names:
        texts.append(('escape_parsable', nm, escape_parsable(nm)))
        texts.append(('escape_id', nm, escape_id(nm)))
    replies = lex([x[2] for x in texts])
    type_failed = False
    per_name = []
    for (what, obj, text), r in zip(texts, replies):
        if what == 'type':
            want = expected_tokens(obj)
            if isinstance(r, dict) and 'err' in r:
                type_failed = ('reject', r.get('msg'), text)
            elif r != want:
                type_failed = ('tokens', r, text)
            continue
        want = [['identifier', obj]]
        if isinstance(r, dict) and 'err' in r:
            per_name.append((what, obj, text, 'reject', r.get('msg')))
        elif r != want:
            per_name.append((what, obj, text, 'tokens', r))
    for what, nm, text, how, detail in per_name:
        cls = name_class(text)
        if cls.startswith('escape-'):      # one root cause per signature: the first escape form the lexer does not know
            cls = 'escape-x' if 'x' in cls[7:] else 'escape-U' if 'U' in cls[7:] else cls
        if how == 'reject':
            sig = f'engine:{what}:lexer-rejects:{cls}'
            msg = f'IRLexer rejects {what}({nm!r}) = {text!r}: {detail}'
            clause = 'the engine lexer accepts every identifier the front end emits'
        else:
            sig = f'engine:{what}:wrong-name:{cls}'
            msg = f'IRLexer reads {what}({nm!r}) = {text!r} as {detail!r}, expected one identifier token {nm!r}'
            clause = 'identifiers the front end emits denote the same names in the engine'
        fails.append((sig, clause, msg))
    if type_failed and not any(w == 'escape_parsable' for w, *_ in per_name):
        how, detail, text = type_failed
        if how == 'reject':
            fails.append((f'engine:type:lexer-rejects:{_slug(detail)}', 'the engine lexer accepts the engine form of every type',
                          f'IRLexer rejects {text!r}: {detail}'))
        else:
            fails.append(('engine:type:token-skeleton', 'the engine form denotes the same names with the expected punctuation skeleton',
                          f'IRLexer reads {text!r} as {detail!r}, expected {expected_tokens(td)!r}'))
    return fails


# ---------------------------------------------------------------------------------------------------------------
# sequences: a reference genome NAME is defined, used, defined again with other contigs / lengths, used again
# ---------------------------------------------------------------------------------------------------------------

REDEF_PREFIX = 'redef:'      # a name space of its own: the plain type cases never see a reference genome change under them
REDEF_NAMES = ['toy', 'rg1', 'my ref', 'r`g', 'r\\g', 'a.b', '1rg', '', 'ré', '名']
CONTIG_POOL = ['1', '2', 'c1', 'chr 2', 'X', 'Y', 'MT', 'chrUn_x', '', '名😀`\\']
LOCUS_WRAPPERS = ('locus', 'interval', 'array', 'set', 'struct', 'dict_key', 'dict_value', 'tuple', 'nested')


def _wrap(how, loc, extra, fname):
    if how == 'locus':
        return loc
    if how in ('interval', 'array', 'set'):
        return [how, loc]
    if how == 'struct':
        return ['struct', [[fname, loc]] + ([['other' if fname != 'other' else 'other2', extra]])]
    if how == 'dict_key':
        return ['dict', loc, extra]
    if how == 'dict_value':
        return ['dict', 'str', loc]
    if how == 'tuple':
        return ['tuple', [extra, loc]]
    return ['array', ['struct', [[fname, ['interval', loc]], ['n' if fname != 'n' else 'n2', ['set', loc]]]]]


def seq_cases():
    """Strategy of {'seq': {rg, first, second, before: [td...], t: td}}.  `second` differs from `first` by construction
    (other contigs, or the same contigs with other lengths); every td in `before` and `t` mentions locus<rg>."""
    from hypothesis import strategies as st

    @st.composite
    def gen(draw):
        name = REDEF_PREFIX + draw(st.sampled_from(REDEF_NAMES))
        ln = st.sampled_from([1, 2, 7, 1000, 12345, 2 ** 31 - 1])
        k1 = draw(st.integers(1, 4))
        start = draw(st.integers(0, len(CONTIG_POOL) - 1))
        first = [[CONTIG_POOL[(start + i) % len(CONTIG_POOL)], draw(ln)] for i in range(k1)]
        mode = draw(st.sampled_from(['lengths', 'lengths', 'contigs', 'contigs', 'superset', 'subset', 'reorder']))
        if mode == 'lengths' or (mode in ('subset', 'reorder') and k1 == 1):
            j = draw(st.integers(0, k1 - 1))
            second = [[c, n + 1 if i == j else n] if n < 2 ** 31 - 1 else [c, n - 1 if i == j else n] for i, (c, n) in enumerate(first)]
            mode = 'lengths'
        elif mode == 'contigs':
            shift = draw(st.integers(1, len(CONTIG_POOL) - 1))
            second = [[CONTIG_POOL[(start + shift + i) % len(CONTIG_POOL)], draw(ln)] for i in range(draw(st.integers(1, 4)))]
            if second == first:
                second = second + [[CONTIG_POOL[(start + shift + len(second)) % len(CONTIG_POOL)], 3]]
        elif mode == 'superset':
            second = first + [[CONTIG_POOL[(start + k1) % len(CONTIG_POOL)], draw(ln)]]
        elif mode == 'subset':
            second = first[:-1]
        else:
            second = first[1:] + first[:1]
        loc = ['locus', name]
        rgs = st.sampled_from([name, name, 'GRCh37'])
        fn = hailgen.names_strategy()

        def one():
            return _wrap(draw(st.sampled_from(LOCUS_WRAPPERS)), loc, draw(hailgen.type_descs(3, rgs=rgs, max_fields=3)), draw(fn))
        before = [one() for _ in range(draw(st.integers(1, 2)))]
        return {'seq': dict(rg=name, mode=mode, first=first, second=second, before=before, t=one())}
    return gen()


def _loci(t):
    hl = hailenv.init()
    if isinstance(t, hl.tlocus):
        return [t]
    if isinstance(t, hl.tinterval):
        return _loci(t.point_type)
    if isinstance(t, (hl.tarray, hl.tset, hl.tndarray)):
        return _loci(t.element_type)
    if isinstance(t, hl.tdict):
        return _loci(t.key_type) + _loci(t.value_type)
    if isinstance(t, (hl.tstruct, hl.ttuple)):
        return [x for sub in t.types for x in _loci(sub)]
    return []


def sequence_case(case, res=None):
    """register X := first; build / print / parse types over X; register X := second (replaces the registry entry, as
    hl.ReferenceGenome(name, ...) does for any non-builtin name); then every round-trip clause for a type over the CURRENT
    X, plus: each locus type in the parsed result carries the currently registered reference genome."""
    hl = hailenv.init()
    sq = case['seq']
    name = sq['rg']
    b = hailenv.backend()

    def register(contigs):
        names = [c for c, _ in contigs]
        return hl.ReferenceGenome(name, names, {c: n for c, n in contigs}, x_contigs=[c for c in names if c == 'X'])

    fails = []
    try:
        register(sq['first'])
        for td0 in sq['before']:
            fails += python_type_clause(td0)
        cur = register(sq['second'])
        td = sq['t']
        fails += python_type_clause(td)
        t = hailgen.build_type(td)
        want = (list(cur.contigs), dict(cur.lengths))
        for label, render in (('str', str), ('pretty', lambda x: x.pretty())):
            try:
                back = hl.dtype(render(t))
            except Exception:      # reported by python_type_clause above
                continue
            for lt in _loci(back):
                rg = lt.reference_genome
                if rg.name != name:
                    continue
                got = (list(rg.contigs), dict(rg.lengths))
                if rg is not hl.get_reference(name) or got != want:
                    fails.append((f'redefined-rg:{label}:parsed-type-carries-a-stale-reference-genome',
                                  f'hl.dtype({label}(t)) refers to the reference genome currently registered under the name',
                                  f'{name!r} was defined as {sq["first"]!r}, used, then redefined as {sq["second"]!r}; '
                                  f'dtype({render(t)!r}) carries contigs/lengths {got!r}, registered now: {want!r}'))
                    break
        names = list(dict.fromkeys(hailgen.type_names(td)))
        for nm in names:
            fails += python_string_clause(nm)
        fails += engine_clause(td, names, res)
    finally:
        b._references.pop(name, None)      # nothing of the sequence outlives the case
    classes = ['sequence_case', 'rg_redefined', f'redef_mode_{sq["mode"]}', f'redef_before_{len(sq["before"])}',
               'kind_' + hailgen.kind(sq['t'])]
    return True, classes, _dedupe(fails)


def check_case(case, res=None):
    hailenv.init()
    from hail.utils.java import _parsable_str
    if 'seq' in case:
        return sequence_case(case, res)
    if 's' in case:
        s = case['s']
        names = [s]
        fails = python_string_clause(s) + engine_clause(None, names, res)
        nontrivial = not (s.isascii() and _parsable_str.fullmatch(s))
        classes = ['string_case', 'name_' + char_class(s), 'bare' if _parsable_str.fullmatch(s) else 'needs_backticks']
        return nontrivial, classes, _dedupe(fails)
    td = case['t']
    names = hailgen.type_names(td)
    uniq = list(dict.fromkeys(names))
    fails = python_type_clause(td)
    for nm in uniq:
        fails += python_string_clause(nm)
    fails += engine_clause(td, uniq, res)
    nontrivial = any((not nm.isascii()) or not _parsable_str.fullmatch(nm) for nm in names)
    st = hailgen.type_stats(td)
    classes = ['type_case'] + [f'kind_{k}' for k in st if k != '_depth'] + sorted({'name_' + char_class(n) for n in names}) + \
        sorted({('bare' if _parsable_str.fullmatch(n) else 'needs_backticks') for n in names})
    return nontrivial, classes, _dedupe(fails)


def _dedupe(fails):
    seen = set()
    out = []
    for f in fails:
        if f[0] not in seen:
            seen.add(f[0])
            out.append(f)
    return out


# ---------------------------------------------------------------------------------------------------------------
# plan / shards
# ---------------------------------------------------------------------------------------------------------------

def plan(tier):
    specs = []
    # single-character names (c, 'a'+c, and c+'a' below U+0800): thorough = every BMP code point (8 slices);
    # quick = every code point below U+3000 and every 4th above (CJK / Hangul blocks are homogeneous)
    if tier == 'quick':
        specs.append(dict(kind='chars', lo=0, hi=0x3000, step=1))
        specs.append(dict(kind='chars', lo=0x3000, hi=0x9000, step=4))
        specs.append(dict(kind='chars', lo=0x9000, hi=0x10000, step=4))
    else:
        step = 0x10000 // 8
        for i in range(8):
            specs.append(dict(kind='chars', lo=i * step, hi=(i + 1) * step, step=1))
    specs.append(dict(kind='astral', stride=257 if tier == 'quick' else 17))
    per = 600 if tier == 'quick' else 15000
    for i in range(5 if tier == 'quick' else 8):
        specs.append(dict(kind='types', n=per, max_leaves=(4, 6, 8, 12, 6, 8, 10, 5)[i]))
    for i in range(2 if tier == 'quick' else 3):
        specs.append(dict(kind='strings', n=per * 3))
    for i in range(1 if tier == 'quick' else 2):
        specs.append(dict(kind='redef', n=per // 2))
    return specs


def run_shard(spec, seed, tier):
    res = Result()
    hailenv.init()
    kind = spec['kind']
    if kind in ('chars', 'astral'):
        res.exhaustive = kind == 'chars' and spec.get('step', 1) == 1 and tier != 'quick'
        if kind == 'chars':
            cps = [c for c in range(spec['lo'], spec['hi'], spec.get('step', 1)) if not 0xD800 <= c <= 0xDFFF]
        else:
            cps = list(range(0x10000, 0x110000, spec['stride'])) + [0x10FFFF, 0x1F600, 0x10000, 0x2F800, 0xE0001]
        batch = []
        for c in cps:
            ch = chr(c)
            batch += [ch, 'a' + ch, ch + 'a'] if kind == 'chars' and c < 0x800 else [ch, 'a' + ch]
        prefetch(batch)      # the same check_case as everywhere else, but the lexer replies come from one batch
        for s in batch:                       # distinct by construction: no per-case hashing
            case = {'s': s}
            nt, classes, fails = check_case(case, res)
            res.evaluations += 1
            if nt:
                res.nontrivial_extra += 1
                if len(res.samples) < 2 and len(s) == 2:
                    res.samples.append(case)
            for c in classes:
                res.classes[c] = res.classes.get(c, 0) + 1
            for sig, cl, msg in fails:
                res.fail(sig, cl, msg, case)
        _lex_cache.clear()
        return res
    from hypothesis import strategies as st
    from vlib.hyp import search
    if kind == 'types':
        strat = hailgen.type_descs(spec['max_leaves'], max_fields=6).map(lambda td: {'t': td})
    elif kind == 'redef':
        strat = seq_cases()
    else:
        strat = st.one_of(hailgen.names_strategy(),
                          st.text(alphabet=st.characters(exclude_categories=['Cs']), max_size=12),
                          st.text(alphabet=st.sampled_from(hailgen.NAME_CHARS), max_size=12)).map(lambda s: {'s': s})
    search(res, PROPERTY, strat, lambda case: check_case(case, res), spec['n'], seed, shrink=True)
    return res


def replay(case):
    hailenv.init()
    _, _, fails = check_case(case)
    return [dict(signature=s, clause=c, message=m, case=case) for s, c, m in fails]
