"""C02 — billing aggregates equal the sum of attempt usage."""
import datetime

from vlib.batchsim import histcheck as H, oracle as O

PROPERTY = 'C02'
LEVEL = 'exploration'
RULE = ('Hypothesis-generated histories (see C01) weighted towards attempts: schedule / creating / started with and without resource '
        'lists (so attempt resources arrive before or after the first rollup, duplicated resource names, a resource whose '
        'deduped_resource_id differs), billing heartbeats for any subset of attempts with timestamps going forwards, backwards and '
        'before the start, late and repeated completions (marked_job_started true/false), unschedule, deactivation, the clock crossing '
        'UTC date boundaries, compaction of both sharded billing tables, jobs in nested groups, two billing projects x two users. After '
        'every op: aggregated usage per job, per job group incl. descendants, per billing project+user, and summed over days == '
        'sum over attempts of quantity x max(rollup - start, 0); per-day usage only changes on the current UTC day; compaction changes '
        'no total and leaves one row (token 0) per key. Non-trivial: >= 2 attempts with non-zero billed time and one of {compaction, '
        'date change, nested group, resources added by a later report}.')
ASSUMPTIONS = ['serializable at transaction granularity on minimysql; RAND() token shards drawn by the harness']
TRUSTED = ['vlib/minimysql', 'vlib/batchsim', 'vlib/batchsim/oracle.py']


def step(w, prev, cur, op, res):
    f = O.check_billing(cur)
    if f:
        return f
    a, b = O.by_date(prev), O.by_date(cur)
    today = datetime.datetime.fromtimestamp(w.now_ms() / 1000, datetime.timezone.utc).strftime('%Y-%m-%d')
    if op[0] not in ('compact_by_date',):
        for k in set(a) | set(b):
            if a.get(k, 0) != b.get(k, 0) and k[0] != today:
                return [('billing-wrong-day', 'usage is recorded on the billing day on which it accrues',
                         f'key {k} changed {a.get(k, 0)} -> {b.get(k, 0)} but the current UTC day is {today}')]
    if op[0] in ('compact', 'compact_by_date') and res.get('ok'):
        t = 'aggregated_billing_project_user_resources_v3' if op[0] == 'compact' else 'aggregated_billing_project_user_resources_by_date_v3'
        # one compaction call handles one key; totals (checked above) must be unchanged and the table must never grow
        if len(cur.S[t]) > len(prev.S[t]):
            return [('compaction-grew', 'compaction never adds rows', f'{t}: {len(prev.S[t])} -> {len(cur.S[t])} rows')]
    return []


def extra(w):
    out = set()
    S = w.snap(['attempts', 'attempt_resources', 'aggregated_billing_project_user_resources_v3'])
    billed = [a for a in S['attempts'] if O.billed(a) > 0]
    if len(billed) >= 2:
        out.add('two_billed_attempts')
    if len({r['token'] for r in S['aggregated_billing_project_user_resources_v3']}) > 1:
        out.add('multi_token_rows')
    for op, r in w.log:
        if op[0] in ('compact', 'compact_by_date') and r.get('ok'):
            out.add('compaction')
        if op[0] == 'tick' and op[1] >= 86_400_000:
            out.add('date_change')
        if op[0] in ('started', 'complete') and r.get('ok') and len(op) > 3 and (op[3] if op[0] == 'started' else op[5]):
            out.add('resources_in_report')
    return out


def nontrivial(w, cls):
    return 'two_billed_attempts' in cls and bool(cls & {'compaction', 'date_change', 'nested_groups', 'resources_in_report'})


plan, run_shard, replay = H.standard_module(PROPERTY, 'billing', step, nontrivial, RULE, quick_n=60, thorough_n=1500, extra_classes=extra)
