"""C34 — genotype call packing agrees with the engine.

Differential test: the Python front end (hail.expr.types._tcall byte-level encode/decode, hail.genetics.Call,
allele_pair / allele_pair_sqrt / small_allele_pair) against the REAL Scala text of Call.scala / Genotype.scala
compiled as a slice (vlib.jvmslice), plus an exact-integer reference for the packing formulae.
"""
from __future__ import annotations

import atexit
import math
import struct

from vlib import hostenv, jvmslice
from vlib.runner import Result

PROPERTY = 'C34'
LEVEL = 'exploration'
RULE = ('calls (ploidy 0-2 x phased x allele indices): exhaustive grid j,k <= 64 (thorough 300) x ploidy x phase; '
        'Hypothesis-generated calls up to the engine limit (allele representation < 2^29: haploid allele < 2^29, unphased '
        'k <= 32767, phased j+k <= 32767) concentrated on the small-table/sqrt switch (gt index 36), triangular numbers +-1, '
        'and the maximum; generated raw int32 words for decode agreement; genotype-index <-> allele-pair bijection '
        'exhaustive on [0, 10^6) (thorough 2*10^7) and on the top window below 2^29, plus generated indices. Oracle: '
        'engine slice (Call0/1/2, CallN, Call.*, Genotype.*, AllelePair) vs Python bytes vs exact integer reference. '
        'Non-trivial: ploidy 2 with j != k or phased, or genotype index beyond the 36-entry small table; distinct by case.')
ASSUMPTIONS = [
    'the engine is exercised as Scala source slices of Call.scala/Genotype.scala compiled with Scala 3.3.4 -source:3.0-migration '
    'against scala-library 2.13 (Hail builds with 2.12); Int/bit arithmetic is identical on this code',
    'domain = calls whose allele representation is < 2^29 (the limit Call.apply and Call2.fromUnphasedDiploidGtIndex document '
    'in their error text "Max value is 2^29 - 1"); calls beyond it are counted as outside_domain and not compared (Python has '
    'no range check and wraps silently; Scala Int arithmetic overflows for k >= 46341)',
    'Python Call.unphased_diploid_gt_index() is compared numerically (it returns a float because of true division)',
]
TRUSTED = ['vlib/jvmslice.py slicer + stubs (fatal, toRichBoolean, toFastSeq, Parser.parseCall raising, ArraySeq = scala 2.13 ArraySeq)',
           'exact-integer reference (isqrt) in checks/c34.py', 'Scala 3 vs 2.12 equivalence on integer code']

LIMIT = 1 << 29            # allele representation must be < 2^29 (Call.scala)
TABLE = 36                 # small table: pairs with k <= 7
U = 'hail/hail/utils/src/is/hail/utils/'
V = 'hail/hail/src/is/hail/variant/'

HANDLER = r'''
    def mk(p: Int, ph: Boolean, j: Int, k: Int): Int = p match {
      case 0 => Call0(ph)
      case 1 => Call1(j, ph)
      case 2 => Call2(j, k, ph)
    }
    def mkN(p: Int, ph: Boolean, j: Int, k: Int): Int = p match {
      case 0 => CallN(ArraySeq[Int](), ph)
      case 1 => CallN(ArraySeq(j), ph)
      case 2 => CallN(ArraySeq(j, k), ph)
    }
    def dec(c: Int): String = {
      val pl = Call.ploidy(c)
      val al = Call.alleles(c)
      val ix = (0 until pl).map(i => Call.alleleByIndex(c, i))
      val ap = if (pl == 2) { val p = Call.allelePair(c); Seq(AllelePair.j(p), AllelePair.k(p)) } else Seq[Int]()
      val ud = if (pl == 2) Call.unphasedDiploidGtIndex(c) else -1
      "{\"pl\":" + pl + ",\"ph\":" + Call.isPhased(c) + ",\"al\":" + is(al) + ",\"ix\":" + is(ix) + ",\"ap\":" + is(ap) +
        ",\"repr\":" + Call.alleleRepr(c) + ",\"ud\":" + ud + ",\"s\":" + jstr(Call.toString(c)) +
        ",\"dip\":" + Call.isDiploid(c) + ",\"hap\":" + Call.isHaploid(c) + "}"
    }
    def pair(p: Int): String = "[" + AllelePair.j(p) + "," + AllelePair.k(p) + "]"
    op match {
      case "call" =>
        val c = mk(a(0).toInt, a(1) == "1", a(2).toInt, a(3).toInt)
        val n = mkN(a(0).toInt, a(1) == "1", a(2).toInt, a(3).toInt)
        "{\"c\":" + c + ",\"n\":" + n + ",\"d\":" + dec(c) + "}"
      case "dec" => dec(a(0).toInt)
      case "gt" => Genotype.diploidGtIndex(a(0).toInt, a(1).toInt).toString
      case "gtswap" => Genotype.diploidGtIndexWithSwap(a(0).toInt, a(1).toInt).toString
      case "gtp" => Genotype.diploidGtIndex(AllelePair(a(0).toInt, a(1).toInt)).toString
      case "ap" => pair(Genotype.allelePair(a(0).toInt))
      case "apsqrt" => pair(Genotype.allelePairSqrt(a(0).toInt))
      case "aprec" => pair(Genotype.allelePairRecursive(a(0).toInt))
      case "fromgt" => Call2.fromUnphasedDiploidGtIndex(a(0).toInt).toString
      case "aprange" => is((a(0).toInt until a(1).toInt).map(i => Genotype.allelePair(i)))
      case "apsqrtrange" => is((a(0).toInt until a(1).toInt).map(i => Genotype.allelePairSqrt(i)))
      case "aprecrange" => is((a(0).toInt until a(1).toInt).map(i => Genotype.allelePairRecursive(i)))
      case "gtrow" => val k = a(0).toInt; is((0 to k).map(j => Genotype.diploidGtIndex(j, k)))
      case "consts" => "{\"n\":" + Genotype.nCachedAllelePairs + ",\"table\":" + is(Genotype.smallAllelePair) +
        ",\"J\":" + is(Genotype.smallAlleleJ) + ",\"K\":" + is(Genotype.smallAlleleK) + "}"
    }
'''


def build_slice() -> jvmslice.Slice:
    sl = jvmslice.Slice('c34', imports='''
import scala.annotation.switch
import scala.jdk.CollectionConverters._
import scala.collection.immutable.ArraySeq
import scala.reflect.ClassTag
import java.io.Serializable
''')
    sl.cut(U + 'ErrorHandling.scala', 'class HailException')
    sl.cut(U + 'implicits/RichBoolean.scala', 'class RichBoolean')
    sl.prelude('''
object stubs {
  def fatal(msg: String): Nothing = throw new HailException(msg)
  def fatal(msg: String, errorId: Int): Nothing = throw new HailException(msg, errorId)
  implicit def toRichBoolean(b: Boolean): RichBoolean = new RichBoolean(b)
  implicit class FastSeqOps[T](it: Iterable[T]) { def toFastSeq(implicit ct: ClassTag[T]): IndexedSeq[T] = ArraySeq.from(it) }
}
object Parser { def parseCall(s: String): Int = throw new UnsupportedOperationException("Parser is not in the slice") }
import stubs._
''')
    sl.members(U + 'package.scala', 'package object utils', ['def triangle'], wrap='object utils_pkg')
    sl.members(V + 'package.scala', 'package object variant', ['type Call'], wrap='object variant_pkg')
    sl.prelude('import utils_pkg._\nimport variant_pkg._')
    sl.cut(V + 'Genotype.scala', 'object AllelePair')
    sl.members(V + 'Genotype.scala', 'object Genotype',
               ['val smallAllelePair', 'val smallAlleleJ', 'val smallAlleleK', 'val nCachedAllelePairs',
                'def cachedAlleleJ', 'def cachedAlleleK', 'def allelePairRecursive', 'def allelePairSqrt',
                'def allelePair', 'def diploidGtIndex', 'def diploidGtIndexWithSwap'], wrap='object Genotype')
    sl.cut(V + 'Call.scala', 'object Call0', 'object Call1', 'object Call2', 'object CallN', 'object Call')
    sl.handler(HANDLER)
    return sl


_jvm = None
_py = None


def jvm() -> jvmslice.Jvm:
    global _jvm
    if _jvm is None:
        _jvm = build_slice().start()
        atexit.register(_jvm.close)
    return _jvm


def py():
    """The front-end pieces under test (import hail under the host environment)."""
    global _py
    if _py is None:
        hostenv.STUB_ALLOW |= {'scipy'}          # hail.linalg imports scipy.linalg at module level; inert here
        hostenv.install()
        import hail  # noqa: F401
        from hail.expr import types as T
        from hail.genetics.call import Call
        _py = dict(tcall=T.tcall, Call=Call, allele_pair=T.allele_pair, allele_pair_sqrt=T.allele_pair_sqrt,
                   small=list(T.small_allele_pair))
    return _py


# ---- exact reference ------------------------------------------------------------------------------------

def tri(n):
    return n * (n + 1) // 2


def ref_repr(ploidy, phased, al):
    if ploidy == 0:
        return 0
    if ploidy == 1:
        return al[0]
    j, k = al
    if phased:
        return tri(j + k) + j
    lo, hi = (j, k) if j <= k else (k, j)
    return tri(hi) + lo


def ref_word(ploidy, phased, r):
    v = (r << 3) | (ploidy << 1) | (1 if phased else 0)
    return v - (1 << 32) if v >= (1 << 31) else v


def ref_pair(i):
    k = (math.isqrt(8 * i + 1) - 1) // 2
    return i - tri(k), k


def norm_alleles(ploidy, phased, al):
    if ploidy == 2 and not phased and al[0] > al[1]:
        return [al[1], al[0]]
    return list(al)


def ref_str(ploidy, phased, al):
    if ploidy == 0:
        return '|-' if phased else '-'
    if ploidy == 1:
        return ('|' if phased else '') + str(al[0])
    return f'{al[0]}{"|" if phased else "/"}{al[1]}'


def in_domain(ploidy, phased, al):
    if any(a < 0 for a in al):
        return False
    return ref_repr(ploidy, phased, al) < LIMIT


def is_nontrivial(ploidy, phased, al):
    if ploidy != 2:
        return False
    return al[0] != al[1] or phased or ref_repr(ploidy, phased, al) >= TABLE


# ---- python side ----------------------------------------------------------------------------------------

def py_encode(ploidy, phased, al):
    P = py()
    c = P['Call'](list(al[:ploidy]), phased)
    b = P['tcall']._to_encoding(c)
    if len(b) != 4:
        raise ValueError(f'call encoded to {len(b)} bytes')
    return struct.unpack('=i', b)[0], c


def py_decode(word):
    c = py()['tcall']._from_encoding(struct.pack('=i', word))
    return c


# ---- clauses --------------------------------------------------------------------------------------------

def check_calls(cases):
    """cases: list of dict(ploidy, phased, alleles).  -> list of (classes, failures) per case; one JVM round trip
    for the constructors + one for decoding the words Python wrote."""
    J = jvm()
    reqs = []
    for c in cases:
        al = list(c['alleles']) + [0, 0]
        reqs.append(f"call {c['ploidy']} {1 if c['phased'] else 0} {al[0]} {al[1]}")
    sc = J.ask_chunked(reqs)
    out = []
    pywords = []
    for c, s in zip(cases, sc):
        ploidy, phased, al = c['ploidy'], c['phased'], list(c['alleles'])
        fails = []
        cls = [f'ploidy{ploidy}', 'phased' if phased else 'unphased']
        dom = in_domain(ploidy, phased, al)
        s_err = isinstance(s, dict) and 'err' in s
        try:
            pw, pc = py_encode(ploidy, phased, al)
            p_err = None
        except Exception as e:  # noqa: BLE001
            pw, pc, p_err = None, None, f'{type(e).__name__}: {e}'
        pywords.append(pw)
        if not dom:
            cls += ['outside_domain', 'ood_scala_rejects' if s_err else 'ood_scala_accepts',
                    'ood_python_rejects' if p_err else 'ood_python_accepts']
            out.append((cls, fails, None))
            continue
        r = ref_repr(ploidy, phased, al)
        want = ref_word(ploidy, phased, r)
        nal = norm_alleles(ploidy, phased, al)
        tag = f'p{ploidy}-{"phased" if phased else "unphased"}'
        if r >= TABLE and ploidy == 2:
            cls.append('beyond_table')
        if want < 0:
            cls.append('sign_bit_set')
        if s_err:
            fails.append((f'scala-rejects-in-domain-{tag}', 'engine constructs every in-range call',
                          f'Call{ploidy}({al}, phased={phased}) failed: {s["err"]}: {s["msg"]}'))
        else:
            if s['c'] != want:
                fails.append((f'scala-word-{tag}', 'engine word equals (repr<<3 | ploidy<<1 | phased)',
                              f'Call{ploidy}({al}, phased={phased}) = {s["c"]}, reference {want}'))
            if s['n'] != s['c']:
                fails.append((f'scala-calln-{tag}', 'CallN agrees with Call0/1/2',
                              f'CallN({al}, {phased}) = {s["n"]} but Call{ploidy} = {s["c"]}'))
            d = s['d']
            if (d['pl'], d['ph'], d['al'], d['ix']) != (ploidy, phased, nal, nal) or (ploidy == 2 and d['ap'] != nal):
                fails.append((f'scala-decode-{tag}', 'engine unpacks its own word to the same call',
                              f'Call{ploidy}({al}, phased={phased}) = {s["c"]} decodes to {d}'))
            if ploidy == 2:
                lo, hi = min(al), max(al)
                if d['ud'] != tri(hi) + lo:
                    fails.append((f'scala-unphased-gt-index-{tag}', 'unphasedDiploidGtIndex = k(k+1)/2 + j',
                                  f'{al} phased={phased}: got {d["ud"]}, want {tri(hi) + lo}'))
            if d['s'] != ref_str(ploidy, phased, nal):
                fails.append((f'scala-string-{tag}', 'engine string form j/k, j|k',
                              f'{al} phased={phased}: Call.toString = {d["s"]!r}'))
        if p_err:
            fails.append((f'python-rejects-in-domain-{tag}', 'front end encodes every in-range call',
                          f'hl.Call({al}, phased={phased}) -> tcall._to_encoding failed: {p_err}'))
        else:
            if pw != want or (not s_err and pw != s['c']):
                fails.append((f'python-word-{tag}', 'Python int32 equals the engine int32',
                              f'hl.Call({al}, phased={phased}) encodes to {pw}; engine {None if s_err else s["c"]}, reference {want}'))
            try:
                back = py_decode(pw)
                if back != pc or back.phased != phased or list(back.alleles) != nal:
                    fails.append((f'python-roundtrip-{tag}', 'Python decode(encode(call)) == call',
                                  f'hl.Call({al}, phased={phased}) -> {pw} -> {back!r}'))
            except Exception as e:  # noqa: BLE001
                fails.append((f'python-roundtrip-{tag}', 'Python decode(encode(call)) == call',
                              f'hl.Call({al}, phased={phased}) -> {pw} -> decode raised {type(e).__name__}: {e}'))
            if not s_err:
                try:
                    back = py_decode(s['c'])
                    if back.phased != phased or list(back.alleles) != nal:
                        fails.append((f'python-decodes-engine-word-{tag}', 'Python unpacks the engine word to the same call',
                                      f'engine word {s["c"]} for {al} phased={phased} decodes in Python to {back!r}'))
                except Exception as e:  # noqa: BLE001
                    fails.append((f'python-decodes-engine-word-{tag}', 'Python unpacks the engine word to the same call',
                                  f'engine word {s["c"]} for {al} phased={phased}: decode raised {type(e).__name__}: {e}'))
            if str(pc) != ref_str(ploidy, phased, nal):
                fails.append((f'python-string-{tag}', 'front-end string form', f'{al} phased={phased}: str = {str(pc)!r}'))
            if ploidy == 2 and not phased:
                g = pc.unphased_diploid_gt_index()
                if g != tri(nal[1]) + nal[0]:
                    fails.append((f'python-unphased-gt-index-{tag}', 'Python gt index = k(k+1)/2 + j',
                                  f'{al}: got {g!r}, want {tri(nal[1]) + nal[0]}'))
                if isinstance(g, float):
                    cls.append('py_gt_index_is_float')
        out.append((cls, fails, (ploidy, phased, nal)))
    # second trip: engine decodes the words Python wrote
    idx = [i for i, (o, w) in enumerate(zip(out, pywords)) if o[2] is not None and w is not None]
    if idx:
        ds = J.ask_chunked([f'dec {pywords[i]}' for i in idx])
        for i, d in zip(idx, ds):
            ploidy, phased, nal = out[i][2]
            tag = f'p{ploidy}-{"phased" if phased else "unphased"}'
            if 'err' in d:
                out[i][1].append((f'scala-decodes-python-word-{tag}', 'engine unpacks the Python word to the same call',
                                  f'Python word {pywords[i]} for {nal} phased={phased}: engine failed {d["err"]}: {d["msg"]}'))
            elif (d['pl'], d['ph'], d['al']) != (ploidy, phased, nal):
                out[i][1].append((f'scala-decodes-python-word-{tag}', 'engine unpacks the Python word to the same call',
                                  f'Python word {pywords[i]} for {nal} phased={phased} decodes in the engine to {d}'))
    return [(c, f) for c, f, _ in out]


def check_word(word):
    """Arbitrary int32: both sides decode it to the same call (or both reject: ploidy bits 11)."""
    J = jvm()
    d = J.ask([f'dec {word}'])[0]
    u = word & 0xFFFFFFFF
    ploidy = (u >> 1) & 3
    cls = [f'word_ploidy{ploidy}']
    fails = []
    try:
        pc = py_decode(word)
        perr = None
    except Exception as e:  # noqa: BLE001
        pc, perr = None, f'{type(e).__name__}: {e}'
    if ploidy == 3:
        cls.append('ploidy3_both_reject' if ('err' in d and perr) else 'ploidy3_accepted_somewhere')
        return False, cls, fails          # ploidy 3 is outside the documented domain
    if 'err' in d or perr:
        fails.append(('word-decode-rejected', 'every int32 with ploidy bits <= 2 decodes on both sides',
                      f'word {word}: engine {d if "err" in d else "ok"}, python {perr or "ok"}'))
        return False, cls, fails
    r = u >> 3
    if ploidy == 0:
        want = []
    elif ploidy == 1:
        want = [r]
    else:
        j, k = ref_pair(r)
        want = [j, k - j] if (u & 1) else [j, k]
    phased = bool(u & 1)
    if (d['pl'], d['ph'], d['al']) != (ploidy, phased, want):
        fails.append(('word-decode-scala', 'engine decode equals reference', f'word {word}: engine {d}, reference {want}'))
    if (pc.ploidy, pc.phased, list(pc.alleles)) != (ploidy, phased, want):
        fails.append(('word-decode-python', 'Python decode equals the engine decode',
                      f'word {word}: python {pc!r}, engine {d["al"]} phased={d["ph"]}'))
    if str(pc) != d['s']:
        fails.append(('word-string', 'string form agrees', f'word {word}: python {str(pc)!r}, engine {d["s"]!r}'))
    nontriv = ploidy == 2 and (want[0] != want[1] or phased or r >= TABLE)
    if r >= TABLE and ploidy == 2:
        cls.append('beyond_table')
    return nontriv, cls, fails


def check_gt_range(lo, hi, rec=False):
    """Exhaustive on [lo, hi): engine allelePair / allelePairSqrt, Python allele_pair_sqrt and table, reference."""
    J = jvm()
    P = py()
    fails = []
    ops = ['aprange', 'apsqrtrange'] + (['aprecrange'] if rec else [])
    step = 50000
    for a in range(lo, hi, step):
        b = min(hi, a + step)
        rs = J.ask([f'{op} {a} {b}' for op in ops])
        for op, r in zip(ops, rs):
            if isinstance(r, dict):
                fails.append((f'scala-{op}-error', 'engine allele-pair conversion is total on [0, 2^29)',
                              f'{op} [{a},{b}) failed: {r["err"]}: {r["msg"]}'))
        sqrt_py = P['allele_pair_sqrt']
        small = P['small']
        j, k = ref_pair(a)
        for n, i in enumerate(range(a, b)):
            want = j | (k << 16)
            for op, r in zip(ops, rs):
                if not isinstance(r, dict) and r[n] != want:
                    fails.append((f'scala-{op}-value', 'allelePair(i) is the inverse of k(k+1)/2 + j (VCF order)',
                                  f'{op}({i}) = ({r[n] & 0xffff},{r[n] >> 16}), reference ({j},{k})'))
            try:
                p = sqrt_py(i)
            except Exception as e:  # noqa: BLE001
                p = f'{type(e).__name__}: {e}'
            if p != want:
                fails.append(('python-allele-pair-sqrt', 'allele_pair_sqrt agrees with exact integer sqrt',
                              f'allele_pair_sqrt({i}) = {p!r}, reference ({j},{k}) = {want}'))
            if i < len(small) and small[i] != want:
                fails.append(('python-small-table', 'small_allele_pair agrees with the formula',
                              f'small_allele_pair[{i}] = {small[i]}, reference {want}'))
            if len(fails) > 50:
                return fails
            if j == k:
                j, k = 0, k + 1
            else:
                j += 1
    return fails


def check_gt(i):
    """One genotype index (generated): engine pair, inverse, Python sqrt, decode through a call word."""
    J = jvm()
    P = py()
    j, k = ref_pair(i)
    reqs = [f'ap {i}', f'apsqrt {i}', f'gt {j} {k}', f'gtswap {k} {j}', f'gtp {j} {k}', f'fromgt {i}']
    r = J.ask(reqs)
    fails = []
    for name, got, want in (('ap', r[0], [j, k]), ('apsqrt', r[1], [j, k]), ('gt', r[2], i), ('gtswap', r[3], i),
                            ('gtp', r[4], i), ('fromgt', r[5], ref_word(2, False, i))):
        if got != want:
            fails.append((f'gt-scala-{name}', 'genotype index <-> allele pair is a bijection in VCF order',
                          f'{name} for index {i} (pair {j},{k}): got {got}, want {want}'))
    try:
        p = P['allele_pair_sqrt'](i)
    except Exception as e:  # noqa: BLE001
        p = f'{type(e).__name__}: {e}'
    if p != (j | (k << 16)):
        fails.append(('python-allele-pair-sqrt', 'allele_pair_sqrt agrees with exact integer sqrt',
                      f'allele_pair_sqrt({i}) = {p!r}, reference ({j},{k})'))
    cls = ['gt_beyond_table' if i >= TABLE else 'gt_in_table']
    if tri(k) == i or tri(k + 1) - 1 == i:
        cls.append('gt_triangular_boundary')
    return i >= TABLE, cls, fails


def check_consts():
    J = jvm()
    P = py()
    c = J.ask(['consts'])[0]
    fails = []
    want = [j | (k << 16) for k in range(8) for j in range(k + 1)]
    if c.get('table') != want or c.get('n') != len(want):
        fails.append(('scala-small-table', 'engine small table is the first 36 pairs in VCF order', f'{c}'))
    if P['small'] != want:
        fails.append(('python-small-table', 'small_allele_pair agrees with the engine table', f'{P["small"]}'))
    return fails


# ---- plan / shards --------------------------------------------------------------------------------------

def plan(tier):
    build_slice().compile()      # compile once in the parent (cache); a slice that no longer compiles => exit 2
    quick = tier == 'quick'
    n = 64 if quick else 300
    g = 4 if quick else 12
    specs = [dict(kind='grid', n=n, part=i, parts=g) for i in range(g)]
    total = 10**6 if quick else 2 * 10**7
    parts = 2 if quick else 16
    for i in range(parts):
        specs.append(dict(kind='gt_range', lo=total * i // parts, hi=total * (i + 1) // parts, rec=(i == 0)))
    w = 10**5 if quick else 4 * 10**6
    specs.append(dict(kind='gt_range', lo=LIMIT - w, hi=LIMIT, rec=False))
    per = 2500 if quick else 60000
    for _ in range(4 if quick else 8):
        specs.append(dict(kind='hyp_call', n=per))
    for _ in range(2):
        specs.append(dict(kind='hyp_word', n=per))
        specs.append(dict(kind='hyp_gt', n=per))
    return specs


def _case(ploidy, phased, al):
    return dict(kind='call', ploidy=ploidy, phased=phased, alleles=list(al))


def run_shard(spec, seed, tier):
    res = Result()
    kind = spec['kind']
    if kind == 'grid':
        res.exhaustive = True
        n, part, parts = spec['n'], spec['part'], spec['parts']
        cases = []
        if part == 0:
            for f in check_consts():
                res.fail(f[0], f[1], f[2], dict(kind='consts'))
            cases += [_case(0, False, []), _case(0, True, [])]
            for j in range(n + 1):
                cases += [_case(1, False, [j]), _case(1, True, [j])]
        for k in range(n + 1):
            if k % parts != part:
                continue
            for j in range(n + 1):
                cases += [_case(2, False, [j, k]), _case(2, True, [j, k])]
        for a in range(0, len(cases), 4000):
            chunk = cases[a:a + 4000]
            for c, (cls, fl) in zip(chunk, check_calls(chunk)):
                res.case(c, is_nontrivial(c['ploidy'], c['phased'], c['alleles']), cls)
                for sig, cl, m in fl:
                    res.fail(sig, cl, m, c)
    elif kind == 'gt_range':
        res.exhaustive = True
        lo, hi = spec['lo'], spec['hi']
        fl = check_gt_range(lo, hi, rec=spec.get('rec', False) and hi <= 10**6)
        res.evaluations += hi - lo
        res.nontrivial_extra += max(0, hi - max(lo, TABLE))
        res.count('gt_index_exhaustive', hi - lo)
        if not res.samples:
            res.samples.append(dict(kind='gt_range', lo=lo, hi=hi))
        for sig, cl, m in fl:
            res.fail(sig, cl, m, dict(kind='gt_range', lo=lo, hi=hi, detail=m[:200]))
    else:
        from hypothesis import strategies as st
        from vlib.hyp import search
        MAXK = 32767      # tri(32767) + 16383 = 2^29 - 1

        tri_near = st.integers(1, MAXK + 2).flatmap(lambda m: st.sampled_from([tri(m) - 1, tri(m), tri(m) + 1]))
        gt_index = st.one_of(st.integers(0, 80), st.sampled_from([TABLE - 1, TABLE, TABLE + 1, LIMIT - 1, LIMIT - 2,
                                                                   tri(MAXK), tri(MAXK) - 1, tri(MAXK) + 1]),
                             tri_near.filter(lambda i: i < LIMIT), st.integers(0, LIMIT - 1),
                             st.integers(LIMIT - 70000, LIMIT - 1))

        @st.composite
        def calls(draw):
            ploidy = draw(st.sampled_from([0, 1, 2, 2, 2, 2]))
            phased = draw(st.booleans())
            if ploidy == 0:
                return _case(0, phased, [])
            ood = draw(st.integers(0, 19)) == 0
            if ploidy == 1:
                if ood:
                    a = draw(st.one_of(st.integers(LIMIT, LIMIT + 5), st.integers(LIMIT, 2**31 - 1), st.integers(-3, -1)))
                else:
                    a = draw(st.one_of(st.integers(0, 70), st.sampled_from([0xFFFF, 0x10000, 2**28 - 1, 2**28, LIMIT - 1]),
                                       st.integers(0, LIMIT - 1)))
                return _case(1, phased, [a])
            if ood:
                j, k = draw(st.sampled_from([(16384, 32767), (0, 32768), (32768, 32768), (0, 46341), (0, 65535), (0, 65536),
                                             (65535, 65535), (-1, 0), (0, -1), (16384, 16384), (32767, 1), (1, 32767)]))
                return _case(2, phased, [j, k])
            i = draw(gt_index)
            j, k = ref_pair(i)
            if phased:
                # representation i = tri(j + k') + j  with k' = k - j
                return _case(2, True, [j, k - j])
            if draw(st.booleans()):
                j, k = k, j
            return _case(2, False, [j, k])

        if kind == 'hyp_call':
            def chk(case):
                (cls, fl), = check_calls([case])
                return is_nontrivial(case['ploidy'], case['phased'], case['alleles']) and 'outside_domain' not in cls, cls, fl
            search(res, PROPERTY, calls(), chk, spec['n'], seed)
        elif kind == 'hyp_word':
            def to_signed(v):
                return v - (1 << 32) if v >= (1 << 31) else v
            words = st.one_of(st.integers(-2**31, 2**31 - 1),
                              st.tuples(gt_index, st.integers(0, 7)).map(lambda t: to_signed((t[0] << 3) | t[1])))

            def chk(case):
                return check_word(case['word'])
            search(res, PROPERTY, words.map(lambda w: dict(kind='word', word=w)), chk, spec['n'], seed)
        elif kind == 'hyp_gt':
            def chk(case):
                return check_gt(case['i'])
            search(res, PROPERTY, gt_index.map(lambda i: dict(kind='gt', i=i)), chk, spec['n'], seed)
        else:
            raise ValueError(kind)
    return res


def replay(case):
    k = case.get('kind')
    if k == 'call':
        (cls, fl), = check_calls([case])
    elif k == 'word':
        _, _, fl = check_word(case['word'])
    elif k == 'gt':
        _, _, fl = check_gt(case['i'])
    elif k == 'gt_range':
        fl = check_gt_range(case['lo'], case['hi'])
    elif k == 'consts':
        fl = check_consts()
    else:
        raise ValueError(f'unknown case kind {k!r}')
    return [dict(signature=sig, clause=cl, message=m, case=case) for sig, cl, m in fl]
