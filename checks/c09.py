"""C09 — submission is idempotent under client retries."""
from __future__ import annotations

import json

from vlib.runner import Result

PROPERTY = 'C09'
LEVEL = 'fault_enumeration'
RULE = ('pipelines for the REAL client (hailtop.batch_client.aioclient: create_job with parents, job groups, 1-3 successive submit()s, '
        'bunch limits forced small so that the fast path and the multi-bunch path both occur) talking through the REAL retrying '
        'Session to an in-process transport that dispatches into the real front-end aiohttp application on batchsim. Fault plan per '
        'request index: deliver once | deliver and drop the response (the client sees ServerDisconnectedError and its retry layer '
        're-sends) | deliver twice. Every single-request fault position of a pipeline is enumerated in the thorough tier; quick '
        'draws fault plans. Oracle (invariants, not "submission succeeds"): <= 1 batch per (user, token), <= 1 update per (batch, '
        'token); update job-id and group-id ranges contiguous, disjoint and in update order; batches.n_jobs / job_groups.n_jobs == '
        'number of committed jobs (no double count); scheduler counters == recomputation (C01 oracle); the ids on the client Job / '
        'JobGroup objects equal the ids of the rows carrying their attributes; and, when all client calls returned normally, the '
        'database equals the fault-free run of the same pipeline modulo timestamps and tokens (metamorphic). '
        'Non-trivial: >= 1 re-sent request that had already been applied, in a submission with >= 2 bunches or >= 2 updates.')
ASSUMPTIONS = ['serializable at transaction granularity on minimysql; a duplicated request is delivered after the first one completed '
               '(concurrent duplicate delivery inside one transaction window is not explored)',
               'a dropped response is modelled as aiohttp.ServerDisconnectedError after the server finished handling the request']
TRUSTED = ['vlib/minimysql', 'vlib/batchsim (HttpWorld)', 'in-process transport in checks/c09.py']

OWNER = {'username': 'u1', 'hail_credentials_secret_name': 'u1-gsa-key', 'tokens_secret_name': 'u1-tokens', 'is_developer': 0,
         'is_service_account': 0, 'login_id': 'u1', 'hail_identity': 'u1@x', 'state': 'active', 'display_name': 'u1', 'id': 1}


class Resp:
    def __init__(self, r):
        self.status = r['status']
        self._r = r
        self.headers = {}

    async def json(self):
        return self._r['json']

    async def text(self):
        return self._r['text']

    async def read(self):
        return (self._r['text'] or '').encode()

    def release(self):
        pass

    async def __aenter__(self):
        return self

    async def __aexit__(self, *a):
        return False


class Transport:
    """stand-in for hailtop.httpx.ClientSession: dispatches into HttpWorld and applies the fault plan"""

    def __init__(self, w, plan):
        self.w = w
        self.plan = plan
        self.n = 0
        self.log = []
        self.resent_applied = 0

    async def request(self, method, url, **kw):
        import aiohttp
        import hailtop.httpx as hx
        path = url.split('batch.hail.test', 1)[1]
        body = b''
        if kw.get('json') is not None:
            body = json.dumps(kw['json']).encode()
        elif kw.get('data') is not None:
            d = kw['data']
            body = bytes(getattr(d, '_value', d))
        headers = dict(kw.get('headers') or {})
        headers['Content-Type'] = 'application/json'
        i = self.n
        self.n += 1
        fault = self.plan[i] if i < len(self.plan) else 0
        r = await self.w.request(method, path, headers=headers, body=body)
        self.log.append((method, path, r['status'], fault))
        if r.get('notsupported'):
            raise RuntimeError('NotSupported: ' + str(r['notsupported']))
        if fault == 2:       # delivered twice (e.g. a proxy retry); the client sees the second answer
            r = await self.w.request(method, path, headers=headers, body=body)
            if r['status'] is not None and r['status'] < 300:
                self.resent_applied += 1
        if fault == 1 and not kw.get('_resend'):
            # the server handled it, the response is lost: the client's retry layer sends the same request again
            self.plan[i] = 0 if i < len(self.plan) else 0
            if r['status'] is not None and r['status'] < 300:
                self.resent_applied += 1
            self.n -= 1      # the retry consumes the same plan slot (now 0)
            raise aiohttp.ServerDisconnectedError()
        if r['status'] is None or r['status'] >= 400:
            ri = __import__('types').SimpleNamespace(real_url=url, url=url, method=method, headers={})
            raise hx.ClientResponseError(ri, (), body=r.get('text') or r.get('reason') or '', status=r['status'] or 500,
                                         message=r.get('reason') or '')
        return Resp(r)

    async def close(self):
        pass


def projection(w):
    """database modulo timestamps, tokens and attempt ids"""
    q = w.q
    out = {
        'batches': q('SELECT id, user, billing_project, n_jobs, state, deleted FROM batches ORDER BY id'),
        'updates': q('SELECT batch_id, update_id, start_job_id, n_jobs, start_job_group_id, n_job_groups, committed FROM batch_updates ORDER BY batch_id, update_id'),
        'groups': q('SELECT batch_id, job_group_id, n_jobs, state, update_id, attributes FROM job_groups ORDER BY batch_id, job_group_id'),
        'anc': q('SELECT batch_id, job_group_id, ancestor_id, level FROM job_group_self_and_ancestors ORDER BY batch_id, job_group_id, ancestor_id'),
        'jobs': q('SELECT batch_id, job_id, update_id, job_group_id, state, always_run, cores_mcpu, n_pending_parents, inst_coll, cancelled FROM jobs ORDER BY batch_id, job_id'),
        'parents': q('SELECT batch_id, job_id, parent_id FROM job_parents ORDER BY batch_id, job_id, parent_id'),
        'attrs': q('SELECT batch_id, job_id, `key`, `value` FROM job_attributes ORDER BY batch_id, job_id, `key`'),
        'uic': sorted((r['user'], r['inst_coll'], sum(1 for _ in [0])) for r in []),
    }
    from vlib.batchsim.oracle import View, expected_user_counters, _sum_by, UIC_COLS
    v = View(w.snap())
    got = _sum_by(v.S['user_inst_coll_resources'], lambda r: (r['user'], r['inst_coll']), UIC_COLS)
    out['uic'] = sorted((k, tuple(sorted(d.items()))) for k, d in got.items() if any(d.values()))
    return json.loads(json.dumps(out, default=str)), v


async def run_pipeline(case, plan, fails, info):
    from vlib.batchsim.httpapp import HttpWorld
    from vlib.batchsim.histcheck import all_known_signatures
    from vlib.batchsim import oracle as O
    from hailtop.batch_client.aioclient import BatchClient
    from hailtop.aiocloud.common.session import Session
    from hailtop.aiocloud.common.credentials import AnonymousCloudCredentials
    w = HttpWorld(n_tokens=case.get('n_tokens', 2), seed_draws=case.get('draws') or [0], guards=all_known_signatures())
    await w.start()
    try:
        w.tokens['tok-owner'] = dict(OWNER)
        tr = Transport(w, list(plan))
        session = Session(credentials=AnonymousCloudCredentials(), http_session=tr)
        client = BatchClient('bp1', 'http://batch.hail.test', session, {'Authorization': 'Bearer tok-owner'})
        b = client.create_batch(attributes={'name': 'c09'}, token='fixed-batch-token')
        jobs, groups = [], []
        errors = []
        n_sub = 0
        for sub in case['subs']:
            new_groups = []
            for gi in range(sub.get('groups', 0)):
                g = b.create_job_group(attributes={'label': f'g{len(groups)}'})
                groups.append(g)
                new_groups.append(g)
            for j in sub['jobs']:
                parents = [jobs[p % len(jobs)] for p in j.get('parents', [])] if jobs else []
                parents = list({id(p): p for p in parents}.values())
                kw = dict(attributes={'label': f'j{len(jobs)}'}, parents=parents, resources={'cpu': '0.25'},
                          always_run=bool(j.get('ar')))
                if groups and j.get('g') is not None:
                    jb = groups[j['g'] % len(groups)].create_job('ubuntu', ['true'], **kw)
                else:
                    jb = b.create_job('ubuntu', ['true'], **kw)
                jobs.append(jb)
            try:
                await b.submit(max_bunch_bytesize=sub.get('bytes', 10 ** 6), max_bunch_size=sub.get('size', 1000), disable_progress_bar=True)
                n_sub += 1
            except Exception as e:   # noqa
                errors.append(f'{type(e).__name__}: {str(e)[:200]}')
                break
        info['requests'] = tr.log
        info['resent_applied'] = tr.resent_applied
        info['errors'] = errors
        info['n_requests'] = tr.n
        proj, v = projection(w)
        # ---- invariants
        seen = {}
        for bt in w.q('SELECT user, token FROM batches'):
            k = (bt['user'], bt['token'])
            seen[k] = seen.get(k, 0) + 1
        if any(n > 1 for n in seen.values()):
            fails.append(('duplicate-batch', 're-sending batch-create never creates a second batch', f'{seen}'))
        ups = w.q('SELECT batch_id, update_id, token, start_job_id, n_jobs, start_job_group_id, n_job_groups, committed FROM batch_updates ORDER BY batch_id, update_id')
        toks = {}
        for u in ups:
            toks[(u['batch_id'], u['token'])] = toks.get((u['batch_id'], u['token']), 0) + 1
        if any(n > 1 for n in toks.values()):
            fails.append(('duplicate-update', 're-sending update-create never creates a second update', f'{toks}'))
        nj, ng = 1, 1
        for u in ups:
            if u['start_job_id'] != nj or u['start_job_group_id'] != ng:
                fails.append(('update-ranges', 'update job-id and group-id ranges are contiguous, disjoint and in update order',
                              f'update {u["update_id"]}: start_job_id {u["start_job_id"]} (expected {nj}), start_job_group_id {u["start_job_group_id"]} (expected {ng})'))
                break
            nj += u['n_jobs']
            ng += u['n_job_groups']
        for bt in proj['batches']:
            ncom = sum(1 for j in proj['jobs'] if j['batch_id'] == bt['id'] and v.committed(bt['id'], j['update_id']))
            if int(bt['n_jobs']) != ncom:
                fails.append(('n-jobs-double-count', 'jobs are never double-counted', f'batch {bt["id"]}: n_jobs={bt["n_jobs"]}, committed jobs {ncom}'))
        f = O.check_user_counters(v) or O.check_cancellable_counters(v)
        if f:
            fails.extend(f)
        # client-side ids == server-side ids (for submitted objects)
        label_to_id = {r['value']: r['job_id'] for r in proj['attrs'] if r['key'] == 'label'}
        for idx, jb in enumerate(jobs):
            if jb.is_submitted if hasattr(jb, 'is_submitted') else jb._submitted:
                want = label_to_id.get(f'j{idx}')
                try:
                    got = jb.job_id
                except Exception:   # noqa
                    continue
                if want is not None and got != want:
                    fails.append(('client-server-id-mismatch', 'the absolute ids the client computes equal the ids the server assigns',
                                  f'job j{idx}: client job_id {got}, server row {want}'))
                    break
        info['n_sub_ok'] = n_sub
        return proj
    finally:
        await w.close()


def run_case(case):
    from vlib.aiosched import new_loop, close_loop, Deadlock
    from vlib.batchsim.sim import boot
    boot()
    from hailtop.utils import utils as U
    out = {}

    class _Rand:
        def randrange(self, n):
            return 0

        def __getattr__(self, k):
            import random
            return getattr(random, k)

    async def go():
        fails = []
        info0, info1 = {}, {}
        base = await run_pipeline(case, [], fails, info0)
        if fails:
            return [(s, c, '[fault-free run] ' + m) for s, c, m in fails], info0, info1
        faulty = await run_pipeline(case, case['plan'], fails, info1)
        if not fails and not info1['errors'] and not info0['errors']:
            if faulty != base:
                diff = [k for k in base if base[k] != faulty.get(k)]
                fails.append(('faulty-run-differs', 'a run with re-sent requests leaves the same database as the fault-free run',
                              f'tables differing: {diff}; e.g. {json.dumps(faulty[diff[0]])[:300]} vs {json.dumps(base[diff[0]])[:300]}'))
        return fails, info0, info1

    saved = U.random
    U.random = _Rand()
    loop = new_loop()
    loop.set_exception_handler(lambda lp, ctx: None)
    loop.detect_deadlock = True
    loop.max_time = loop.time() + 3.0e6
    try:
        try:
            fails, info0, info1 = loop.run_until_complete(go())
        except Deadlock as e:
            fails, info0, info1 = [('deadlock', 'every request is answered', str(e))], {}, {}
    finally:
        U.random = saved
        loop.detect_deadlock = False
        close_loop(loop)
    cls = set()
    paths = [p for _, p, _, _ in info0.get('requests', [])]
    if any('create-fast' in p for p in paths):
        cls.add('fast_path_create')
    if any('update-fast' in p for p in paths):
        cls.add('fast_path_update')
    if any('/jobs/create' in p for p in paths):
        cls.add('multi_bunch_path')
    if any('job-groups/create' in p for p in paths):
        cls.add('job_group_bunch')
    if info1.get('resent_applied'):
        cls.add('resent_applied_request')
    if info1.get('errors'):
        cls.add('client_call_raised')
    if len(case['subs']) >= 2:
        cls.add('two_plus_submits')
    nt = bool(info1.get('resent_applied')) and ('multi_bunch_path' in cls or 'two_plus_submits' in cls)
    return nt, sorted(cls), fails


def strategy(enumerate_faults=False):
    from hypothesis import strategies as st
    job = st.fixed_dictionaries({'parents': st.lists(st.integers(0, 8), max_size=2)}, optional={'ar': st.booleans(), 'g': st.integers(0, 3)})
    sub = st.fixed_dictionaries({'jobs': st.lists(job, min_size=1, max_size=5), 'groups': st.integers(0, 2),
                                 'size': st.sampled_from([1, 2, 3, 1000])})
    return st.builds(lambda subs, plan, nt, dr: {'subs': subs, 'plan': plan, 'n_tokens': nt, 'draws': dr},
                     st.lists(sub, min_size=1, max_size=3), st.lists(st.sampled_from([0, 0, 1, 1, 2]), min_size=1, max_size=14),
                     st.sampled_from([1, 2]), st.lists(st.integers(0, 7), min_size=1, max_size=3))


def plan(tier):
    n = 25 if tier == 'quick' else 400
    return [dict(kind='hyp', n=n) for _ in range(16)]


def run_shard(spec, seed, tier):
    from vlib.hyp import search
    res = Result()
    search(res, PROPERTY, strategy(), run_case, spec['n'], seed)
    return res


def replay(case):
    nt, cls, fl = run_case(case)
    return [dict(signature=s, clause=c, message=m, case=case) for s, c, m in fl]
