"""C09 — submission is idempotent under client retries."""
from __future__ import annotations

import json

from vlib.runner import Result

PROPERTY = 'C09'
LEVEL = 'fault_enumeration'
RULE = ('pipelines for the REAL client (hailtop.batch_client.aioclient: create_job with parents, job groups, 1-3 successive submit()s, '
        'bunch limits forced small so that the fast path and the multi-bunch path both occur) talking through the REAL retrying '
        'Session to an in-process transport that dispatches into the real front-end aiohttp application on batchsim. Fault plan per '
        'request index: deliver once | deliver and drop the response (the client sees ServerDisconnectedError and its retry layer '
        're-sends) | deliver twice. Every single-request fault position of a pipeline is enumerated in the thorough tier; quick '
        'draws fault plans. Oracle (invariants, not "submission succeeds"): <= 1 batch per (user, token), <= 1 update per (batch, '
        'token); update job-id and group-id ranges contiguous, disjoint and in update order; batches.n_jobs / job_groups.n_jobs == '
        'number of committed jobs (no double count); scheduler counters == recomputation (C01 oracle); the ids on the client Job / '
        'JobGroup objects equal the ids of the rows carrying their attributes; and, when all client calls returned normally, the '
        'database equals the fault-free run of the same pipeline modulo timestamps and tokens (metamorphic; single-client cases). In half '
        'of the cases a SECOND client adds its own update to the same batch while the first client submits another one, their requests '
        'delivered in a generated order (invariants only). '
        'Non-trivial: >= 1 re-sent request that had already been applied, in a submission with >= 2 bunches or >= 2 updates.')
ASSUMPTIONS = ['serializable at transaction granularity on minimysql; a duplicated request is delivered after the first one completed '
               '(concurrent duplicate delivery inside one transaction window is not explored)',
               'a dropped response is modelled as aiohttp.ServerDisconnectedError after the server finished handling the request']
TRUSTED = ['vlib/minimysql', 'vlib/batchsim (HttpWorld)', 'in-process transport in checks/c09.py']

OWNER = {'username': 'u1', 'hail_credentials_secret_name': 'u1-gsa-key', 'tokens_secret_name': 'u1-tokens', 'is_developer': 0,
         'is_service_account': 0, 'login_id': 'u1', 'hail_identity': 'u1@x', 'state': 'active', 'display_name': 'u1', 'id': 1}


class Resp:
    def __init__(self, r):
        self.status = r['status']
        self._r = r
        self.headers = {}

    async def json(self):
        return self._r['json']

    async def text(self):
        return self._r['text']

    async def read(self):
        return (self._r['text'] or '').encode()

    def release(self):
        pass

    async def __aenter__(self):
        return self

    async def __aexit__(self, *a):
        return False


class Turns:
    """Delivers the requests of two concurrently submitting clients in the order given by the case (a list of client ids)."""

    def __init__(self, order):
        self.order = list(order)
        self.waiting = {}
        self.finished = set()
        self.active = False

    def _kick(self):
        while True:
            if not self.order:
                for cid in list(self.waiting):
                    for fut in self.waiting.pop(cid):
                        if not fut.done():
                            fut.set_result(None)
                return
            nxt = self.order[0]
            if self.waiting.get(nxt):
                self.order.pop(0)
                fut = self.waiting[nxt].pop(0)      # a client may have several requests in flight (bunches go out in parallel)
                if not self.waiting[nxt]:
                    del self.waiting[nxt]
                if not fut.done():
                    fut.set_result(None)
                if self.order:
                    return
                continue          # schedule exhausted: everybody still waiting goes ahead
            if nxt in self.finished:
                self.order.pop(0)
                continue
            return      # the scheduled client has not reached its next request yet

    async def wait_turn(self, cid):
        import asyncio
        if not self.active:
            return
        fut = asyncio.get_event_loop().create_future()
        self.waiting.setdefault(cid, []).append(fut)
        self._kick()
        await fut

    def done(self, cid):
        self.finished.add(cid)
        # with only one client left there is nothing to interleave any more
        self.order = []
        self._kick()


class Transport:
    """stand-in for hailtop.httpx.ClientSession: dispatches into HttpWorld and applies the fault plan"""

    def __init__(self, w, plan, turns=None, cid=0, shared=None):
        self.w = w
        self.plan = plan
        self.turns = turns
        self.cid = cid
        self.shared = shared if shared is not None else self
        self.n = 0
        self.log = []
        self.resent_applied = 0

    async def request(self, method, url, **kw):
        import aiohttp
        import hailtop.httpx as hx
        if self.turns is not None:
            await self.turns.wait_turn(self.cid)
        try:
            if self.shared is not self:
                return await self.shared._deliver(method, url, kw)
            return await self._deliver(method, url, kw)
        finally:
            if self.turns is not None and self.turns.active:
                self.turns._kick()        # the delivery is over: the next request in the schedule may go

    async def _deliver(self, method, url, kw):
        import aiohttp
        import hailtop.httpx as hx
        path = url.split('batch.hail.test', 1)[1]
        body = b''
        if kw.get('json') is not None:
            body = json.dumps(kw['json']).encode()
        elif kw.get('data') is not None:
            d = kw['data']
            body = bytes(getattr(d, '_value', d))
        headers = dict(kw.get('headers') or {})
        headers['Content-Type'] = 'application/json'
        i = self.n
        self.n += 1
        fault = self.plan[i] if i < len(self.plan) else 0
        r = await self.w.request(method, path, headers=headers, body=body)
        self.log.append((method, path, r['status'], fault))
        if r.get('notsupported'):
            raise RuntimeError('NotSupported: ' + str(r['notsupported']))
        if fault == 2:       # delivered twice (e.g. a proxy retry); the client sees the second answer
            r = await self.w.request(method, path, headers=headers, body=body)
            if r['status'] is not None and r['status'] < 300:
                self.resent_applied += 1
        if fault == 1 and not kw.get('_resend'):
            # the server handled it, the response is lost: the client's retry layer sends the same request again
            self.plan[i] = 0 if i < len(self.plan) else 0
            if r['status'] is not None and r['status'] < 300:
                self.resent_applied += 1
            self.n -= 1      # the retry consumes the same plan slot (now 0)
            raise aiohttp.ServerDisconnectedError()
        if r['status'] is None or r['status'] >= 400:
            ri = __import__('types').SimpleNamespace(real_url=url, url=url, method=method, headers={})
            raise hx.ClientResponseError(ri, (), body=r.get('text') or r.get('reason') or '', status=r['status'] or 500,
                                         message=r.get('reason') or '')
        return Resp(r)

    async def close(self):
        pass


def projection(w):
    """database modulo timestamps, tokens and attempt ids"""
    q = w.q
    out = {
        'batches': q('SELECT id, user, billing_project, n_jobs, state, deleted FROM batches ORDER BY id'),
        'updates': q('SELECT batch_id, update_id, start_job_id, n_jobs, start_job_group_id, n_job_groups, committed FROM batch_updates ORDER BY batch_id, update_id'),
        'groups': q('SELECT batch_id, job_group_id, n_jobs, state, update_id, attributes FROM job_groups ORDER BY batch_id, job_group_id'),
        'anc': q('SELECT batch_id, job_group_id, ancestor_id, level FROM job_group_self_and_ancestors ORDER BY batch_id, job_group_id, ancestor_id'),
        'jobs': q('SELECT batch_id, job_id, update_id, job_group_id, state, always_run, cores_mcpu, n_pending_parents, inst_coll, cancelled FROM jobs ORDER BY batch_id, job_id'),
        'parents': q('SELECT batch_id, job_id, parent_id FROM job_parents ORDER BY batch_id, job_id, parent_id'),
        'attrs': q('SELECT batch_id, job_id, `key`, `value` FROM job_attributes ORDER BY batch_id, job_id, `key`'),
        'uic': sorted((r['user'], r['inst_coll'], sum(1 for _ in [0])) for r in []),
    }
    from vlib.batchsim.oracle import View, expected_user_counters, _sum_by, UIC_COLS
    v = View(w.snap())
    got = _sum_by(v.S['user_inst_coll_resources'], lambda r: (r['user'], r['inst_coll']), UIC_COLS)
    out['uic'] = sorted((k, tuple(sorted(d.items()))) for k, d in got.items() if any(d.values()))
    return json.loads(json.dumps(out, default=str)), v


async def run_pipeline(case, plan, fails, info):
    from vlib.batchsim.httpapp import HttpWorld
    from vlib.batchsim.histcheck import all_known_signatures
    from vlib.batchsim import oracle as O
    from hailtop.batch_client.aioclient import BatchClient
    from hailtop.aiocloud.common.session import Session
    from hailtop.aiocloud.common.credentials import AnonymousCloudCredentials
    w = HttpWorld(n_tokens=case.get('n_tokens', 2), seed_draws=case.get('draws') or [0], guards=all_known_signatures())
    await w.start()
    try:
        w.tokens['tok-owner'] = dict(OWNER)
        tr = Transport(w, list(plan))
        session = Session(credentials=AnonymousCloudCredentials(), http_session=tr)
        client = BatchClient('bp1', 'http://batch.hail.test', session, {'Authorization': 'Bearer tok-owner'})
        b = client.create_batch(attributes={'name': 'c09'}, token='fixed-batch-token')
        jobs, groups = [], []
        errors = []
        n_sub = 0
        for sub in case['subs']:
            new_groups = []
            for gi in range(sub.get('groups', 0)):
                g = b.create_job_group(attributes={'label': f'g{len(groups)}'})
                groups.append(g)
                new_groups.append(g)
            for j in sub['jobs']:
                parents = [jobs[p % len(jobs)] for p in j.get('parents', [])] if jobs else []
                parents = list({id(p): p for p in parents}.values())
                kw = dict(attributes={'label': f'j{len(jobs)}'}, parents=parents, resources={'cpu': '0.25'},
                          always_run=bool(j.get('ar')))
                if groups and j.get('g') is not None:
                    jb = groups[j['g'] % len(groups)].create_job('ubuntu', ['true'], **kw)
                else:
                    jb = b.create_job('ubuntu', ['true'], **kw)
                jobs.append(jb)
            try:
                await b.submit(max_bunch_bytesize=sub.get('bytes', 10 ** 6), max_bunch_size=sub.get('size', 1000), disable_progress_bar=True)
                n_sub += 1
            except Exception as e:   # noqa
                errors.append(f'{type(e).__name__}: {str(e)[:200]}')
                break
        info['two_clients'] = False
        if case.get('other') and b.is_created and not errors:
            # a second client adds its own update to the same batch while the first submits another one; the transport delivers
            # their requests in the generated order
            turns = Turns(case['other'].get('order') or [])
            tr.turns, tr.cid = turns, 0
            tr2 = Transport(w, tr.plan, turns=turns, cid=1, shared=tr)
            client2 = BatchClient('bp1', 'http://batch.hail.test', Session(credentials=AnonymousCloudCredentials(), http_session=tr2),
                                  {'Authorization': 'Bearer tok-owner'})
            from hailtop.batch_client.aioclient import Batch as _B
            b2 = _B(client2, b.id, attributes={'name': 'c09'}, token='fixed-batch-token')
            jobs2 = []
            for j in case['other']['jobs2']:
                jobs2.append(b2.create_job('ubuntu', ['true'], attributes={'label': f'k{len(jobs2)}'}, resources={'cpu': '0.25'},
                                           parents=[jobs2[p % len(jobs2)] for p in j.get('parents', [])] if jobs2 else []))
            n1 = len(jobs)
            for j in case['other']['jobs1']:
                jobs.append(b.create_job('ubuntu', ['true'], attributes={'label': f'j{len(jobs)}'}, resources={'cpu': '0.25'},
                                         parents=[jobs[p % len(jobs)] for p in j.get('parents', [])]))
            size = case['other'].get('size', 2)

            async def sub(bb, cid):
                try:
                    await bb.submit(max_bunch_bytesize=10 ** 6, max_bunch_size=size, disable_progress_bar=True)
                except Exception as e:   # noqa
                    errors.append(f'client{cid}: {type(e).__name__}: {str(e)[:200]}')
                finally:
                    turns.done(cid)
            import asyncio
            turns.active = True
            await asyncio.gather(sub(b, 0), sub(b2, 1))
            turns.active = False
            info['two_clients'] = True
            info['jobs2'] = jobs2
        info['requests'] = tr.log
        info['resent_applied'] = tr.resent_applied
        info['errors'] = errors
        info['n_requests'] = tr.n
        proj, v = projection(w)
        # ---- invariants
        seen = {}
        for bt in w.q('SELECT user, token FROM batches'):
            k = (bt['user'], bt['token'])
            seen[k] = seen.get(k, 0) + 1
        if any(n > 1 for n in seen.values()):
            fails.append(('duplicate-batch', 're-sending batch-create never creates a second batch', f'{seen}'))
        ups = w.q('SELECT batch_id, update_id, token, start_job_id, n_jobs, start_job_group_id, n_job_groups, committed FROM batch_updates ORDER BY batch_id, update_id')
        toks = {}
        for u in ups:
            toks[(u['batch_id'], u['token'])] = toks.get((u['batch_id'], u['token']), 0) + 1
        if any(n > 1 for n in toks.values()):
            fails.append(('duplicate-update', 're-sending update-create never creates a second update', f'{toks}'))
        nj, ng = 1, 1
        for u in ups:
            if u['start_job_id'] != nj or u['start_job_group_id'] != ng:
                fails.append(('update-ranges', 'update job-id and group-id ranges are contiguous, disjoint and in update order',
                              f'update {u["update_id"]}: start_job_id {u["start_job_id"]} (expected {nj}), start_job_group_id {u["start_job_group_id"]} (expected {ng})'))
                break
            nj += u['n_jobs']
            ng += u['n_job_groups']
        for bt in proj['batches']:
            ncom = sum(1 for j in proj['jobs'] if j['batch_id'] == bt['id'] and v.committed(bt['id'], j['update_id']))
            if int(bt['n_jobs']) != ncom:
                fails.append(('n-jobs-double-count', 'jobs are never double-counted', f'batch {bt["id"]}: n_jobs={bt["n_jobs"]}, committed jobs {ncom}'))
        f = O.check_user_counters(v) or O.check_cancellable_counters(v)
        if f:
            fails.extend(f)
        # client-side ids == server-side ids (for submitted objects)
        label_to_id = {r['value']: r['job_id'] for r in proj['attrs'] if r['key'] == 'label'}
        for idx, jb in enumerate(jobs):
            if jb.is_submitted if hasattr(jb, 'is_submitted') else jb._submitted:
                want = label_to_id.get(f'j{idx}')
                try:
                    got = jb.job_id
                except Exception:   # noqa
                    continue
                if want is not None and got != want:
                    fails.append(('client-server-id-mismatch', 'the absolute ids the client computes equal the ids the server assigns',
                                  f'job j{idx}: client job_id {got}, server row {want}'))
                    break
        for idx, jb in enumerate(info.get('jobs2') or []):
            if jb._submitted:
                want = label_to_id.get(f'k{idx}')
                if want is not None and jb.job_id != want:
                    fails.append(('client-server-id-mismatch', 'the absolute ids the client computes equal the ids the server assigns',
                                  f'second client job k{idx}: client job_id {jb.job_id}, server row {want}'))
                    break
        info.pop('jobs2', None)
        info['n_sub_ok'] = n_sub
        return proj
    finally:
        await w.close()


def run_case(case):
    from vlib.aiosched import new_loop, close_loop, Deadlock
    from vlib.batchsim.sim import boot
    boot()
    from hailtop.utils import utils as U
    out = {}

    class _Rand:
        def randrange(self, n):
            return 0

        def __getattr__(self, k):
            import random
            return getattr(random, k)

    async def go():
        fails = []
        info0, info1 = {}, {}
        base = await run_pipeline(case, [], fails, info0)
        if fails:
            return [(s, c, '[fault-free run] ' + m) for s, c, m in fails], info0, info1
        faulty = await run_pipeline(case, case['plan'], fails, info1)
        if not fails and not info1['errors'] and not info0['errors'] and not case.get('other'):
            if faulty != base:
                diff = [k for k in base if base[k] != faulty.get(k)]
                fails.append(('faulty-run-differs', 'a run with re-sent requests leaves the same database as the fault-free run',
                              f'tables differing: {diff}; e.g. {json.dumps(faulty[diff[0]])[:300]} vs {json.dumps(base[diff[0]])[:300]}'))
        return fails, info0, info1

    saved = U.random
    U.random = _Rand()
    loop = new_loop()
    loop.set_exception_handler(lambda lp, ctx: None)
    loop.detect_deadlock = True
    loop.max_time = loop.time() + 3.0e6
    try:
        try:
            fails, info0, info1 = loop.run_until_complete(go())
        except Deadlock as e:
            fails, info0, info1 = [('deadlock', 'every request is answered', str(e))], {}, {}
    finally:
        U.random = saved
        loop.detect_deadlock = False
        close_loop(loop)
    cls = set()
    paths = [p for _, p, _, _ in info0.get('requests', [])]
    if any('create-fast' in p for p in paths):
        cls.add('fast_path_create')
    if any('update-fast' in p for p in paths):
        cls.add('fast_path_update')
    if any('/jobs/create' in p for p in paths):
        cls.add('multi_bunch_path')
    if any('job-groups/create' in p for p in paths):
        cls.add('job_group_bunch')
    if info1.get('resent_applied'):
        cls.add('resent_applied_request')
    if info1.get('errors'):
        cls.add('client_call_raised')
    if len(case['subs']) >= 2:
        cls.add('two_plus_submits')
    if info1.get('two_clients'):
        cls.add('two_clients_interleaved')
    nt = bool(info1.get('resent_applied')) and ('multi_bunch_path' in cls or 'two_plus_submits' in cls)
    return nt, sorted(cls), fails


def strategy(enumerate_faults=False):
    from hypothesis import strategies as st
    job = st.fixed_dictionaries({'parents': st.lists(st.integers(0, 8), max_size=2)}, optional={'ar': st.booleans(), 'g': st.integers(0, 3)})
    sub = st.fixed_dictionaries({'jobs': st.lists(job, min_size=1, max_size=5), 'groups': st.integers(0, 2),
                                 'size': st.sampled_from([1, 2, 3, 1000])})
    pj = st.fixed_dictionaries({'parents': st.lists(st.integers(0, 8), max_size=2)})
    other = st.one_of(st.none(), st.fixed_dictionaries({'jobs1': st.lists(pj, min_size=1, max_size=4), 'jobs2': st.lists(pj, min_size=1, max_size=4),
                                                        'order': st.lists(st.sampled_from([0, 1]), max_size=12), 'size': st.sampled_from([1, 2, 1000])}))

    def mk(subs, plan, nt, dr, oth):
        c = {'subs': subs, 'plan': plan, 'n_tokens': nt, 'draws': dr}
        if oth is not None:
            c['other'] = oth
        return c
    return st.builds(mk, st.lists(sub, min_size=1, max_size=3), st.lists(st.sampled_from([0, 0, 1, 1, 2]), min_size=1, max_size=14),
                     st.sampled_from([1, 2]), st.lists(st.integers(0, 7), min_size=1, max_size=3), other)


def plan(tier):
    n = 25 if tier == 'quick' else 400
    return [dict(kind='hyp', n=n) for _ in range(16)]


def run_shard(spec, seed, tier):
    from vlib.hyp import search
    res = Result()
    search(res, PROPERTY, strategy(), run_case, spec['n'], seed)
    return res


def replay(case):
    nt, cls, fl = run_case(case)
    return [dict(signature=s, clause=c, message=m, case=case) for s, c, m in fl]
