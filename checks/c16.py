"""C16 — worker CPU semaphore (batch.semaphore.FIFOWeightedSemaphore) is safe, FIFO and live."""
from __future__ import annotations

import itertools

from vlib import hostenv
from vlib.runner import Result

PROPERTY = 'C16'
LEVEL = 'exploration'
RULE = ('op lists over acquire(w<=capacity) [a new task entering `async with sem(w)`] and release(i) [the i-th current holder '
        'leaves its with-block] and release-then-reacquire(i, w) [the releasing task acquires again in the same task step]; the loop is '
        'drained to quiescence after an op unless the op is tagged same-step (the next op then happens before anybody woken by this '
        'one has resumed: two releases in one loop step, an arrival in the step of a release). Oracle (at quiescent points): invariants from the statement '
        '(sum held <= capacity; grant order == arrival order -- as a set prefix once same-step ops occurred, because a waiter granted inside release() enters its body after a later fast-path arrival; head waiter blocked only if its weight > free; '
        'sem.value == capacity - sum held) plus agreement with a deque reference model. Exhaustive enumeration of all '
        'sequences up to a length bound for small capacities; Hypothesis lists for capacity 1..16. Non-trivial: some release '
        'wakes >= 2 waiters, or leaves a fitting non-head waiter blocked behind a too-heavy head.')
ASSUMPTIONS = ['single-threaded asyncio: the only nondeterminism is the order of acquire/release calls, which the op list fixes',
               'waiter cancellation is outside the statement of C16 and is not generated']
TRUSTED = ['vlib/aiosched.py virtual loop', 'reference FIFO model in checks/c16.py']


def run_case(case):
    """-> (nontrivial, classes, failures)"""
    hostenv.install()
    import asyncio
    from batch.semaphore import FIFOWeightedSemaphore
    from vlib.aiosched import new_loop, close_loop, Gate

    cap = case['cap']
    ops = case['ops']
    loop = new_loop()
    fails = []
    classes = set()
    nontrivial = False
    try:
        sem = FIFOWeightedSemaphore(cap)
        granted = []          # ids in grant order
        holding = {}          # id -> weight (inside with-block)
        gates = {}
        weights = {}
        arrival = []
        tasks = {}
        # reference model
        m_free = cap
        m_queue = []          # [(id, w)]
        m_holding = {}

        reacq = {}            # holder id -> (new id, new weight): on release the same task acquires again without yielding

        async def body(i, w):
            while True:
                async with sem(w):
                    granted.append(i)
                    holding[i] = w
                    await gates[i]
                    del holding[i]
                nxt = reacq.pop(i, None)
                if nxt is None:
                    return
                i, w = nxt

        def model_release(w):
            nonlocal m_free
            m_free += w
            while m_queue and m_free >= m_queue[0][1]:
                j, wj = m_queue.pop(0)
                m_free -= wj
                m_holding[j] = wj

        next_id = 0
        for step, op in enumerate(ops):
            woken_before = len(granted)
            if op[0] == 'a':
                w = 1 + (op[1] - 1) % cap
                i = next_id
                next_id += 1
                weights[i] = w
                gates[i] = Gate(loop)
                arrival.append(i)
                tasks[i] = loop.create_task(body(i, w))
                if not m_queue and m_free >= w:
                    m_free -= w
                    m_holding[i] = w
                else:
                    m_queue.append((i, w))
            else:
                hs = sorted(i for i in holding if not gates[i].is_open)
                if not hs:
                    classes.add('skipped_release')
                    continue
                i = hs[op[1] % len(hs)]
                if op[0] == 'ra':
                    # the releasing task acquires again at once (same task step): it arrives behind everybody already queued
                    j = next_id
                    next_id += 1
                    w2 = 1 + (op[2] - 1) % cap
                    weights[j] = w2
                    gates[j] = Gate(loop)
                    reacq[i] = (j, w2)
                    classes.add('release_then_reacquire_same_step')
                gates[i].open()
                w = m_holding.pop(i)
                model_release(w)
                if op[0] == 'ra':
                    arrival.append(j)
                    if not m_queue and m_free >= w2:
                        m_free -= w2
                        m_holding[j] = w2
                    else:
                        m_queue.append((j, w2))
            if op[-1] == 'same-step' and step + 1 < len(ops):
                # the next op happens in the same event-loop step: nobody woken by this one has resumed yet
                classes.add('ops_in_same_loop_step')
                continue
            loop.settle()
            # ---- oracle after every op
            held = sum(holding.values())
            if held > cap:
                fails.append(('over-capacity', 'sum of granted weights <= capacity', f'step {step}: held {held} > cap {cap}'))
            # the order in which bodies are ENTERED equals the grant order only while every woken waiter resumes before the next
            # op; with ops in the same loop step a waiter granted inside release() enters after a later arrival that was granted
            # on the fast path, so there the granted SET must be a prefix of the arrival order
            same_step_seen = any(o[-1] == 'same-step' or o[0] == 'ra' for o in ops[:step + 1])
            if (granted != arrival[:len(granted)]) if not same_step_seen else (sorted(granted) != sorted(arrival[:len(granted)])):
                fails.append(('not-fifo', 'grants happen strictly in arrival order',
                              f'step {step}: grant order {granted} vs arrival {arrival}'))
            waiting = [i for i in arrival if i not in granted]
            free = cap - held
            if waiting and weights[waiting[0]] <= free:
                fails.append(('lost-wakeup', 'head waiter is not blocked while enough capacity is free',
                              f'step {step}: head {waiting[0]} weight {weights[waiting[0]]} <= free {free}'))
            if sem.value != free:
                fails.append(('value-drift', 'sem.value == capacity - sum held', f'step {step}: value {sem.value} free {free}'))
            if set(holding) != set(m_holding):
                fails.append(('model-mismatch', 'holders equal the reference FIFO model',
                              f'step {step}: holders {sorted(holding)} model {sorted(m_holding)}'))
            if op[0] in ('r', 'ra'):
                woke = len(granted) - woken_before
                if woke >= 2:
                    nontrivial = True
                    classes.add('release_wakes_2plus')
                if len(waiting) >= 2 and any(weights[j] <= free for j in waiting[1:]):
                    nontrivial = True
                    classes.add('fitting_nonhead_blocked')
            if waiting:
                classes.add('has_waiters')
            if fails:
                break
    finally:
        close_loop(loop)
    return nontrivial, sorted(classes), fails


def plan(tier):
    specs = []
    if tier == 'quick':
        for cap in (1, 2, 3):
            specs.append(dict(kind='exh', cap=cap, maxlen=7 if cap < 3 else 6))
        specs += [dict(kind='hyp', n=1500) for _ in range(8)]
    else:
        for cap in (1, 2, 3, 4):
            for first in range(cap):
                specs.append(dict(kind='exh', cap=cap, maxlen={1: 12, 2: 10, 3: 9, 4: 8}[cap], first=first))
        specs += [dict(kind='hyp', n=25000) for _ in range(12)]
    return specs


def _enumerate(cap, maxlen, first=None):
    """All op sequences (prefix-closed) where release indices refer to existing holders, up to maxlen.
    A cheap abstract model tracks how many holders exist so that only meaningful releases are generated."""
    def rec(seq, free, queue, nhold_ws):
        if seq:
            yield list(seq)
        if len(seq) >= maxlen:
            return
        for w in range(1, cap + 1):
            if not seq and first is not None and w != first + 1:
                continue
            if not queue and free >= w:
                yield from rec(seq + [['a', w]], free - w, queue, nhold_ws + [w])
            else:
                yield from rec(seq + [['a', w]], free, queue + [w], nhold_ws)
        for idx in range(len(nhold_ws)):
            f = free + nhold_ws[idx]
            hw = nhold_ws[:idx] + nhold_ws[idx + 1:]
            q = list(queue)
            while q and f >= q[0]:
                f -= q[0]
                hw = hw + [q.pop(0)]
            if not seq and first is not None:
                continue
            yield from rec(seq + [['r', idx]], f, q, hw)
    # only maximal sequences are interesting (prefixes are checked step by step anyway)
    for s in rec([], cap, [], []):
        if len(s) == maxlen:
            yield s


def run_shard(spec, seed, tier):
    res = Result()
    if spec['kind'] == 'exh':
        res.exhaustive = True
        for ops in _enumerate(spec['cap'], spec['maxlen'], spec.get('first')):
            case = dict(cap=spec['cap'], ops=ops)
            nt, cls, fl = run_case(case)
            res.case(case, nt, cls)
            for sig, cl, m in fl:
                res.fail(sig, cl, m, case)
    else:
        from hypothesis import strategies as st
        from vlib.hyp import search
        tick = st.sampled_from(['settle', 'settle', 'same-step'])
        op = st.one_of(st.tuples(st.just('a'), st.integers(1, 16), tick).map(list),
                       st.tuples(st.just('r'), st.integers(0, 7), tick).map(list),
                       st.tuples(st.just('ra'), st.integers(0, 7), st.integers(1, 16), tick).map(list))
        strat = st.builds(lambda cap, ops: dict(cap=cap, ops=ops), st.integers(1, 16), st.lists(op, min_size=1, max_size=60))
        search(res, PROPERTY, strat, run_case, spec['n'], seed)
    return res


def replay(case):
    nt, cls, fl = run_case(case)
    return [dict(signature=s, clause=c, message=m, case=case) for s, c, m in fl]
