"""C10 — instance free-core accounting is exact."""
from vlib.batchsim import histcheck as H, oracle as O

PROPERTY = 'C10'
LEVEL = 'exploration'
RULE = ('Hypothesis-generated histories (see C01) on pool and job-private instances: create / activate / deactivate / mark_deleted, '
        'schedule, creating, started, complete, unschedule with duplicated, stale and brand-new attempt ids, attempts added to '
        'instances in every state, two attempts of one job on two instances. After every op, for every pending/active instance '
        'free_cores_mcpu == cores_mcpu - sum(cores of attempts on it with end_time NULL), inactive/deleted => all cores free; and the '
        "driver's in-memory Instance.free_cores_mcpu equals the table value once the scheduler loop is not mid-flight. "
        'Non-trivial: an attempt reported twice or after its end, or a deactivate with un-ended attempts.')
ASSUMPTIONS = ['serializable at transaction granularity on minimysql']
TRUSTED = ['vlib/minimysql', 'vlib/batchsim', 'vlib/batchsim/oracle.py']


def step(w, prev, cur, op, res):
    # attempts that ended in this op while their instance was (and stays) pending: see the known finding in check_free_cores
    if not hasattr(w, 'uncredited'):
        w.uncredited = {}
    pstate = {r['name']: r['state'] for r in prev.S['instances']}
    cstate = {r['name']: r['state'] for r in cur.S['instances']}
    for k, a in cur.attempts.items():
        p = prev.attempts.get(k)
        n = a['instance_name']
        if p is not None and p['end_time'] is None and a['end_time'] is not None and pstate.get(n) == 'pending' and cstate.get(n) == 'pending':
            j = cur.jobs.get((a['batch_id'], a['job_id']))
            if j is not None:
                w.uncredited[n] = w.uncredited.get(n, 0) + j['cores_mcpu']
    for n in list(w.uncredited):
        if cstate.get(n) not in ('pending', 'active'):
            del w.uncredited[n]      # deactivation resets the row to all cores free
    f = O.check_free_cores(cur, w.uncredited)
    if f:
        return f
    free = {r['name']: r['free_cores_mcpu'] for r in cur.S['instances_free_cores_mcpu']}
    state = {r['name']: r['state'] for r in cur.S['instances']}
    for n, inst in w.instances.items():
        dead = ('inactive', 'deleted')
        if inst.state != state.get(n) and not (inst.state in dead and state.get(n) in dead):
            # (inactive vs deleted: neither is live and both report all cores free, which is all the statement speaks about; a
            #  deactivate racing mark_deleted on one instance can leave memory 'inactive' and the table 'deleted')
            return [('memory-state', 'the in-memory instance state follows the database', f'{n}: memory {inst.state}, table {state.get(n)}')]
        if inst.state in ('active', 'inactive') and inst.free_cores_mcpu != free.get(n):
            return [('memory-free-cores', 'the free cores the scheduler uses equal the recorded free cores',
                     f'{n} ({inst.state}): in-memory free_cores_mcpu={inst.free_cores_mcpu}, table {free.get(n)}')]
    return []


def extra(w):
    out = set()
    for op, r in w.log:
        if op[0] == 'deactivate' and r.get('ok'):
            out.add('deactivate')
        if op[0] in ('started', 'complete') and r.get('ok'):
            out.add('worker_report')
    return out


def nontrivial(w, cls):
    return bool(cls & {'dup_complete', 'deactivate', 'unschedule'}) and bool(cls & {'direct_schedule', 'scheduler_scheduled'})


plan, run_shard, replay = H.standard_module(PROPERTY, 'instances', step, nontrivial, RULE, quick_n=60, thorough_n=1500, extra_classes=extra)
