"""C38 — GVCF/VDS combiner merges every input exactly once; its even genome partitioning is an exact cover.

Two parts, both against the real code of hail/vds/combiner/{variant_dataset_combiner,combine}.py:

(a) calculate_even_genome_partitioning(rg, size): per primary contig the returned hl.Interval objects, read as closed
    integer ranges (1-based locus positions, includes_start / includes_end honoured), must be ordered, pairwise
    disjoint, cover exactly [1, contig_length] and hold <= size bases each; contigs in reference order.
(b) the merge plan: new_combiner(...) / VariantDatasetCombiner.run()/step()/save()/load() run for real; only the
    outermost engine-touching calls are replaced by fakes that carry a provenance multiset (which original inputs are
    inside a dataset) over an in-memory file system.  Crash points drop the object and resume from the saved JSON plan.
"""
from __future__ import annotations

import collections
import io
import json
import math
import os
import signal
import types
import uuid as _uuid_mod

from vlib import hailenv
from vlib.runner import Result

PROPERTY = 'C38'
LEVEL = 'exploration'
RULE = ('(a) calculate_even_genome_partitioning for GRCh37/GRCh38 (real contig lengths): interval sizes 1..5000 exhaustively on '
        'MT/chrM (the function\'s own per-contig loop, extracted from its code object), a fixed grid and Hypothesis sizes '
        '10^4..3*10^8 on the whole genome through the public function, and per-contig corner sizes ceil(L/k)+-1 and d-1+-1 '
        'for divisors d of L-1 on every primary contig. (b) merge plans: 0..60 GVCFs, 0..12 VDSes with 1..10^4 samples, '
        'branch factor 2..8, gvcf batch size 1..10, with/without external header + sample names, new_combiner() then run(); '
        'for every step k of the uninterrupted run the case is re-run with a crash right after step k (plan on disk is the '
        'one saved before the step), right after the following save, and after the first dataset write inside step k+1, each '
        'followed by load()/new_combiner() from the saved plan and run(); plus a generated multi-crash schedule that may '
        'change branch factor / batch size on resume. Non-trivial: (a) some contig is split into >= 2 intervals; (b) >= 2 '
        'merge rounds, or both GVCFs and VDSes, or a resume that redoes or continues work; distinct by case.')
ASSUMPTIONS = [
    '(b) says nothing about the engine\'s merge itself: import_gvcf_interval, Table._generate, _zip_join_producers, combine/combine_r, '
    'combine_variant_datasets, read_vds, write/write_variant_datasets, calculate_new_intervals, eval/aggregate of header info are '
    'provenance-tracking fakes; a write to an existing path without overwrite=True raises as the engine does',
    '(a) "every contig" means the contigs the function enumerates by design (autosomes, X, Y, MT/chrM); unplaced/alt/decoy contigs are not partitioned by the code and are not checked',
    'a crash loses the Python object only; the plan file on the (fake) file system is written atomically',
    'when load() refuses to resume because the output already exists (documented FatalError) the harness deletes the output, as the message instructs, and resumes',
    'the order of the VDS list inside the saved plan may change across save/load (bins are recomputed); only its multiset is required to be a fixed point',
]
TRUSTED = ['provenance fakes and in-memory fs in checks/c38.py', 'vlib/hailenv.py FakeBackend (reference genomes from the tree\'s JSON resources)']

GENOMES = ('GRCh37', 'GRCh38')
_PRIMARY = {str(i) for i in range(1, 23)} | {'X', 'Y', 'MT', 'M'}

_env_cache = None


def env():
    global _env_cache
    if _env_cache is None:
        if not os.path.isdir(os.path.join(hailenv.resources_dir(), 'reference')) and os.path.isdir('/repo/hail/hail/resources/reference'):
            # scratch copies of the tree (tools/mutate.py) carry the Python sources only; the reference-genome JSON is data
            hailenv.resources_dir = lambda: '/repo/hail/hail/resources'
        hl = hailenv.init()
        for g in GENOMES:
            if len(hl.get_reference(g).contigs) < 25:
                raise RuntimeError(f'{g}: reference genome resources not found (synthetic fallback in use)')
        from hail.vds.combiner import variant_dataset_combiner as m
        from hail.vds.combiner import combine as cm
        from hail.utils.java import Env
        _env_cache = (hl, m, cm, Env)
    return _env_cache


# =====================================================================================================================
# (a) partitioning
# =====================================================================================================================

def primary_contigs(rg):
    return [c for c in rg.contigs if (c[3:] if c.startswith('chr') else c) in _PRIMARY]


def contig_parts(rg, size, contig):
    """Run the real per-contig loop (`calc_parts` closure of calculate_even_genome_partitioning) for one contig."""
    hl, m, cm, Env = env()
    f = cm.calculate_even_genome_partitioning
    raw = getattr(f, '__wrapped__', f)
    code = next(c for c in raw.__code__.co_consts if isinstance(c, types.CodeType) and c.co_name == 'calc_parts')
    cells = {'reference_genome': rg, 'interval_size': size}
    closure = tuple(types.CellType(cells[n]) for n in code.co_freevars)
    return types.FunctionType(code, raw.__globals__, 'calc_parts', None, closure)(contig)


def check_contig(contig, length, size, ivs):
    """ivs: list of hl.Interval, all claimed to be on `contig`.  -> list of (signature, clause, message)"""
    out = []
    ranges = []
    for iv in ivs:
        s, e = iv.start, iv.end
        if s.contig != contig or e.contig != contig:
            out.append(('partition-interval-spans-contigs', 'each interval lies on one contig',
                        f'{contig}: interval {iv} has endpoints on {s.contig}/{e.contig}'))
            continue
        ranges.append((s.position + (0 if iv.includes_start else 1), e.position - (0 if iv.includes_end else 1)))
    if ranges != sorted(ranges):
        out.append(('partition-not-sorted', 'intervals are in increasing order', f'{contig} size={size}: intervals not ascending'))
        ranges.sort()
    nxt = 1
    for lo, hi in ranges:
        n = hi - lo + 1
        if n <= 0:
            out.append(('partition-empty-interval', 'every interval is non-empty', f'{contig} size={size}: [{lo},{hi}] is empty'))
            continue
        if lo < 1 or hi > length:
            out.append(('partition-outside-contig', 'intervals stay inside [1, contig_length]',
                        f'{contig} (length {length}) size={size}: [{lo},{hi}]'))
        if n > size:
            by = '1' if n == size + 1 else 'many'
            out.append((f'partition-interval-exceeds-size-by-{by}', 'each interval covers at most interval_size bases',
                        f'{contig} (length {length}) interval_size={size}: [{lo},{hi}] covers {n} bases'))
        if lo < nxt:
            out.append(('partition-overlap', 'intervals are pairwise disjoint',
                        f'{contig} size={size}: [{lo},{hi}] overlaps bases already covered up to {nxt - 1}'))
        elif lo > nxt:
            out.append(('partition-gap', 'the intervals cover every base', f'{contig} size={size}: bases [{nxt},{lo - 1}] are in no interval'))
        nxt = max(nxt, hi + 1)
    if nxt <= length:
        if nxt == length:
            out.append(('partition-drops-last-base', 'the intervals cover every base',
                        f'{contig} (length {length}) interval_size={size}: the last base {length} is in no interval '
                        f'({len(ranges)} intervals, last ends at {nxt - 1})'))
        else:
            out.append(('partition-gap', 'the intervals cover every base', f'{contig} size={size}: bases [{nxt},{length}] are in no interval'))
    # keep one message per signature
    seen = {}
    for sig, cl, msg in out:
        seen.setdefault(sig, (sig, cl, msg))
    return list(seen.values())


def check_part_a(case):
    """case = ['a', genome, contig | None, size] -> (nontrivial, classes, failures)"""
    hl, m, cm, Env = env()
    _, gname, contig, size = case
    rg = hl.get_reference(gname)
    prim = primary_contigs(rg)
    fails = []
    classes = ['a']
    if contig is not None:
        ivs = contig_parts(rg, size, contig)
        fails = check_contig(contig, rg.lengths[contig], size, ivs)
        classes.append('a_contig_' + ('mt' if contig in ('MT', 'chrM') else 'nuclear'))
        nontrivial = size < rg.lengths[contig]
    else:
        ivs = cm.calculate_even_genome_partitioning(rg, size)
        groups = []
        for iv in ivs:
            c = iv.start.contig
            if groups and groups[-1][0] == c:
                groups[-1][1].append(iv)
            else:
                groups.append((c, [iv]))
        order = [c for c, _ in groups]
        if order != prim:
            fails.append(('partition-contig-order', 'contigs appear once each, in reference order',
                          f'{gname} size={size}: contig sequence {order[:30]} != {prim}'))
        seen = {}
        for c, g in groups:
            if c in rg.lengths:
                for f3 in check_contig(c, rg.lengths[c], size, g):
                    seen.setdefault(f3[0], f3)
        fails.extend(seen.values())
        classes.append('a_genome')
        nontrivial = size < max(rg.lengths[c] for c in prim)
    if size >= 10 ** 4:
        classes.append('a_size_ge_1e4')
    return nontrivial, classes, fails


def divisors(n):
    ds = set()
    i = 1
    while i * i <= n:
        if n % i == 0:
            ds.add(i)
            ds.add(n // i)
        i += 1
    return sorted(ds)


# =====================================================================================================================
# (b) merge plan over provenance fakes
# =====================================================================================================================

class Crash(Exception):
    pass


class StepLimit(Exception):
    pass


class Hang(Exception):
    pass


class MT:
    """Fake MatrixTable / localized Table: provenance only."""

    def __init__(self, w, kind, prov, mtype=None):
        self.w = w
        self.kind = kind                 # 'ref' | 'var' | 'gvcf'
        self.prov = collections.Counter(prov)
        self._type = mtype
        self.globals = ()                # no ref_block_max_length global: _write_final asks for it to be computed
        self.info = types.SimpleNamespace(END=None)

    @property
    def entry(self):
        return list(self._type.entry_type) if self._type is not None else []

    def _unlocalize_entries(self, entries, cols, col_key):
        if (entries, cols, list(col_key)) != ('__entries', '__cols', ['s']):
            self.w.failure('unlocalize-args', 'datasets are keyed by sample', f'_unlocalize_entries({entries!r},{cols!r},{col_key!r})')
        return self

    def _key_rows_by_assert_sorted(self, *keys):
        return self

    def filter_rows(self, *_a, **_k):
        return self

    def write(self, path, overwrite=False, **_k):
        self.w.write_mt(path, self, overwrite)


class FakeStream:
    def __init__(self, path, idx, kind=None):
        self.path, self.idx, self.kind = path, idx, kind

    def annotate(self, **_k):
        return self


class World:
    def __init__(self, case):
        self.case = case
        self.files = {}            # path -> ('text', str) | ('mt', kind, Counter) | ('gvcf', sample) | ('header',)
        self.fails = []
        self.soft_fails = []
        self.lits = {}             # id(ir node) -> (node, python value)
        self.uuid_n = 0
        self.steps_done = 0        # completed step() calls that did work, over the whole case (all resumes)
        self.step_calls = 0
        self.step_bound = 0
        self.crashes = []          # pending crash specs dict(k, mode, ...), sorted by (k, mode)
        self.roundtrip_each_step = False
        self.output_writes = 0
        self.output_deleted = 0
        self.writes_in_step = 0
        self.in_step = False
        self.reads = 0
        self.inputs = collections.Counter()
        self.sample_of = {}
        self.output_path = 'gs://out/final.vds'
        self.classes = set()
        self.redone = False

    def due(self, mode):
        """Pop and return the crash spec scheduled for the moment (steps_done, mode); moments are ordered (k,0) right after
        step k < (k,1) entry of the next step() < (k,2) first intermediate write inside it.  Passed specs are dropped."""
        now = (self.steps_done, mode)
        while self.crashes and (self.crashes[0]['k'], self.crashes[0]['mode']) < now:
            self.crashes.pop(0)
        if self.crashes and (self.crashes[0]['k'], self.crashes[0]['mode']) == now:
            return self.crashes.pop(0)
        return None

    def failure(self, sig, clause, msg, soft=False):
        """soft: recorded and reported, but the case keeps running (lets the search continue behind a shallow defect)."""
        lst = self.soft_fails if soft else self.fails
        if not any(f[0] == sig for f in lst):
            lst.append((sig, clause, msg))

    # ---- datasets
    def write_mt(self, path, mt, overwrite):
        old = self.files.get(path)
        if old is not None and not overwrite:
            hl = env()[0]
            raise hl.utils.java.FatalError(f'HailException: file already exists: {path}')
        self.files[path] = ('mt', mt.kind, collections.Counter(mt.prov))
        if path.startswith(self.output_path + '/') or path == self.output_path:
            self.output_writes += 1
        elif self.in_step:
            self.writes_in_step += 1
            if self.writes_in_step == 1:
                spec = self.due(2)
                if spec is not None:
                    raise Crash(spec)

    def read_vds(self, path, mod):
        self.reads += 1
        out = []
        for kind, p in (('ref', mod.VariantDataset._reference_path(path)), ('var', mod.VariantDataset._variants_path(path))):
            rec = self.files.get(p)
            if rec is None or rec[0] != 'mt':
                self.failure('read-of-unwritten-dataset', 'every intermediate that is read was previously written',
                             f'read_vds({path!r}): nothing was written at {p}')
                out.append(MT(self, kind, {}, self.types[kind]))
            else:
                if rec[1] != kind:
                    self.failure('ref-var-swapped', 'reference and variant data keep their roles', f'{p} holds {rec[1]} data')
                out.append(MT(self, kind, rec[2], self.types[kind]))
        return out

    def vds_prov(self, path, mod):
        r = self.files.get(mod.VariantDataset._reference_path(path))
        v = self.files.get(mod.VariantDataset._variants_path(path))
        if r is None or v is None or r[0] != 'mt' or v[0] != 'mt':
            return None
        return r[2], v[2]


class _Writer(io.StringIO):
    def __init__(self, w, path):
        super().__init__()
        self._w, self._path = w, path

    def close(self):
        if not self.closed:
            self._w.files[self._path] = ('text', self.getvalue())
        super().close()


class FakeFS:
    def __init__(self, w):
        self.w = w

    def exists(self, path):
        if path in self.w.files:
            return True
        if path.endswith('/_SUCCESS'):
            rec = self.w.files.get(path[:-len('/_SUCCESS')])
            return rec is not None and rec[0] == 'mt'
        return False

    def copy(self, src, dst):
        self.w.files[dst] = self.w.files[src]

    def remove(self, path):
        del self.w.files[path]

    def open(self, path, mode='r', buffer_size=8192):
        if 'w' in mode:
            return _Writer(self.w, path)
        rec = self.w.files.get(path)
        if rec is None or rec[0] != 'text':
            raise FileNotFoundError(path)
        return io.StringIO(rec[1])


def find_lit(w, ir):
    """Python values of the hl.literal nodes (made through the proxy) reachable from `ir`."""
    found = []
    stack = [ir]
    n = 0
    while stack and n < 5000:
        x = stack.pop()
        n += 1
        hit = w.lits.get(id(x))
        if hit is not None and hit[0] is x:
            found.append(hit[1])
            continue
        stack.extend(getattr(x, 'children', None) or ())
    return found


class Patch:
    """Install the fakes in the combiner module namespace (and one backend hook) for one World; restores on exit."""

    def __init__(self, w):
        self.w = w
        self.saved = {}

    def __enter__(self):
        hl, m, cm, Env = env()
        w = self.w
        real_hl = hl
        cls = m.VariantDatasetCombiner

        class FakeVDS(m_VariantDataset_real()):
            def __init__(self, reference_data, variant_data):
                self.reference_data = reference_data
                self.variant_data = variant_data
                if reference_data.kind != 'ref' or variant_data.kind != 'var':
                    w.failure('ref-var-swapped', 'reference and variant data keep their roles',
                              f'VariantDataset({reference_data.kind}, {variant_data.kind})')
                if reference_data.prov != variant_data.prov:
                    w.failure('ref-var-provenance-differ', 'reference and variant data of a dataset come from the same inputs',
                              f'ref {sorted(reference_data.prov)} var {sorted(variant_data.prov)}')

            def write(self, path, **kwargs):
                kwargs.pop('_codec_spec', None)
                ow = kwargs.pop('overwrite', False)
                self.reference_data.write(FakeVDS._reference_path(path), overwrite=ow)
                self.variant_data.write(FakeVDS._variants_path(path), overwrite=ow)

            def n_samples(self):
                return sum(self.reference_data.prov[k] * w.weight(k) for k in self.reference_data.prov)

        def literal(x, dtype=None):
            e = real_hl.literal(x, dtype) if dtype is not None else real_hl.literal(x)
            w.lits[id(e._ir)] = (e._ir, x)
            return e

        class HeaderExpr:       # stands for hl.get_vcf_header_info('<path>'); only ever handed to hl.eval by the combiner
            def __init__(self, path):
                self.path = path

        def get_vcf_header_info(arg, *a, **k):
            if isinstance(arg, str):
                return HeaderExpr(arg)
            return real_hl.get_vcf_header_info(arg, *a, **k)

        def header_token(path):
            rec = w.files.get(path)
            if rec is None or rec[0] not in ('gvcf', 'header'):
                w.failure('header-of-unknown-file', 'headers are read from the given GVCFs or the external header', f'header of {path!r}')
                return hl.Struct(sampleIDs=['?'], path=path)
            return hl.Struct(sampleIDs=[rec[1]] if rec[0] == 'gvcf' else ['HEADER'], path=path)

        def fake_eval(expr):
            if not isinstance(expr, HeaderExpr):
                raise hailenv.EngineNeeded('hl.eval of an expression the C38 harness does not model')
            return header_token(expr.path)

        def backend_execute(ir, timed=False):
            # Table.aggregate(collect(sample id of each vcf)) in _step_gvcfs
            lits = [v for v in find_lit(w, ir) if isinstance(v, list) and all(isinstance(s, str) for s in v)]
            if len(lits) != 1:
                raise hailenv.EngineNeeded(f'backend.execute({type(ir).__name__}) not modelled by the C38 harness')
            return ([header_token(p).sampleIDs[0] for p in lits[0]],)

        def import_gvcf_interval(path, file_num, contig, start, end, header_info, call_fields=('PGT',), entry_float_type='float64',
                                 array_elements_required=True, reference_genome='default', contig_recoding=None, **_k):
            rec = w.files.get(path)
            if rec is None or rec[0] != 'gvcf':
                w.failure('import-of-non-gvcf', 'only the given GVCFs are imported', f'import_gvcf_interval({path!r}, {file_num!r})')
            if not isinstance(file_num, int) or isinstance(file_num, bool):
                w.failure('import-file-index', 'file index is the position in the merge group', f'file_num={file_num!r} for {path!r}')
            if getattr(header_info, 'path', None) != w.expected_header:
                w.failure('import-wrong-header', 'the header used is the external header or the first file of the batch',
                          f'header {getattr(header_info, "path", None)!r}, expected {w.expected_header!r}')
            if reference_genome is not w.rg:
                w.failure('import-wrong-reference', 'GVCFs are imported on the combiner reference', f'{reference_genome!r}')
            w.reads += 1
            return FakeStream(path, file_num)

        def make_reference_stream(stream, entry_to_keep, filters):
            return FakeStream(stream.path, stream.idx, 'ref')

        def make_variant_stream(stream, info_to_keep, filters):
            return FakeStream(stream.path, stream.idx, 'var')

        def fake_zip_join_producers(contexts, stream_f, key, join_f):
            lits = find_lit(w, contexts._ir)
            if len(lits) != 1:
                raise hailenv.EngineNeeded('_zip_join_producers: contexts not a literal known to the harness')
            streams = [stream_f((i, p)) for i, p in enumerate(lits[0])]
            if streams:
                join_f(FakeStream(None, None), streams[0])
            return streams

        def fake_generate(contexts, partitions, rowfn, globals=None):
            ctx = find_lit(w, contexts._ir)
            if len(ctx) != 1 or len(ctx[0]) != len(partitions) or len(partitions) != len(w.import_intervals):
                w.failure('generate-partitions', 'one context per import interval', f'{len(partitions)} partitions')
            ids = [v for v in find_lit(w, globals._ir) if isinstance(v, list)]
            streams = rowfn(ctx[0][0], None)
            kinds = {s.kind for s in streams}
            paths = [s.path for s in streams]
            want_ids = [w.sample_name(p) for p in paths]
            if len(ids) != 1 or list(ids[0]) != want_ids:
                w.failure('sample-ids-misaligned', 'column ids of a merged dataset are the samples of its GVCFs, in order',
                          f'ids {ids[0][:6] if ids else None} for gvcfs {paths[:6]} (expected {want_ids[:6]})')
            if [s.idx for s in streams] != list(range(len(streams))):
                w.failure('import-file-index', 'file index is the position in the merge group', f'{[s.idx for s in streams][:8]}')
            if len(kinds) != 1:
                raise hailenv.EngineNeeded(f'_generate: mixed stream kinds {kinds}')
            return MT(w, kinds.pop(), collections.Counter(paths))

        class TableProxy:
            _generate = staticmethod(fake_generate)

            def __getattr__(self, name):
                return getattr(real_hl.Table, name)

        def combine_r(ht, ref_block_max_len_field=None):
            if ht.kind != 'ref':
                w.failure('ref-var-swapped', 'reference and variant data keep their roles', f'combine_r on {ht.kind}')
            return ht

        def combine(ht):
            if ht.kind != 'var':
                w.failure('ref-var-swapped', 'reference and variant data keep their roles', f'combine on {ht.kind}')
            return ht

        def read_vds(path, **_k):
            r, v = w.read_vds(path, m)
            return FakeVDS(r, v)

        def write_variant_datasets(vdss, paths, overwrite=False, stage_locally=False, codec_spec=None):
            if len(vdss) != len(paths) or len(set(paths)) != len(paths):
                w.failure('write-paths-mismatch', 'one distinct path per written dataset', f'{len(vdss)} datasets, paths {paths[:5]}')
            for vds, p in zip(vdss, paths):
                vds.write(p, overwrite=overwrite)

        def combine_variant_datasets(vdss):
            prov = collections.Counter()
            for v in vdss:
                prov.update(v.reference_data.prov)
            pv = collections.Counter()
            for v in vdss:
                pv.update(v.variant_data.prov)
            return FakeVDS(MT(w, 'ref', prov, w.types['ref']), MT(w, 'var', pv, w.types['var']))

        def calculate_new_intervals(mt, target_records, path):
            return (['intervals-for', path], None)

        def transform_gvcf(mt, ref_fields, info_to_keep, filters):
            return FakeVDS(MT(w, 'ref', {}, w.types['ref']), MT(w, 'var', {}, w.types['var']))

        def import_vcf(path, **_k):
            rec = w.files.get(path)
            if rec is None or rec[0] != 'gvcf':
                w.failure('import-of-non-gvcf', 'only the given GVCFs are imported', f'import_vcf({path!r})')
            return MT(w, 'gvcf', {}, w.types['gvcf'])

        def defined_entry_fields(mt, n):
            return {'DP', 'GQ', 'MIN_DP'}

        class VdsProxy:
            def __getattr__(self, name):
                return getattr(real_hl.vds, name)

        vdsp = VdsProxy()
        vdsp.read_vds = read_vds
        vdsp.write_variant_datasets = write_variant_datasets
        vdsp.store_ref_block_max_length = lambda path: None
        vdsp.VariantDataset = FakeVDS

        class HLProxy:
            def __getattr__(self, name):
                return getattr(real_hl, name)

        p = HLProxy()
        p.literal = literal
        p.get_vcf_header_info = get_vcf_header_info
        p.eval = fake_eval
        p.import_gvcf_interval = import_gvcf_interval
        p._zip_join_producers = fake_zip_join_producers
        p.Table = TableProxy()
        p.vds = vdsp
        p.import_vcf = import_vcf
        p.is_defined = lambda x: True
        p.current_backend = lambda: types.SimpleNamespace(fs=FakeFS(w))

        def uuid4():
            w.uuid_n += 1
            return _uuid_mod.UUID(int=w.uuid_n)

        orig_step = cls.step

        def step(self):
            if self.finished:
                return orig_step(self)
            spec = w.due(1)
            if spec is not None:
                raise Crash(spec)
            w.step_calls += 1
            if w.step_calls > w.step_bound:
                raise StepLimit()
            w.expected_header = self._gvcf_external_header or (self._gvcfs[0] if self._gvcfs else None)
            w.import_intervals = self._gvcf_import_intervals
            w.in_step, w.writes_in_step = True, 0
            before = plan_snapshot(self)
            try:
                orig_step(self)
            finally:
                w.in_step = False
            w.steps_done += 1
            check_plan(w, m, self, before)
            if w.roundtrip_each_step and not w.fails:
                _check_roundtrip(w, m, self)
            spec = w.due(0)
            if spec is not None:
                raise Crash(spec)

        backend = Env.backend()
        import uuid as _real_uuid
        # only the random generator is replaced (harness-owned); everything else of the uuid module is the real thing
        _uuid_ns = types.SimpleNamespace(**{k: getattr(_real_uuid, k) for k in dir(_real_uuid) if not k.startswith('__')})
        _uuid_ns.uuid4 = uuid4
        repl = dict(hl=p, uuid=_uuid_ns, VariantDataset=FakeVDS, combine=combine, combine_r=combine_r,
                    combine_variant_datasets=combine_variant_datasets, calculate_new_intervals=calculate_new_intervals,
                    transform_gvcf=transform_gvcf, defined_entry_fields=defined_entry_fields,
                    make_reference_stream=make_reference_stream, make_variant_stream=make_variant_stream,
                    info=lambda msg: None, warning=lambda msg: None)
        for k, v in repl.items():
            self.saved[k] = getattr(m, k)
            setattr(m, k, v)
        self.saved_step = orig_step
        cls.step = step
        backend.execute = backend_execute
        self.backend = backend
        w.FakeVDS = FakeVDS
        return self

    def __exit__(self, *exc):
        hl, m, cm, Env = env()
        for k, v in self.saved.items():
            setattr(m, k, v)
        m.VariantDatasetCombiner.step = self.saved_step
        try:
            del self.backend.execute
        except AttributeError:
            pass
        return False


def m_VariantDataset_real():
    from hail.vds.variant_dataset import VariantDataset
    return VariantDataset


def plan_snapshot(c):
    return dict(gvcfs=list(c._gvcfs), vdses=[md for b in sorted(c._vdses) for md in c._vdses[b]])


def check_plan(w, m, c, before):
    """Conservation after a step: inputs still pending in the plan + inputs inside plan datasets (+ final) == all inputs."""
    have = collections.Counter(c._gvcfs)
    for b in sorted(c._vdses):
        if not c._vdses[b]:
            w.failure('plan-empty-bin', 'the plan holds no empty bins (finished would never become true)', f'bin {b} is empty')
        for md in c._vdses[b]:
            pv = w.vds_prov(md.path, m)
            if pv is None:
                w.failure('plan-references-missing-dataset', 'every dataset in the plan exists', f'{md.path} (bin {b})')
                continue
            if pv[0] != pv[1]:
                w.failure('ref-var-provenance-differ', 'reference and variant data of a dataset come from the same inputs', md.path)
            have.update(pv[0])
            actual = sum(n * w.weight(k) for k, n in pv[0].items())
            if actual != md.n_samples:
                w.failure('plan-sample-count-wrong', 'the plan records the true sample count of each intermediate',
                          f'{md.path}: plan says {md.n_samples}, dataset holds {actual}')
    if c.finished:
        pv = w.vds_prov(w.output_path, m)
        if pv is not None:
            have.update(pv[0])
    if c._gvcf_sample_names is not None and len(c._gvcf_sample_names) != len(c._gvcfs):
        w.failure('sample-names-misaligned', 'remaining sample names stay aligned with remaining GVCFs',
                  f'{len(c._gvcf_sample_names)} names for {len(c._gvcfs)} gvcfs')
    if have != w.inputs:
        lost = sorted((w.inputs - have).elements())[:6]
        dup = sorted((have - w.inputs).elements())[:6]
        sig = 'step-duplicates-input' if dup else 'step-loses-input'
        w.failure(sig, 'after every step each input is pending or inside exactly one live dataset',
                  f'after step {w.steps_done}: lost {lost} duplicated {dup}; plan before: {len(before["gvcfs"])} gvcfs, '
                  f'{[(os.path.basename(md.path), md.n_samples) for md in before["vdses"]][:10]}')


def _mk_types(hl, rg, save_filters):
    loc = hl.tlocus(rg)
    ref_entry = dict(LGT=hl.tcall, DP=hl.tint32, GQ=hl.tint32, MIN_DP=hl.tint32, LEN=hl.tint32)
    var_entry = dict(LGT=hl.tcall, LA=hl.tarray(hl.tint32), LPGT=hl.tcall, DP=hl.tint32, GQ=hl.tint32)
    if save_filters:
        ref_entry['gvcf_filters'] = hl.tset(hl.tstr)
        var_entry['gvcf_filters'] = hl.tset(hl.tstr)
    cols = hl.tstruct(s=hl.tstr)
    ref = hl.tmatrix(hl.tstruct(), cols, ['s'], hl.tstruct(locus=loc, ref_allele=hl.tstr), ['locus'], hl.tstruct(**ref_entry))
    var = hl.tmatrix(hl.tstruct(), cols, ['s'], hl.tstruct(locus=loc, alleles=hl.tarray(hl.tstr)), ['locus', 'alleles'],
                     hl.tstruct(**var_entry))
    gv = hl.tmatrix(hl.tstruct(), cols, ['s'], hl.tstruct(locus=loc, alleles=hl.tarray(hl.tstr), info=hl.tstruct(END=hl.tint32)),
                    ['locus', 'alleles'], hl.tstruct(GT=hl.tcall, DP=hl.tint32, GQ=hl.tint32, PGT=hl.tcall))
    return dict(ref=ref, var=var, gvcf=gv)


_types_cache = {}
_intervals_cache = {}


def _norm(d):
    """JSON-normalised plan dict; vdses as a sorted multiset, set-valued fields sorted."""
    hl, m, cm, Env = env()
    j = json.loads(json.dumps(d, cls=m.Encoder))
    j['vdses_order'] = [list(x) for x in j['vdses']]
    j['vdses'] = sorted(list(x) for x in j['vdses'])
    for k in ('gvcf_info_to_keep', 'gvcf_reference_entry_fields_to_keep', 'call_fields'):
        if j.get(k) is not None:
            j[k] = sorted(j[k])
    return j


def execute(case, crashes):
    """Run one merge-plan case with the given crash schedule.  crashes: list of dict(k, mode, via, bf, batch).
    -> dict(fails, steps, classes, final=Counter|None, rejected=bool)"""
    hl, m, cm, Env = env()
    w = World(case)
    gname = case['rg']
    rg = hl.get_reference(gname)
    w.rg = rg
    sf = bool(case.get('save_filters'))
    tk = (gname, sf)
    if tk not in _types_cache:
        _types_cache[tk] = _mk_types(hl, rg, sf)
    w.types = _types_cache[tk]
    n_g = case['n_gvcfs']
    gv = [f'gs://in/g{i:03d}.g.vcf.bgz' for i in range(n_g)]
    for i, p in enumerate(gv):
        w.files[p] = ('gvcf', f'S{i}')
    ext = bool(case.get('ext_header')) and n_g > 0
    names = [f'N{i}' for i in range(n_g)] if ext else None
    hdr = 'gs://in/header.vcf' if ext else None
    if ext:
        w.files[hdr] = ('header', 'HEADER')
    w.sample_name = (lambda p: names[gv.index(p)]) if ext else (lambda p: w.files[p][1] if p in w.files else '?')
    vs = list(case['vds_samples'])
    vp = [f'gs://in/v{i:02d}.vds' for i in range(len(vs))]
    nsamp = dict(zip(vp, vs))
    w.weight = lambda k: nsamp.get(k, 1)
    for p in vp:
        w.files[m_VariantDataset_real()._reference_path(p)] = ('mt', 'ref', collections.Counter([p]))
        w.files[m_VariantDataset_real()._variants_path(p)] = ('mt', 'var', collections.Counter([p]))
    w.inputs = collections.Counter(gv + vp)
    n_in = n_g + len(vp)
    w.crashes = sorted((dict(c) for c in crashes), key=lambda c: (c['k'], c['mode']))
    w.roundtrip_each_step = not crashes
    w.step_bound = (n_in + 6) * (len(crashes) + 1)
    save_path = 'gs://tmp/plan.json' if case.get('save_path_given', True) else None
    isz = case.get('interval_size', 250_000_000)
    ik = (gname, isz)
    if ik not in _intervals_cache:
        c1, c2 = primary_contigs(rg)[0], primary_contigs(rg)[-1]
        mk = lambda c, a, b: hl.Interval(hl.Locus(c, a, reference_genome=rg), hl.Locus(c, b, reference_genome=rg), includes_end=True)
        _intervals_cache[ik] = [mk(c1, 1, isz // 4), mk(c1, isz // 4 + 1, rg.lengths[c1]), mk(c2, 1, rg.lengths[c2])]

    def make(bf, batch):
        kw = dict(output_path=w.output_path, temp_path='gs://tmp', save_path=save_path, gvcf_paths=gv or None, vds_paths=vp or None,
                  vds_sample_counts=vs if (case.get('counts_given', True) and vs) else None,
                  gvcf_external_header=hdr, gvcf_sample_names=names, gvcf_save_filters=sf,
                  gvcf_reference_entry_fields_to_keep={'DP', 'GQ', 'MIN_DP'} if case.get('ref_fields_given', True) else None,
                  gvcf_info_to_keep={'MQ', 'QD'} if case.get('info_given') else None,
                  branch_factor=bf, gvcf_batch_size=batch, reference_genome=rg if case.get('rg_object') else gname,
                  target_records=10_000 + n_in if case.get('info_given') else 24_000,
                  contig_recoding={'1': 'chr1', 'MT': 'chrM'} if case.get('info_given') and gname == 'GRCh38' else None)
        if case.get('use_interval_size'):
            kw['import_interval_size'] = isz
        else:
            kw['intervals'] = list(_intervals_cache[ik])
        return m.new_combiner(**kw)

    out = dict(fails=w.fails, soft=w.soft_fails, steps=0, classes=w.classes, final=None, rejected=False, plan_path=None)
    with Patch(w):
        try:
            c = make(case['branch_factor'], case['batch'])
        except ValueError as e:
            if n_in == 0:
                out['rejected'] = True
                return out
            w.failure('new-combiner-rejects-valid-input', 'valid arguments are accepted', f'{type(e).__name__}: {e}')
            return out
        if n_in == 0:
            w.failure('empty-input-accepted', 'new_combiner requires at least one input', 'no ValueError for zero inputs')
            return out
        plan_path = c._save_path
        out['plan_path'] = plan_path
        first = True
        while True:
            try:
                if first:
                    first = False
                    # the save -> load fixed point is checked on the initial plan and after every step of this segment
                    _check_roundtrip(w, m, c)
                c.run()
                break
            except Crash as cr:
                spec = cr.args[0]
                del c
                c = _resume(w, m, spec, plan_path, make)
                if c is None:
                    break
                _check_roundtrip(w, m, c)
            except StepLimit:
                w.failure('non-termination', 'run() terminates', f'more than {w.step_bound} step() calls for {n_in} inputs')
                break
        out['steps'] = w.steps_done
        if w.fails:
            return out
        # ---- final oracle
        pv = w.vds_prov(w.output_path, m)
        if c is None or not c.finished:
            w.failure('not-finished', 'run() ends with nothing left to merge', 'finished is False after run()')
        if pv is None:
            w.failure('no-output', 'exactly one final dataset is written to output_path', 'nothing at output_path after run()')
            return out
        if pv[0] != pv[1]:
            w.failure('ref-var-provenance-differ', 'reference and variant data of a dataset come from the same inputs', 'final output')
        out['final'] = pv[0]
        if pv[0] != w.inputs:
            lost = sorted((w.inputs - pv[0]).elements())[:6]
            dup = sorted((pv[0] - w.inputs).elements())[:6]
            w.failure('final-duplicates-input' if dup else 'final-loses-input', 'the final dataset is built from exactly the given inputs, each once',
                      f'lost {lost} duplicated {dup}')
        if w.output_writes != 2 * (1 + w.output_deleted):
            w.failure('output-written-more-than-once', 'exactly one final write to output_path',
                      f'{w.output_writes // 2} writes to output_path, {w.output_deleted} deletions by the operator')
        rec = w.files.get(plan_path)
        if rec is None or rec[0] != 'text':
            w.failure('no-final-plan', 'run() saves its final state', f'no plan at {plan_path}')
        else:
            j = json.loads(rec[1])
            if j.get('gvcfs') or j.get('vdses'):
                w.failure('final-plan-not-finished', 'the plan saved after run() has nothing left to merge', f'{len(j["gvcfs"])} gvcfs, {len(j["vdses"])} vdses')
    return out


def _check_roundtrip(w, m, c, resave=True):
    """load(save(c)) has the same to_dict (vdses as a multiset) and is a fixed point of save/load."""
    if resave:
        c.save()
    try:
        c2 = m.VariantDatasetCombiner.load(c._save_path)
    except Exception as e:
        if type(e).__name__ == 'FatalError':
            return
        w.failure(f'load-raises-{type(e).__name__}', 'a saved plan can be loaded', f'{type(e).__name__}: {e}')
        return
    a, b = _norm(c.to_dict()), _norm(c2.to_dict())
    oa, ob = a.pop('vdses_order'), b.pop('vdses_order')
    if a != b:
        diff = sorted(k for k in set(a) | set(b) if a.get(k) != b.get(k))
        w.failure('save-load-changes-' + '-'.join(diff)[:60], 'load(save(c)).to_dict() == c.to_dict()',
                  f'fields {diff}: ' + '; '.join(f'{k}: {str(a.get(k))[:120]} -> {str(b.get(k))[:120]}' for k in diff[:3]))
    elif oa != ob:
        w.classes.add('b_vds_order_changed_on_reload')
    if resave:
        disk = _norm(json.loads(w.files[c._save_path][1]))
        disk.pop('vdses_order')
        if disk != a:
            diff = sorted(k for k in set(a) | set(disk) if a.get(k) != disk.get(k))
            w.failure('saved-json-differs-' + '-'.join(diff)[:60], 'the saved JSON is to_dict()', f'fields {diff}')
    # the class's own __eq__ domain: every serialized slot survives (bins of _vdses are recomputed, so compared as a multiset)
    for slot in type(c).__serialized_slots__:
        if slot == '_gvcf_save_filters':
            continue
        va, vb = getattr(c, slot), getattr(c2, slot)
        if slot == '_vdses':
            va = sorted(tuple(md) for b in va for md in va[b])
            vb = sorted(tuple(md) for b in vb for md in vb[b])
        if va != vb:
            w.failure('resume-loses' + slot.replace('_', '-'), 'a combiner resumed from its plan continues with the same configuration',
                      f'{slot}: {str(va)[:150]!r} before save, {str(vb)[:150]!r} after load')
    for slot in ('_gvcf_save_filters',):
        if getattr(c, slot) != getattr(c2, slot):
            w.failure('resume-loses' + slot.replace('_', '-'), 'a combiner resumed from its plan continues with the same configuration',
                      f'{slot}: {getattr(c, slot)!r} before save, {getattr(c2, slot)!r} after load (to_dict() has no such key, '
                      'so every resumed run imports the remaining GVCFs without FILTER)', soft=True)


def _resume(w, m, spec, plan_path, make):
    hl = env()[0]
    w.classes.add('b_resume_via_' + spec.get('via', 'load'))
    for attempt in range(2):
        try:
            if spec.get('via') == 'new':
                c = make(spec.get('bf') or w.case['branch_factor'], spec.get('batch') or w.case['batch'])
                if spec.get('bf') and spec['bf'] != w.case['branch_factor']:
                    w.classes.add('b_resume_changed_branch_factor')
            else:
                c = m.VariantDatasetCombiner.load(plan_path)
            return c
        except Exception as e:
            if type(e).__name__ == 'FatalError' and 'already exists' in str(e) and attempt == 0:
                vd = m_VariantDataset_real()
                pr, pvp = vd._reference_path(w.output_path), vd._variants_path(w.output_path)
                if pr not in w.files or pvp not in w.files:
                    w.failure('spurious-output-exists', 'resume is refused only when the output exists', str(e)[:200])
                    return None
                del w.files[pr]
                del w.files[pvp]
                w.output_deleted += 1
                w.classes.add('b_resume_refused_output_exists')
                continue
            w.failure(f'resume-raises-{type(e).__name__}', 'a saved plan can be resumed', f'{type(e).__name__}: {str(e)[:300]}')
            return None
    return None


class _Watchdog:
    def __init__(self, seconds):
        self.seconds = seconds
        self.armed = False

    def __enter__(self):
        try:
            self.old = signal.signal(signal.SIGVTALRM, self._fire)
            signal.setitimer(signal.ITIMER_VIRTUAL, self.seconds)
            self.armed = True
        except (ValueError, AttributeError):
            pass
        return self

    @staticmethod
    def _fire(signum, frame):
        raise Hang()

    def __exit__(self, *exc):
        if self.armed:
            signal.setitimer(signal.ITIMER_VIRTUAL, 0)
            signal.signal(signal.SIGVTALRM, self.old)
        return False


def check_part_b(case):
    """-> (nontrivial, classes, failures)"""
    classes = {'b'}
    fails = []

    def add(fs, ctx):
        for sig, cl, msg in fs:
            if not any(f[0] == sig for f in fails):
                fails.append((sig, cl, f'{msg} [{ctx}]'))

    try:
        with _Watchdog(20.0):
            base = execute(case, [])
        classes |= base['classes']
        add(base['fails'], 'uninterrupted run')
        add(base['soft'], 'uninterrupted run')
        n_soft = len(fails)
        if base['rejected']:
            return False, ['b', 'b_rejected_no_inputs'], fails
        S = base['steps']
        n_g, n_v = case['n_gvcfs'], len(case['vds_samples'])
        if n_g and n_v:
            classes.add('b_gvcfs_and_vdses')
        if S >= 2:
            classes.add('b_multi_round')
        if S >= 4:
            classes.add('b_ge4_rounds')
        if case.get('ext_header') and n_g:
            classes.add('b_external_header')
        if len(fails) == n_soft and not base['fails']:
            sched = []
            rot = case['n_gvcfs'] + len(case['vds_samples']) + case['branch_factor']
            ks = list(range(0, S + 1))
            cap = case.get('resume_points', 5)
            if len(ks) > cap:        # long plans: first, last two and points rotating with the case; all points in the thorough tier
                mid = list(range(1, S - 1))
                need = max(0, min(cap - 3, len(mid)))
                stride = max(1, len(mid) // max(1, need))
                ks = sorted({0, S, S - 1} | {mid[(rot + i * stride) % len(mid)] for i in range(need)})
            for k in ks:
                modes = (0, 1, 2) if case.get('all_modes') else ((k + rot) % 3,)
                for mode in modes:
                    if k == 0 and mode == 0:
                        mode = 1
                    if k == S and mode != 0:
                        mode = 0
                    sched.append([dict(k=k, mode=mode, via='load' if (k + mode + rot) % 2 == 0 else 'new')])
            if case.get('crashes'):
                sched.append([dict(c) for c in case['crashes']])
            for crashes in sched:
                with _Watchdog(20.0):
                    r = execute(case, crashes)
                classes |= r['classes']
                ctx = 'crash schedule ' + json.dumps(crashes, separators=(',', ':'))
                add(r['fails'], ctx)
                if not r['fails'] and r['final'] != base['final']:
                    add([('resume-changes-final-provenance', 'resuming after any step yields the same final provenance',
                          f'uninterrupted {sorted(base["final"].items())[:5]} vs resumed {sorted((r["final"] or {}).items())[:5]}')], ctx)
                if len(fails) > n_soft:
                    break
                classes.add('b_resumed')
        nontrivial = S >= 2 or (n_g > 0 and n_v > 0) or 'b_resumed' in classes
    except Hang:
        fails.append(('non-termination', 'run() terminates', 'a run did not finish within 20 s of CPU time (watchdog)'))
        nontrivial = True
    return nontrivial, sorted(classes), fails


# =====================================================================================================================
# runner interface
# =====================================================================================================================

def check_case(case):
    if isinstance(case, list) and case and case[0] == 'a':
        return check_part_a(case)
    return check_part_b(case)


FIXED_GENOME_SIZES = [1_200_000, 60_000_000, 300_000_000, 249_250_621, 248_956_422, 249_250_620, 124_625_311, 59_373_566,
                      57_227_415, 16_569, 16_570, 16_568, 1_000_000, 500_000, 250_000, 10_000_000, 100_000, 65_536]


def plan(tier):
    q = tier == 'quick'
    specs = []
    for g in GENOMES:
        specs.append(dict(kind='a_mt', rg=g, lo=1, hi=5000))
    for g in GENOMES:
        specs.append(dict(kind='a_fixed', rg=g, sizes=FIXED_GENOME_SIZES + ([20_000] if q else [10_000, 20_000, 30_000, 50_000])))
    specs.append(dict(kind='a_fixed', rg='GRCh38' if q else 'GRCh37', sizes=[10_000]))
    specs.append(dict(kind='a_hyp_genome', n=30 if q else 400, budget=28 if q else 1200))
    for _ in range(2):
        specs.append(dict(kind='a_hyp_contig', n=400 if q else 8000, budget=28 if q else 1200))
    for _ in range(8):
        specs.append(dict(kind='b_hyp', n=400 if q else 6000, budget=30 if q else 1300))
    return specs


def strat_b(thorough=False):
    from hypothesis import strategies as st
    crash = st.fixed_dictionaries(dict(k=st.integers(0, 14), mode=st.integers(0, 2), via=st.sampled_from(['load', 'new']),
                                       bf=st.one_of(st.none(), st.integers(2, 8)), batch=st.one_of(st.none(), st.integers(1, 10))))

    def fix(d):
        ks = sorted(d['crashes'], key=lambda c: (c['k'], c['mode']))
        out, last = [], None
        for c in ks:
            key = (c['k'], c['mode'])
            if key == (0, 0) or key == last:
                continue
            last = key
            out.append(c)
        d['crashes'] = out
        return d

    samples = st.one_of(st.integers(1, 10), st.integers(1, 10 ** 4), st.sampled_from([1, 2, 3, 4, 7, 8, 9, 15, 16, 17, 63, 64, 65, 512, 4096, 10 ** 4]))
    return st.fixed_dictionaries(dict(
        part=st.just('b'), rg=st.sampled_from(GENOMES), n_gvcfs=st.one_of(st.integers(0, 60), st.integers(0, 12)),
        vds_samples=st.lists(samples, min_size=0, max_size=12), branch_factor=st.integers(2, 8), batch=st.integers(1, 10),
        ext_header=st.booleans(), counts_given=st.booleans(), save_filters=st.sampled_from([False, False, False, True]), ref_fields_given=st.booleans(),
        info_given=st.booleans(), save_path_given=st.booleans(), rg_object=st.booleans(), use_interval_size=st.booleans(),
        interval_size=st.sampled_from([250_000_000, 100_000_000, 60_000_000]), all_modes=st.just(thorough), resume_points=st.just(1000 if thorough else 5),
        crashes=st.lists(crash, min_size=0, max_size=3))).map(fix)


def _guarded(fn, hard_deadline):
    """After the hard deadline (generation budget + shrink allowance) unseen cases are answered "held" without running, and
    cases already seen failing get their recorded verdict, so Hypothesis' shrinker winds down consistently."""
    import time
    from vlib.runner import canon
    seen = {}

    def g(case):
        key = canon(case)
        if key in seen:
            return seen[key]
        if time.time() > hard_deadline:
            return False, ['skipped_after_deadline'], []
        r = fn(case)
        if r[2]:
            seen[key] = r
        return r
    return g


def run_shard(spec, seed, tier):
    import time
    t0 = time.time()
    hl, m, cm, Env = env()
    res = Result()
    kind = spec['kind']
    budget = spec.get('budget', 40 if tier == 'quick' else 1500)
    if kind == 'a_mt':
        rg = hl.get_reference(spec['rg'])
        contig = [c for c in primary_contigs(rg) if c in ('MT', 'chrM')][0]
        res.exhaustive = True
        for size in range(spec['lo'], spec['hi'] + 1):
            if time.time() > t0 + budget:
                res.exhaustive = False
                res.notes['budget_hit'] = 1
                break
            case = ['a', spec['rg'], contig, size]
            nt, cls, fl = check_part_a(case)
            res.case(case, nt, cls)
            for sig, cl, msg in fl:
                res.fail(sig, cl, msg, case)
    elif kind == 'a_fixed':
        res.exhaustive = True
        for size in spec['sizes']:
            if time.time() > t0 + budget:
                res.exhaustive = False
                res.notes['budget_hit'] = 1
                break
            case = ['a', spec['rg'], None, size]
            nt, cls, fl = check_part_a(case)
            res.case(case, nt, cls)
            for sig, cl, msg in fl:
                res.fail(sig, cl, msg, case)
    else:
        from hypothesis import strategies as st
        from vlib.hyp import search
        if kind == 'a_hyp_genome':
            lo = 4.0 if tier == 'thorough' else 4.6
            strat = st.tuples(st.sampled_from(GENOMES), st.floats(lo, math.log10(3e8)), st.integers(-2, 2)).map(
                lambda t: ['a', t[0], None, max(10_000, min(300_000_000, int(10 ** t[1]) + t[2]))])
        elif kind == 'a_hyp_contig':
            table = []
            for g in GENOMES:
                rg = hl.get_reference(g)
                for c in primary_contigs(rg):
                    L = rg.lengths[c]
                    table.append((g, c, L, [d for d in divisors(L - 1) if d >= 2 and L // d <= 20000]))

            @st.composite
            def corner(draw):
                g, c, L, divs = draw(st.sampled_from(table))
                mode = draw(st.integers(0, 2))
                delta = draw(st.integers(-1, 1))
                if mode == 0 or not divs:
                    k = draw(st.integers(1, 20000))
                    size = -(-L // k) + delta
                elif mode == 1:
                    size = draw(st.sampled_from(divs)) - 1 + delta
                else:
                    size = draw(st.integers(max(1, L // 20000), L + 2))
                return ['a', g, c, max(size, max(1, L // 25000))]
            strat = corner()
        else:
            strat = strat_b(tier == 'thorough')
        search(res, PROPERTY, strat, _guarded(check_case, t0 + budget + (10 if tier == 'quick' else 120)), spec['n'], seed,
               budget_s=max(1.0, t0 + budget - time.time()))
    return res


def replay(case):
    nt, cls, fl = check_case(case)
    return [dict(signature=s, clause=c, message=msg, case=case) for s, c, msg in fl]
