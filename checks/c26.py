"""C26 — gear.time_limited_max_size_cache.TimeLimitedMaxSizeCache is bounded, fresh and single-flight."""
from __future__ import annotations

from vlib import hostenv
from vlib.runner import Result

PROPERTY = 'C26'
LEVEL = 'exploration'
RULE = ('slots 1..3, lifetime L, 4 keys; op lists over lookup(k) [new task], load_ok(k) / load_fail(k) [complete the in-flight '
        'load of k], cancel(i) [cancel lookup task i], advance(dt) with dt in {L/2, L-1, L, L+1, 2L} ns; the loop is drained '
        'after each op; time.monotonic_ns is a harness clock. Oracle: |cache| <= slots; a returned value was loaded < L ago; '
        '<= 1 load in flight per key and no load starts while a fresh value is cached; a lookup task ends in error only if its '
        'own (joined) load was failed by the harness or the task itself was cancelled by the harness. Non-trivial: >= 2 '
        'concurrent lookups of one key with a cancel or failure among them, or an expiry boundary (dt in {L-1,L,L+1}) followed by a lookup.')
ASSUMPTIONS = ['prometheus timing wrapper is replaced by a pass-through that awaits the same future (same cancellation propagation as awaiting the task directly)']
TRUSTED = ['vlib/aiosched.py virtual loop']
L = 1000


class Boom(Exception):
    pass


def run_case(case):
    hostenv.prepare_services()
    import asyncio
    import gear.time_limited_max_size_cache as mod
    from vlib.aiosched import new_loop, close_loop, Gate

    slots = case['slots']
    ops = case['ops']
    loop = new_loop()
    now = [10_000_000]
    fails = []
    classes = set()
    nontrivial = False

    class _T:
        monotonic_ns = staticmethod(lambda: now[0])
        time = staticmethod(lambda: now[0] / 1e9)
    saved = mod.time
    mod.time = _T
    try:
        inflight = {}        # key -> list of load records
        loads = []           # all load records: dict(id,key,gate,state)
        lookups = []         # dict(task,key,load_id,cancelled_by_harness)
        cache = None

        async def load(k):
            rec = dict(id=len(loads), key=k, gate=Gate(loop), state='running')
            if cache is not None and k in cache._cache and cache._expiry_time.get(k, 0) > now[0]:
                fails.append(('load-while-fresh', 'no new load while a fresh value is cached', f'key {k} loaded while cached and fresh'))
            loads.append(rec)
            inflight.setdefault(k, []).append(rec)
            if len(inflight[k]) > 1:
                fails.append(('double-load', 'each key is loaded at most once among concurrent lookups',
                              f'key {k} has {len(inflight[k])} loads in flight'))
            try:
                r = await rec['gate']
            finally:
                inflight[k].remove(rec)
            if r == 'fail':
                rec['state'] = 'failed'
                raise Boom(rec['id'])
            rec['state'] = 'ok'
            return (rec['id'], now[0])

        cache = mod.TimeLimitedMaxSizeCache(load, L, slots, 'verif')

        async def lookup(rec):
            v = await cache.lookup(rec['key'])
            rec['value'] = v
            rec['returned_at'] = now[0]
            return v

        boundary_pending = False
        for step, op in enumerate(ops):
            kind = op[0]
            if kind == 'l':
                k = op[1] % 4
                joined = inflight.get(k) or []
                rec = dict(key=k, joined=[r['id'] for r in joined], cancelled=False, n_loads_before=len(loads))
                if joined:
                    classes.add('joined_inflight')
                if boundary_pending:
                    nontrivial = True
                    classes.add('lookup_after_expiry_boundary')
                rec['task'] = loop.create_task(lookup(rec))
                lookups.append(rec)
            elif kind in ('ok', 'bad'):
                k = op[1] % 4
                fl = inflight.get(k) or []
                if not fl:
                    classes.add('skipped')
                    continue
                waiters = [r for r in lookups if r['key'] == k and not r['task'].done()]
                if kind == 'bad' and len(waiters) >= 2:
                    nontrivial = True
                    classes.add('failure_with_cowaiters')
                fl[0]['gate'].open('fail' if kind == 'bad' else 'ok')
            elif kind == 'c':
                alive = [r for r in lookups if not r['task'].done()]
                if not alive:
                    classes.add('skipped')
                    continue
                r = alive[op[1] % len(alive)]
                co = [x for x in alive if x is not r and x['key'] == r['key']]
                if co:
                    nontrivial = True
                    classes.add('cancel_with_cowaiters')
                r['cancelled'] = True
                r['task'].cancel()
            elif kind == 'adv':
                dt = [L // 2, L - 1, L, L + 1, 2 * L][op[1] % 5]
                now[0] += dt
                boundary_pending = dt in (L - 1, L, L + 1) and len(cache._cache) > 0
                loop.settle()
                continue
            loop.settle()
            boundary_pending = False
            # a lookup that started its own load joins that load
            for r in lookups:
                if 'own' not in r:
                    r['own'] = [l['id'] for l in loads[r['n_loads_before']:] if l['key'] == r['key']][:1]
            # ---- oracle
            if len(cache._cache) > slots:
                fails.append(('over-capacity', 'never holds more entries than its capacity', f'{len(cache._cache)} > {slots}'))
            for i, r in enumerate(lookups):
                t = r['task']
                if not t.done() or r.get('audited'):
                    continue
                r['audited'] = True
                if t.cancelled():
                    if not r['cancelled']:
                        fails.append(('innocent-cancelled', 'a lookup fails only if its own load failed or it was itself cancelled',
                                      f'lookup #{i} of key {r["key"]} got CancelledError although only another lookup was cancelled'))
                    continue
                e = t.exception()
                if e is not None:
                    mine = set(r['joined']) | set(r['own'])
                    if isinstance(e, Boom) and e.args[0] in mine:
                        continue
                    if r['cancelled']:
                        continue
                    fails.append(('innocent-error', 'a lookup fails only if its own load failed or it was itself cancelled',
                                  f'lookup #{i} of key {r["key"]} raised {e!r}; its loads {sorted(mine)}'))
                    continue
                vid, stamp = r['value']
                if loads[vid]['key'] != r['key']:
                    fails.append(('wrong-key', 'returns the value loaded for the key', f'lookup of {r["key"]} got load of {loads[vid]["key"]}'))
                if r['returned_at'] - stamp >= L:
                    fails.append(('stale-value', 'never returns a value older than its lifetime',
                                  f'lookup #{i} returned value loaded {r["returned_at"] - stamp} ns ago (L={L})'))
            if fails:
                break
        # release everything
        for k, fl in list(inflight.items()):
            for rec in list(fl):
                rec['gate'].open('ok')
        loop.settle()
        for r in lookups:
            t = r['task']
            if t.done() and not t.cancelled():
                t.exception()
    finally:
        mod.time = saved
        close_loop(loop)
    return nontrivial, sorted(classes), fails


def plan(tier):
    n = 2000 if tier == 'quick' else 30000
    return [dict(kind='hyp', n=n) for _ in range(16)]


def run_shard(spec, seed, tier):
    from hypothesis import strategies as st
    from vlib.hyp import search
    res = Result()
    op = st.one_of(st.tuples(st.just('l'), st.integers(0, 3)).map(list),
                   st.tuples(st.just('l'), st.integers(0, 1)).map(list),
                   st.tuples(st.sampled_from(['ok', 'ok', 'bad']), st.integers(0, 3)).map(list),
                   st.tuples(st.just('c'), st.integers(0, 5)).map(list),
                   st.tuples(st.just('adv'), st.integers(0, 4)).map(list))
    strat = st.builds(lambda s, ops: dict(slots=s, ops=ops), st.integers(1, 3), st.lists(op, min_size=1, max_size=40))
    search(res, PROPERTY, strat, run_case, spec['n'], seed)
    return res


def replay(case):
    nt, cls, fl = run_case(case)
    return [dict(signature=s, clause=c, message=m, case=case) for s, c, m in fl]
