"""C37 — statistical tests return correct values.

The REAL Scala text of stats/package.scala (uniroot, hardyWeinbergTest, chiSquaredTest, contingencyTableTest,
fisherExactTest) and stats/LeveneHaldane.scala is compiled as a slice (vlib.jvmslice) and compared with references
written from the definitions in exact integer arithmetic (binomial / multinomial weights as Python ints), 256-bit
fixed point for the non-central hypergeometric, and mpmath (50 digits) for the chi-squared tail.
"""
from __future__ import annotations

import atexit
import math
import os
import sys
from fractions import Fraction

from vlib import jvmslice
from vlib.runner import Result, VERIF

PROPERTY = 'C37'
LEVEL = 'exploration'
RULE = ('2x2 tables with cells in [0,3000]: seeded 10^4-sample of the dense <=30 grid (thorough: all 31^4), Hypothesis-generated '
        'large / sparse / unbalanced / symmetric (pmf ties) / zero-margin / negative tables, min_cell_count 0-10 (and negative); '
        'HWE triples exhaustive to 25^3 (thorough 40^3) plus generated up to 5000, both sidedness values on every triple. '
        'Oracle per table: Fisher p (R rule, exact integers), conditional-MLE odds ratio and 95% CI (bracketing the defining '
        'equation), chi-squared statistic/p/odds ratio, contingency switch, NaN exactly for zero margins, errors for negatives, '
        'p in [0,1]. Non-trivial: no zero margin and reference p not in {0,1,NaN}; distinct by input.')
ASSUMPTIONS = [
    'the engine is exercised as Scala source slices compiled with Scala 3.3.4 -source:3.0-migration against scala-library 2.13 and '
    'commons-math3 3.6.1 (Hail: Scala 2.12, same commons-math3); floating-point semantics are identical',
    'jdistlib is absent: pchisqtail(x, df) is a prelude stub backed by commons-math3 (the incomplete-gamma routine that '
    'ChiSquaredDistribution uses: Gamma.regularizedGammaQ(df/2, x/2)); so chi-squared p-values test the engine\'s statistic and '
    'plumbing, not jdistlib; tolerance for that path is rel 1e-8 / abs 1e-12 like the others',
    'Fisher semantics = R fisher.test defaults as the docstring states: two-sided p sums pmf(x) <= pmf(obs)*(1+1e-7); tables with a pmf '
    'within 1e-10 relative of that cut-off are ambiguous and skipped (counted)',
    'odds ratio / CI come from R\'s zeroin on t in (0,1] (odds ratio t or 1/t) with absolute tolerance 1.22e-4; the oracle accepts a '
    'value when the defining equation is bracketed within rel 2e-3 of it OR within 1.5e-4 absolute in t; cases that only pass the '
    'absolute rule are counted (root_only_abs_tol)',
    'a zero row or column margin is the degenerate case: Fisher and chi-squared p/statistics are NaN there (docstring: fields may be nan)',
    'HWE two-sided mid-p = P(less likely outcome) + 1/2 P(equally likely outcomes) (aggregator docstring / LeveneHaldane.scala comment); '
    'one-sided = P(more hets) + 1/2 P(observed); triples with a non-identical outcome within 1e-10 relative of the observed '
    'probability are ambiguous for the engine\'s 1e-12 tie tolerance and skipped (counted)',
]
TRUSTED = ['vlib/jvmslice.py slicer + stubs (fatal, pchisqtail via commons-math3)', 'integer/fixed-point references in checks/c37.py',
           'mpmath gammainc', 'commons-math3 HypergeometricDistribution (used by the engine code itself)']

U = 'hail/hail/utils/src/is/hail/utils/'
S = 'hail/hail/src/is/hail/stats/'

REL = 1e-8
ABS = 1e-12
ROOT_REL = 2e-3
ROOT_ABS_T = 1.5e-4
ALPHA = Fraction(25, 1000)

HANDLER = r'''
    def arr(f: => Array[Double]): String =
      try ds(f) catch {
        case e: VirtualMachineError if !e.isInstanceOf[StackOverflowError] => throw e
        case t: Throwable => err(t)
      }
    op match {
      case "table" =>
        val x = a(0).toInt; val y = a(1).toInt; val z = a(2).toInt; val w = a(3).toInt; val m = a(4).toInt
        "{\"f\":" + arr(fisherExactTest(x, y, z, w)) + ",\"c\":" + arr(chiSquaredTest(x, y, z, w)) +
          ",\"t\":" + arr(contingencyTableTest(x, y, z, w, m)) + "}"
      case "hwe" =>
        val r = a(0).toInt; val h = a(1).toInt; val v = a(2).toInt
        "{\"two\":" + arr(hardyWeinbergTest(r, h, v, false)) + ",\"one\":" + arr(hardyWeinbergTest(r, h, v, true)) + "}"
      case "cuberoot" =>
        val c = a(0).toDouble
        uniroot(x => x * x * x - c, 0.0, 1.0) match { case Some(r) => d(r); case None => "null" }
      case "pchisqtail" => d(pchisqtail(a(0).toDouble, a(1).toDouble))
    }
'''


def build_slice() -> jvmslice.Slice:
    sl = jvmslice.Slice('c37', imports='''
import org.apache.commons.math3.distribution.{AbstractIntegerDistribution, HypergeometricDistribution}
import org.apache.commons.math3.random.RandomGenerator
''')
    sl.cut(U + 'ErrorHandling.scala', 'class HailException')
    sl.prelude('''
object stubs {
  def fatal(msg: String): Nothing = throw new HailException(msg)
  // jdistlib is absent: upper tail of the chi-squared distribution from commons-math3 (see ASSUMPTIONS)
  def pchisqtail(x: Double, df: Double): Double =
    if (x.isNaN || df.isNaN) Double.NaN else if (x <= 0) 1.0
    else org.apache.commons.math3.special.Gamma.regularizedGammaQ(df / 2, x / 2)
}
import stubs._
''')
    sl.members(U + 'package.scala', 'package object utils', ['val defaultTolerance', 'def D_epsilon', 'def D_==', 'def D_>'],
               wrap='object utils_pkg')
    sl.prelude('import utils_pkg._')
    sl.cut(S + 'LeveneHaldane.scala', 'class LeveneHaldane', 'object LeveneHaldane')
    sl.members(S + 'package.scala', 'package object stats',
               ['def uniroot', 'def hardyWeinbergTest', 'def chiSquaredTest', 'def contingencyTableTest', 'def fisherExactTest'],
               wrap='object stats_pkg')
    sl.prelude('import stats_pkg._')
    sl.handler(HANDLER)
    return sl


_jvm = None
_mp = None


def jvm() -> jvmslice.Jvm:
    global _jvm
    if _jvm is None:
        _jvm = build_slice().start()
        atexit.register(_jvm.close)
    return _jvm


def mp():
    global _mp
    if _mp is None:
        deps = os.path.join(VERIF, '.deps')
        if deps not in sys.path and os.path.isdir(deps):
            sys.path.append(deps)
        import mpmath
        mpmath.mp.dps = 50
        _mp = mpmath
    return _mp


# ---- helpers --------------------------------------------------------------------------------------------

def fl(xs):
    return [float(x) for x in xs]


def close(got, want, rel=REL, abs_=ABS):
    if math.isnan(want):
        return math.isnan(got)
    if math.isnan(got):
        return False
    if math.isinf(want) or math.isinf(got):
        return got == want
    return abs(got - want) <= max(abs_, rel * abs(want))


def ratio(num: int, den: int) -> float:
    """Correctly rounded num/den for big ints (0/0 excluded by callers)."""
    return num / den if den else math.nan


# ---- Fisher reference -----------------------------------------------------------------------------------

def fisher_weights(a, b, c, d):
    """Unnormalised central hypergeometric pmf as exact integers: w(x) = C(m,x) C(n,k-x), x = lo..hi."""
    m, n, k = a + b, c + d, a + c
    lo, hi = max(0, k - n), min(k, m)
    w = [math.comb(m, lo) * math.comb(n, k - lo)]
    for x in range(lo, hi):
        w.append(w[-1] * (k - x) * (m - x) // ((x + 1) * (n - k + x + 1)))
    return m, n, k, lo, hi, w


def fisher_p(a, lo, w):
    """-> (p, ambiguous)   R rule with relErr = 1 + 1e-7, exact integer comparisons."""
    wo = w[a - lo]
    sel = 0
    amb = False
    E7 = 10**7
    E10 = 10**10
    for v in w:
        if v * E7 <= wo * (E7 + 1):
            sel += v
        if abs(v * E10 - wo * (E10 + 1000)) < wo:
            amb = True
    return ratio(sel, sum(w)), amb


PREC = 256


def nc_eval(m, n, k, lo, hi, t: Fraction, a):
    """Non-central hypergeometric with odds ratio t: -> (mean, P(X >= a), P(X <= a)) as floats.
    Terms T(x) ~ w(x) t^x in 256-bit fixed point relative to the largest term (terms below 2^-256 vanish)."""
    tn, td = t.numerator, t.denominator

    def up(x):      # T(x+1)/T(x) = A/B
        return (k - x) * (m - x) * tn, (x + 1) * (n - k + x + 1) * td
    # peak = smallest x in [lo, hi) with ratio(x) < 1, else hi   (ratio is decreasing in x)
    l, h = lo, hi
    while l < h:
        mid = (l + h) // 2
        A, B = up(mid)
        if A < B:
            h = mid
        else:
            l = mid + 1
    peak = l
    den = sx = upper = lower = 0
    T = 1 << PREC
    x = peak
    while True:
        den += T
        sx += x * T
        if x >= a:
            upper += T
        if x <= a:
            lower += T
        if x >= hi:
            break
        A, B = up(x)
        T = T * A // B
        x += 1
        if T == 0:
            break
    T = 1 << PREC
    x = peak
    while x > lo:
        A, B = up(x - 1)
        T = T * B // A
        x -= 1
        if T == 0:
            break
        den += T
        sx += x * T
        if x >= a:
            upper += T
        if x <= a:
            lower += T
    return sx / den, upper / den, lower / den


_SOFT = [0]


def _true_root(f, target, increasing):
    """Bisection on a log scale for the monotone defining equation (only used to word a failure message)."""
    lo_, hi_ = 1e-300, 1e300
    for _ in range(75):
        mid = math.exp((math.log(lo_) + math.log(hi_)) / 2)
        if (f(mid) < target) == increasing:
            lo_ = mid
        else:
            hi_ = mid
    return math.sqrt(lo_) * math.sqrt(hi_)


def tol_interval(r):
    """Interval of odds ratios the root finder's tolerance allows around a returned value r (0 <= r <= inf).
    -> (lo, hi, lo_rel, hi_rel)."""
    if r == 0:
        return 0.0, ROOT_ABS_T, 0.0, 0.0
    if math.isinf(r):
        return 1 / ROOT_ABS_T, math.inf, math.inf, math.inf
    lr, hr = r * (1 - ROOT_REL), r * (1 + ROOT_REL)
    if r <= 1:
        la, ha = max(0.0, r - ROOT_ABS_T), r + ROOT_ABS_T
    else:
        t = 1 / r
        la = 1 / (t + ROOT_ABS_T)
        ha = math.inf if t - ROOT_ABS_T <= 0 else 1 / (t - ROOT_ABS_T)
    return min(la, lr), max(ha, hr), lr, hr


def check_fisher(a, b, c, d, got, cls):
    """got: 4 floats from the engine.  -> (failures, p_ref or None)"""
    fails = []
    m, n, k, lo, hi, w = fisher_weights(a, b, c, d)
    N = m + n
    inp = f'fisher_exact_test({a},{b},{c},{d})'
    if m == 0 or n == 0 or k == 0 or k == N:
        cls.append('zero_margin')
        if not all(math.isnan(g) for g in got):
            fails.append(('fisher-degenerate-not-nan', 'zero margin => NaN fields', f'{inp} = {got}'))
        return fails, math.nan
    p, od, cl, cu = got
    if any(math.isnan(g) for g in got):
        fails.append(('fisher-nan-on-valid-table', 'no NaN when all margins are positive', f'{inp} = {got}'))
        return fails, None
    if not (-1e-12 <= p <= 1 + 1e-12):
        fails.append(('fisher-p-range', 'p in [0,1]', f'{inp} p = {p!r}'))
    pref, amb = fisher_p(a, lo, w)
    if amb:
        cls.append('fisher_ambiguous_cutoff')
    elif not close(p, pref):
        fails.append(('fisher-p-value', 'two-sided p = sum of pmf(x) <= pmf(obs)(1+1e-7)', f'{inp} p = {p!r}, reference {pref!r}'))
    if sum(1 for v in w if v == w[a - lo]) > 1:
        cls.append('fisher_pmf_tie')

    def ev(t):
        if t == 0:
            return float(lo), (1.0 if a <= lo else 0.0), 1.0
        if math.isinf(t):
            return float(hi), 1.0, (1.0 if a >= hi else 0.0)
        return nc_eval(m, n, k, lo, hi, Fraction(t), a)

    def bracket(name, r, which, target, increasing):
        """defining equation f(r*) = target with f monotone; r* must lie in the tolerance interval around r."""
        if r < 0:
            fails.append((f'fisher-{name}', f'{name} is a non-negative odds ratio', f'{inp} {name} = {r!r}'))
            return
        tl, th, rl, rh = tol_interval(r)
        fl_, fh = ev(tl)[which], ev(th)[which]
        ok = (fl_ <= target <= fh) if increasing else (fh <= target <= fl_)
        slack = 1e-9
        if not ok:
            ok = (fl_ - slack <= target <= fh + slack) if increasing else (fh - slack <= target <= fl_ + slack)
        if not ok:
            fails.append((f'fisher-{name}', f'{name} solves its defining equation (within the root-finder tolerance)',
                          f'{inp} {name} = {r!r}: f({tl!r}) = {fl_!r}, f({th!r}) = {fh!r}, target {target!r}'))
            return
        # strict clause of the property: the value agrees with its mathematical definition to rel 2e-3
        if r == 0:
            okr = False
            f1 = f2 = None
        else:
            f1, f2 = ev(rl)[which], ev(rh)[which]
            okr = (f1 - slack <= target <= f2 + slack) if increasing else (f2 - slack <= target <= f1 + slack)
        cls.append('root_rel_2e-3' if okr else 'root_only_abs_tol')
        if not okr:
            _SOFT[0] += 1
            true = _true_root(lambda t: ev(t)[which], target, increasing) if (_SOFT[0] <= 25 or hi - lo <= 100) else None
            fails.append(('fisher-uniroot-abs-tolerance',
                          'odds ratio / CI limits solve their defining equation to rel 2e-3',
                          f'{inp} {name} = {r!r}' + (f', mathematically {true!r}' if true is not None else '')
                          + f' (equation at {name}*(1-/+2e-3): {f1!r}, {f2!r}; target {target!r}); the value is only within the '
                          f'root finder\'s absolute tolerance 1.22e-4 on t = min(OR, 1/OR) (R zeroin), so limits far from 1 are inaccurate'))

    # conditional MLE: E[X; or] = a
    if a == lo:
        if od != 0.0:
            fails.append(('fisher-odds-ratio', 'conditional MLE is 0 at the lower end of the support', f'{inp} odds_ratio = {od!r}'))
    elif a == hi:
        if od != math.inf:
            fails.append(('fisher-odds-ratio', 'conditional MLE is +inf at the upper end of the support', f'{inp} odds_ratio = {od!r}'))
    else:
        bracket('odds-ratio', od, 0, float(a), True)
    # lower CI: P(X >= a; L) = alpha/2
    if a == lo:
        if cl != 0.0:
            fails.append(('fisher-ci-lower', 'lower limit is 0 at the lower end of the support', f'{inp} ci_95_lower = {cl!r}'))
    else:
        bracket('ci-lower', cl, 1, float(ALPHA), True)
    if a == hi:
        if cu != math.inf:
            fails.append(('fisher-ci-upper', 'upper limit is +inf at the upper end of the support', f'{inp} ci_95_upper = {cu!r}'))
    else:
        bracket('ci-upper', cu, 2, float(ALPHA), False)
    if not fails and not (cl <= od <= cu):
        fails.append(('fisher-ci-order', 'ci_95_lower <= odds_ratio <= ci_95_upper', f'{inp} = {got}'))
    return fails, pref


# ---- chi-squared reference ------------------------------------------------------------------------------

def chisq_ref(a, b, c, d):
    """-> (p, odds) floats; NaN p for a zero margin."""
    r1, r2, c1, c2 = a + b, c + d, a + c, b + d
    ad, bc = a * d, b * c
    if bc:
        odds = ad / bc
    else:
        odds = math.inf if ad else math.nan
    if 0 in (r1, r2, c1, c2):
        return math.nan, odds, None
    stat = Fraction((a + b + c + d) * (ad - bc) ** 2, r1 * r2 * c1 * c2)
    M = mp()
    x = M.mpf(stat.numerator) / M.mpf(stat.denominator)
    p = M.gammainc(M.mpf(1) / 2, x / 2, M.inf, regularized=True) if x != 0 else M.mpf(1)
    return float(p), odds, stat


def check_chisq(a, b, c, d, got, cls):
    fails = []
    inp = f'chi_squared_test({a},{b},{c},{d})'
    pref, oref, stat = chisq_ref(a, b, c, d)
    p, od = got
    if not close(p, pref):
        fails.append(('chisq-p-value' if not math.isnan(pref) else 'chisq-degenerate-not-nan',
                      'p = upper tail of chi2(1) at N(ad-bc)^2/(r1 r2 c1 c2); NaN for a zero margin',
                      f'{inp} p = {p!r}, reference {pref!r} (statistic {float(stat) if stat is not None else None!r})'))
    if not math.isnan(p) and not (-1e-12 <= p <= 1 + 1e-12):
        fails.append(('chisq-p-range', 'p in [0,1]', f'{inp} p = {p!r}'))
    if not close(od, oref, rel=1e-12, abs_=0.0):
        fails.append(('chisq-odds-ratio', 'odds ratio = (c1/c2)/(c3/c4) = ad/bc', f'{inp} odds_ratio = {od!r}, reference {oref!r}'))
    return fails


# ---- table check ----------------------------------------------------------------------------------------

def is_err(x):
    return isinstance(x, dict) and 'err' in x


def eval_table(case, reply):
    """-> (nontrivial, classes, failures)"""
    a, b, c, d = case['cells']
    mcc = case['m']
    cls = []
    fails = []
    neg = min(a, b, c, d) < 0
    f, ch, t = reply['f'], reply['c'], reply['t']
    if neg or mcc < 0:
        cls.append('negative_input')
        for name, r, applies in (('fisher', f, neg), ('chisq', ch, neg), ('contingency', t, True)):
            if applies and not (is_err(r) and r['err'].endswith('HailException')):
                fails.append((f'{name}-negative-accepted', 'negative input is an error',
                              f'{name}({a},{b},{c},{d}{"," + str(mcc) if name == "contingency" else ""}) returned {r}'))
        if neg:
            return False, cls, fails
    for name, r in (('fisher', f), ('chisq', ch)) + ((('contingency', t),) if mcc >= 0 else ()):
        if is_err(r):
            fails.append((f'{name}-error-on-valid-input', 'valid input returns values',
                          f'{name} on ({a},{b},{c},{d}) m={mcc} failed: {r["err"]}: {r["msg"]}'))
    if fails:
        return False, cls, fails
    f = fl(f)
    ch = fl(ch)
    if len(f) != 4 or len(ch) != 2:
        fails.append(('result-shape', 'Fisher returns 4 fields, chi-squared 2', f'{reply}'))
        return False, cls, fails
    ff, pref = check_fisher(a, b, c, d, f, cls)
    fails += ff
    fails += check_chisq(a, b, c, d, ch, cls)
    if mcc >= 0:
        t = fl(t)
        use_chi = min(a, b, c, d) >= mcc
        cls.append('ctt_chisq' if use_chi else 'ctt_fisher')
        want = ch if use_chi else f
        same = len(t) >= 2 and all((math.isnan(x) and math.isnan(y)) or x == y for x, y in zip(t[:2], want[:2]))
        if not same:
            fails.append(('contingency-switch', 'chi-squared iff every cell >= min_cell_count, else Fisher',
                          f'contingency_table_test({a},{b},{c},{d},{mcc}) = {t}; chi-squared {ch}; Fisher {f}'))
    nontriv = pref is not None and not math.isnan(pref) and 0.0 < pref < 1.0
    if max(a, b, c, d) > 300:
        cls.append('large_cells')
    if min(a, b, c, d) <= 2 and max(a, b, c, d) >= 100:
        cls.append('sparse_unbalanced')
    return nontriv, cls, fails


def check_tables(cases):
    reqs = ['table {} {} {} {} {}'.format(*c['cells'], c['m']) for c in cases]
    rs = jvm().ask_chunked(reqs, 500)
    return [eval_table(c, r) for c, r in zip(cases, rs)]


# ---- Hardy-Weinberg reference ---------------------------------------------------------------------------

def hwe_ref(r, h, v):
    """-> dict(het, two, one, ambiguous, tie)  exact integers."""
    n = r + h + v
    nA = h + 2 * min(r, v)
    nB = 2 * n - nA
    x0 = nA % 2
    w = {x0: (2 ** x0) * math.comb(n, x0) * math.comb(n - x0, (nA - x0) // 2)}
    x = x0
    while x + 2 <= nA:
        w[x + 2] = w[x] * (nA - x) * (nB - x) // ((x + 2) * (x + 1))
        x += 2
    tot = sum(w.values())
    wo = w[h]
    less = eq = more = 0
    amb = tie = False
    E10 = 10**10
    for x, v_ in w.items():
        if v_ == wo:
            eq += v_
            if x != h:
                tie = True
        else:
            if abs(v_ - wo) * E10 < wo:
                amb = True
            if v_ < wo:
                less += v_
        if x > h:
            more += v_
    het = (nA * nB) / ((2 * n - 1) * n) if n > 0 else math.nan
    return dict(het=het, two=(2 * less + eq) / (2 * tot), one=(2 * more + wo) / (2 * tot), ambiguous=amb, tie=tie)


def eval_hwe(case, reply):
    r, h, v = case['counts']
    cls = []
    fails = []
    inp = f'hardy_weinberg_test({r},{h},{v}'
    if min(r, h, v) < 0:
        cls.append('negative_input')
        for side in ('two', 'one'):
            x = reply[side]
            if not (is_err(x) and x['err'].endswith('HailException')):
                fails.append(('hwe-negative-accepted', 'negative input is an error', f'{inp}, one_sided={side == "one"}) returned {x}'))
        return False, cls, fails
    for side in ('two', 'one'):
        if is_err(reply[side]):
            fails.append((f'hwe-error-on-valid-input-{side}-sided', 'valid input returns values',
                          f'{inp}, one_sided={side == "one"}) failed: {reply[side]["err"]}: {reply[side]["msg"]}'))
    if fails:
        return False, cls, fails
    ref = hwe_ref(r, h, v)
    if ref['tie']:
        cls.append('hwe_exact_tie')
    for side in ('two', 'one'):
        het, p = fl(reply[side])
        if not close(het, ref['het'], rel=1e-12, abs_=0.0):
            fails.append(('hwe-het-freq', 'het_freq_hwe = n_ref n_var / ((2n-1) n)',
                          f'{inp}, one_sided={side == "one"}) het_freq_hwe = {het!r}, reference {ref["het"]!r}'))
        if math.isnan(p) or not (-1e-12 <= p <= 1 + 1e-12):
            fails.append((f'hwe-p-range-{side}-sided', 'p in [0,1]', f'{inp}, one_sided={side == "one"}) p = {p!r}'))
            continue
        if side == 'two' and ref['ambiguous']:
            cls.append('hwe_ambiguous_near_tie')
            continue
        if not close(p, ref[side]):
            fails.append((f'hwe-midp-{side}-sided', 'mid-p exact test on the Levene-Haldane distribution',
                          f'{inp}, one_sided={side == "one"}) p = {p!r}, reference {ref[side]!r}'))
    n = r + h + v
    if n > 1000:
        cls.append('hwe_large')
    nontriv = n > 0 and 0.0 < ref['two'] < 1.0
    return nontriv, cls, fails


def check_hwes(cases):
    # all requests of a shard go to ONE JVM, as all calls of a query do in the engine: each judged call is preceded by a related
    # call (same sample count, its minor-allele count equal to this call's heterozygote count -- or the mirrored table), so that a
    # result must not depend on what the JVM computed just before
    reqs = []
    for k, c in enumerate(cases):
        r, h, v = c['counts']
        if min(r, h, v) >= 0:
            prime = (r + v, h, 0) if k % 2 == 0 else (v, h, r)
        else:
            prime = (1, 1, 1)
        reqs.append('hwe {} {} {}'.format(*prime))
        reqs.append('hwe {} {} {}'.format(r, h, v))
    rs = jvm().ask_chunked(reqs, 1000)
    return [eval_hwe(c, rs[2 * k + 1]) for k, c in enumerate(cases)]


def check_misc():
    """uniroot directly (cube roots) and the pchisqtail stub against mpmath (guards the substitution)."""
    J = jvm()
    M = mp()
    fails = []
    cs = [i / 64 for i in range(1, 64)] + [1e-9, 1e-6, 0.999999]
    for c, r in zip(cs, J.ask([f'cuberoot {c!r}' for c in cs])):
        if r is None or abs(float(r) - c ** (1 / 3)) > 1.3e-4:
            fails.append(('uniroot-cuberoot', 'uniroot finds the root within its tolerance 1.22e-4',
                          f'uniroot(x^3 - {c!r}, 0, 1) = {r!r}, root {c ** (1 / 3)!r}'))
    xs = [1e-300, 1e-12, 0.001, 0.5, 1.0, 3.84, 10.0, 28.7, 100.0, 700.0, 1400.0, 1500.0]
    for x, r in zip(xs, J.ask([f'pchisqtail {x!r} 1.0' for x in xs])):
        want = float(M.gammainc(M.mpf(1) / 2, M.mpf(x) / 2, M.inf, regularized=True))
        if not close(float(r), want):
            fails.append(('harness-pchisqtail-stub', 'prelude pchisqtail stub agrees with mpmath', f'pchisqtail({x},1) = {r}, want {want}'))
    return fails


# ---- plan / shards --------------------------------------------------------------------------------------

def plan(tier):
    build_slice().compile()      # compile once in the parent (cache); a slice that no longer compiles => exit 2
    quick = tier == 'quick'
    specs = []
    if quick:
        for i in range(7):
            specs.append(dict(kind='grid_sample', n=1430, part=i))
    else:
        for i in range(31):
            specs.append(dict(kind='grid_full', a=i))
    hn = 25 if quick else 40
    parts = 2 if quick else 8
    for i in range(parts):
        specs.append(dict(kind='hwe_grid', n=hn, part=i, parts=parts))
    # the engine's dnhyper is quadratic in the support size (d.max / d.sum inside map), a 3000-cell table costs 5-10 s,
    # so generated tables come in two flavours: cells <= 400 (many) and cells <= 3000 (few, time-boxed)
    for _ in range(3 if quick else 10):
        specs.append(dict(kind='hyp_table', cap=400, n=300 if quick else 5000))
    for _ in range(2 if quick else 6):
        specs.append(dict(kind='hyp_table', cap=3000, n=8 if quick else 250, budget_s=30 if quick else 1500))
    for _ in range(2 if quick else 4):
        specs.append(dict(kind='hyp_hwe', n=1200 if quick else 20000))
    return specs


def _feed(res, cases, results):
    for c, (nt, cls, fl_) in zip(cases, results):
        res.case(c, nt, cls)
        for sig, cl, m in fl_:
            res.fail(sig, cl, m, c)


def run_shard(spec, seed, tier):
    res = Result()
    kind = spec['kind']
    if kind in ('grid_sample', 'grid_full'):
        if kind == 'grid_sample':
            import random
            rng = random.Random(seed)          # seeded sample of the dense grid; deterministic in (VERIF_SEED, shard)
            cases = [dict(kind='table', cells=[rng.randint(0, 30) for _ in range(4)], m=rng.randint(0, 10))
                     for _ in range(spec['n'])]
            if spec['part'] == 0:
                for sig, cl, m in check_misc():
                    res.fail(sig, cl, m, dict(kind='misc'))
        else:
            res.exhaustive = True
            a = spec['a']
            cases = [dict(kind='table', cells=[a, b, c, d], m=(a + 3 * b + 5 * c + 7 * d) % 11)
                     for b in range(31) for c in range(31) for d in range(31)]
        for i in range(0, len(cases), 500):
            chunk = cases[i:i + 500]
            _feed(res, chunk, check_tables(chunk))
    elif kind == 'hwe_grid':
        res.exhaustive = True
        n = spec['n']
        cases = [dict(kind='hwe', counts=[r, h, v]) for r in range(n + 1) if r % spec['parts'] == spec['part']
                 for h in range(n + 1) for v in range(n + 1)]
        for i in range(0, len(cases), 1000):
            chunk = cases[i:i + 1000]
            _feed(res, chunk, check_hwes(chunk))
    else:
        from hypothesis import strategies as st
        from vlib.hyp import search
        small = st.integers(0, 5)
        mid = st.integers(0, 60)
        cap = spec.get('cap', 3000)
        big = st.integers(0, cap)
        edge = st.sampled_from([0, 1, 2, cap - 1, cap, cap // 2])
        anycell = st.one_of(small, mid, big, edge)

        @st.composite
        def tables(draw):
            mode = draw(st.integers(0, 23)) % 12 if draw(st.integers(0, 3)) else draw(st.integers(0, 10))
            if mode <= 2:
                cells = [draw(big) for _ in range(4)]
            elif mode <= 5:
                cells = [draw(anycell) for _ in range(4)]
            elif mode == 6:      # symmetric => exact pmf ties at the cut-off
                x, y = draw(anycell), draw(anycell)
                cells = draw(st.sampled_from([[x, y, y, x], [x, y, x, y], [x, x, y, y], [x, x, x, x]]))
            elif mode == 7:      # zero margins
                x, y = draw(anycell), draw(anycell)
                cells = draw(st.sampled_from([[0, 0, x, y], [x, y, 0, 0], [0, x, 0, y], [x, 0, y, 0], [0, 0, 0, 0], [0, 0, 0, x]]))
            elif mode == 8:      # extreme association
                x, y = draw(big), draw(big)
                cells = draw(st.sampled_from([[x, draw(small), draw(small), y], [draw(small), x, y, draw(small)]]))
            elif mode == 9:      # one dominant cell
                cells = [draw(small) for _ in range(4)]
                cells[draw(st.integers(0, 3))] = draw(big)
            elif mode == 10:     # cells around min_cell_count
                cells = [draw(st.integers(0, 12)) for _ in range(4)]
            else:                # negative somewhere
                cells = [draw(mid) for _ in range(4)]
                cells[draw(st.integers(0, 3))] = draw(st.integers(-5, -1))
            m = draw(st.integers(0, 10)) if draw(st.integers(0, 15)) else draw(st.sampled_from([-1, -7]))
            return dict(kind='table', cells=cells, m=m)

        @st.composite
        def hwes(draw):
            mode = draw(st.integers(0, 7)) if draw(st.integers(0, 3)) == 0 else draw(st.integers(0, 6))
            if mode <= 2:
                c = [draw(st.integers(0, 5000)) for _ in range(3)]
            elif mode <= 4:
                c = [draw(st.one_of(st.integers(0, 5), st.integers(0, 300), st.integers(0, 5000))) for _ in range(3)]
            elif mode == 5:      # near equilibrium, large
                n = draw(st.integers(10, 5000))
                q = draw(st.integers(1, 99))
                h = 2 * n * q * (100 - q) // 10000
                r = n * (100 - q) * (100 - q) // 10000
                c = [r, h + draw(st.integers(-3, 3)), max(0, n - r - h)]
                c[1] = max(0, c[1])
            elif mode == 6:      # no hets / all hets
                c = draw(st.sampled_from([[draw(st.integers(0, 5000)), 0, draw(st.integers(0, 5000))],
                                          [0, draw(st.integers(0, 5000)), 0], [draw(st.integers(0, 50)), draw(st.integers(0, 5000)), draw(st.integers(0, 50))]]))
            else:
                c = [draw(st.integers(0, 100)) for _ in range(3)]
                c[draw(st.integers(0, 2))] = draw(st.integers(-4, -1))
            return dict(kind='hwe', counts=c)

        if kind == 'hyp_table':
            def chk(case):
                return check_tables([case])[0]
            search(res, PROPERTY, tables(), chk, spec['n'], seed, budget_s=spec.get('budget_s'))
        elif kind == 'hyp_hwe':
            def chk(case):
                return check_hwes([case])[0]
            search(res, PROPERTY, hwes(), chk, spec['n'], seed)
        else:
            raise ValueError(kind)
    return res


def replay(case):
    k = case.get('kind')
    if k == 'table':
        _, _, fl_ = check_tables([case])[0]
    elif k == 'hwe':
        _, _, fl_ = check_hwes([case])[0]
    elif k == 'misc':
        fl_ = check_misc()
    else:
        raise ValueError(f'unknown case kind {k!r}')
    return [dict(signature=sig, clause=cl, message=m, case=case) for sig, cl, m in fl_]
