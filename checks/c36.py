"""C36 — Front-end types agree with the IR it emits.

A case is a program-as-data in one of four dialects (one interpreter, `run_case`):
  'lit'     one (type, value) pair from vlib.hailgen: hl.literal(v, t), hl.literal(v), impute_type(v);
  'expr'    an SSA op list over the expression API (literals from hailgen values, arithmetic with numeric promotion,
            / % ** //, comparisons, collection methods, struct annotate/select/drop and nested updates, conditionals
            with missing branches and hl.case, lambdas, and the two mixed-member ops below);
  'table'   hl.utils.range_table(n) followed by steps (annotate, select, key_by, filter, transmute, drop,
            annotate_globals, group_by(..).aggregate(..), join, distinct) whose expressions are nested op lists over the
            current row / global fields; half of the joins first key the left table by a scalar field that is not the first
            of its row, and the right table is re-keyed to the left key's types whenever these are not the range table's;
  'matrix'  hl.utils.range_matrix_table(r, c) followed by steps (annotate_rows/cols/entries/globals, select_*,
            key_rows_by/key_cols_by, filter_*, row/col aggregations) and optionally rows()/cols()/entries() + table steps.

Mixed numeric members (ops 'mix' and 'uni', class Mixer; available in every dialect's op lists, and alone as the outputs of
the dedicated 'mix' shards): a Python list / set / dict (keys and values) / tuple / hl.Struct, nested, whose members are a
MIX of hail expressions of every primitive numeric type (int32, int64, float32, float64, bool; fresh constants, row / global
fields and lambda variables from the pool, conversions of pool expressions), Python scalars, numpy scalars and None, in
every order, handed to hl.array / hl.set / hl.dict / hl.tuple / hl.struct / to_expr / hl.literal / a struct field /
hl.sum, len, sorted / collection methods; and 2-3 such scalars handed to the binary operators (both operand orders, so the
reflected methods run), comparisons, hl.if_else, coalesce, or_else, case, max, min (also if_else / coalesce / or_else over
two containers).  Shapes the front end documents as refused are avoided by construction, so every member is numeric and
ANY exception is a violation ("a well-typed numeric mix must unify"); each such expression without free variables is also
judged on its own, whether or not it ends up in an output.

Oracle: the IR the front end would send (finalize_randomness + PlainRenderer text) is read back (vlib.irtools) and typed
bottom-up by an independent inferencer that applies the ENGINE rules (InferType.scala / TypeCheck.scala / BinaryOp.scala /
AggOp.scala / TableIR.scala / MatrixIR.scala / function registry signatures) to exactly the node kinds the generator
produces.  Compared: expr.dtype; the Python ir.typ of EVERY node (parallel pre-order walk); every Ref's annotated type
against its binder; table.row/globals/key dtypes and MatrixTable row/col/entry/globals dtypes and keys; literals typecheck
their value.  No execution.
"""
from __future__ import annotations

import traceback

from checks import c35
from vlib import hailenv, hailgen, hostenv, irtools
from vlib.irtools import Env
from vlib.runner import Result

PROPERTY = 'C36'
LEVEL = 'exploration'
RULE = ('programs from a typed grammar over the public API in four dialects (literal / expression / Table / MatrixTable), each '
        'an op list interpreted by one function; ops whose operands do not exist or that the front end rejects are skipped '
        'and counted. Oracle: independent bottom-up type inference over the rendered IR text with the engine typing rules, '
        'compared with expr.dtype, with the Python ir.typ of every node, with every Ref annotation, and with the '
        'Table/MatrixTable row/col/entry/globals/key dtypes after every step; literal values must typecheck against the '
        'literal\'s dtype. Mixed numeric members: ops mix / uni build Python lists, sets, dicts (keys and values), tuples and '
        'Structs, nested, whose members mix hail expressions of int32/int64/float32/float64/bool (constants, pool fields, '
        'conversions), Python scalars, numpy scalars and None in every order, pass them to hl.array/set/dict/tuple/struct/'
        'to_expr/literal/struct fields/sum/len/sorted/collection methods, and pass 2-3 such scalars to the binary operators '
        '(both operand orders), comparisons, if_else, coalesce, or_else, case, max, min; refusals the front end documents are '
        'avoided by construction, so any exception there is a violation, and the IR of every such expression must be well '
        'typed node by node (every MakeArray argument has the declared element type, ...) with dtype equal to the root type. '
        'Non-trivial: the program has a numeric promotion (an inserted to<Type> conversion or a / on '
        'integers), a keyed table/matrix operation (key_by, group_by, join, key_rows_by, key_cols_by), a nested struct '
        'update (InsertFields inside InsertFields, or an override of an existing field), or a container / unifier whose '
        'members are expressions of at least two numeric types, or a fold / scan whose accumulator the front end had to widen; '
        'distinct by canonical program. '
        'Widening folds (op wfold, in every dialect\'s op lists and alone as the outputs of the fold shards: closed, over row '
        'fields, over entry fields): hl.fold / collection.fold / hl.array_scan / array.scan over an array or set (fresh hail '
        'constants, a Python list, a pool expression) with a zero (hail constant, Python int, pool expression) that is by '
        'construction NARROWER than the body result - int32 with int64/float32/float64 elements or constants, int64 with '
        'floats, float32 with float64 - bare or as the first member of a struct / tuple accumulator; bodies acc+x, x+acc, acc*x, '
        'x alone, acc+wider constant, if_else(x > acc, acc + x, acc), max, coalesce, or a generated sub-program over (acc, x). '
        'The front end re-binds the accumulator at the widened type and runs the lambda again (class wfold_lambda_run_twice); '
        'oracle as for every program: the binder type of the accumulator is the inferred type of the emitted zero, every Ref to '
        'it must be annotated with that type (signature ref-annotation:accumulator), the body must have it too (ill-typed-ir:'
        'StreamFold/StreamScan) and expr.dtype must equal it. A refusal by the front end is counted (wfold_refused_by_frontend_*), '
        'not judged. StreamFold2 is not emitted by the Python front end.')
ASSUMPTIONS = [
    'engine typing rules are transcribed by hand from the Scala sources for exactly the generated node set; node kinds '
    'and Apply functions without a rule are counted as outside_grammar',
    'the IR text is the one Backend._render_ir would produce except that PlainRenderer is used instead of CSERenderer '
    '(C35 relates the two)',
    'Apply nodes are typed by unifying the argument types with the registered signature (type variables, numeric bound)',
    'mixed numeric members: three shapes are excluded by construction and counted (notes: numpy_scalars_replaced_by_guard, '
    'numpy_bools_in_expression_free_containers_replaced, array_contains_items_given_the_element_type): numpy scalars in a '
    'sub-container without embedded expression (known finding impute-not-accepting:numpy-scalar-widened; numpy.bool_ there is '
    'refused by tbool even unwidened), and ArrayExpression.contains(item) with an item of another numeric type (the front end '
    'neither checks nor coerces it; the emitted Apply contains has no engine signature)',
    'the token of an I32/I64/F32/F64 node is not inspected: a Python bool promoted into a numeric container is rendered as '
    '(F32 True) / (I64 True) and is typed like any other literal of that kind',
]
TRUSTED = ['vlib/irtools.py reader + binding table', 'typing rules in checks/c36.py (from InferType/TypeCheck/BinaryOp/AggOp/'
           'TableIR/MatrixIR.scala and functions/*.scala)', 'vlib/hailgen.py generators', 'vlib/hailenv.py FakeBackend']

_ready = None


def _env():
    global _ready
    if _ready is None:
        c35._env()
        hl = hailenv.init()
        from hail import ir
        from hail.ir.renderer import PlainRenderer
        from hail.ir.utils import finalize_randomness
        _ready = (hl, ir, PlainRenderer, finalize_randomness)
    return _ready


# =================================================================================================================
# type descriptors
# =================================================================================================================

def tdesc(t):
    """hl.HailType -> hashable descriptor (same shape as irtools.parse_type)"""
    hl = _env()[0]
    from hail.expr import types as T
    if t == hl.tint32:
        return 'int32'
    if t == hl.tint64:
        return 'int64'
    if t == hl.tfloat32:
        return 'float32'
    if t == hl.tfloat64:
        return 'float64'
    if t == hl.tbool:
        return 'bool'
    if t == hl.tstr:
        return 'str'
    if t == hl.tcall:
        return 'call'
    if t == T.tvoid:
        return 'void'
    if t == T.trngstate:
        return 'rngstate'
    if isinstance(t, hl.tarray):
        return ('array', tdesc(t.element_type))
    if isinstance(t, T.tstream):
        return ('stream', tdesc(t.element_type))
    if isinstance(t, hl.tset):
        return ('set', tdesc(t.element_type))
    if isinstance(t, hl.tdict):
        return ('dict', tdesc(t.key_type), tdesc(t.value_type))
    if isinstance(t, hl.tinterval):
        return ('interval', tdesc(t.point_type))
    if isinstance(t, hl.tlocus):
        return ('locus', t.reference_genome.name)
    if isinstance(t, hl.tndarray):
        return ('ndarray', tdesc(t.element_type), t.ndim)
    if isinstance(t, hl.ttuple):
        return ('tuple', tuple(tdesc(x) for x in t.types))
    if isinstance(t, hl.tstruct):
        return ('struct', tuple((n, tdesc(x)) for n, x in t.items()))
    from hail.expr.table_type import ttable
    from hail.expr.matrix_type import tmatrix
    if isinstance(t, ttable):
        return ('table', tdesc(t.global_type), tdesc(t.row_type), tuple(t.row_key))
    if isinstance(t, tmatrix):
        return ('matrix', tdesc(t.global_type), tdesc(t.col_type), tuple(t.col_key), tdesc(t.row_type), tuple(t.row_key),
                tdesc(t.entry_type))
    raise ValueError(f'no descriptor for {t!r}')


def show(t):
    if isinstance(t, tuple) and t and t[0] == 'table':
        return f'Table{{global: {show(t[1])}, row: {show(t[2])}, key: {list(t[3])}}}'
    if isinstance(t, tuple) and t and t[0] == 'matrix':
        return (f'Matrix{{global: {show(t[1])}, col: {show(t[2])}, col_key: {list(t[3])}, row: {show(t[4])}, '
                f'row_key: {list(t[5])}, entry: {show(t[6])}}}')
    return irtools.show_type(t)


NUMERIC = ('int32', 'int64', 'float32', 'float64')
EMPTY = ('struct', ())


# =================================================================================================================
# the inferencer (engine rules)
# =================================================================================================================

class IllTyped(Exception):
    def __init__(self, kind, msg):
        super().__init__(f'{kind}: {msg}')
        self.kind = kind


class NoRule(Exception):
    def __init__(self, what):
        super().__init__(what)
        self.what = what


def V(n):
    return ('var', n)


def N(n):
    return ('num', n)


_DICT = ('dict', V('K'), V('V'))
# function registry signatures (functions/{Util,Math,Array,Set,Dict,String}Functions.scala) for the generated functions
FUNCS = {
    'toInt32': [((N('T'),), 'int32'), (('bool',), 'int32'), (('str',), 'int32')],
    'toInt64': [((N('T'),), 'int64'), (('bool',), 'int64'), (('str',), 'int64')],
    'toFloat32': [((N('T'),), 'float32'), (('bool',), 'float32'), (('str',), 'float32')],
    'toFloat64': [((N('T'),), 'float64'), (('bool',), 'float64'), (('str',), 'float64')],
    'pow': [((t, t), 'float64') for t in NUMERIC],
    'mod': [((t, t), t) for t in NUMERIC],
    'land': [(('bool', 'bool'), 'bool')],
    'lor': [(('bool', 'bool'), 'bool')],
    'concat': [(('str', 'str'), 'str')],
    'str': [((V('T'),), 'str')],
    'length': [(('str',), 'int32')],
    'append': [((('array', V('T')), V('T')), ('array', V('T')))],
    'extend': [((('array', V('T')), ('array', V('T'))), ('array', V('T')))],
    'indexArray': [((('array', V('T')), 'int32'), V('T'))],
    'contains': [((('array', V('T')), V('T')), 'bool'), ((('set', V('T')), V('T')), 'bool'), ((_DICT, V('K')), 'bool')],
    'get': [((_DICT, V('K')), V('V')), ((_DICT, V('K'), V('V')), V('V'))],
    'index': [((_DICT, V('K')), V('V')), (('str', 'int32'), 'str')],
    'keys': [((_DICT,), ('array', V('K')))],
    'values': [((_DICT,), ('array', V('V')))],
    'add': [((('set', V('T')), V('T')), ('set', V('T')))],
    'remove': [((('set', V('T')), V('T')), ('set', V('T')))],
    'union': [((('set', V('T')), ('set', V('T'))), ('set', V('T')))],
    'sum': [((('array', N('T')),), V('T'))],
    'product': [((('array', N('T')),), V('T'))],
    'min': [((('array', N('T')),), V('T'))] + [((t, t), t) for t in NUMERIC],
    'max': [((('array', N('T')),), V('T'))] + [((t, t), t) for t in NUMERIC],
    'min_ignore_missing': [((t, t), t) for t in NUMERIC],      # UtilFunctions.scala, per numeric type
    'max_ignore_missing': [((t, t), t) for t in NUMERIC],
    'mean': [((('array', N('T')),), 'float64')],
    'dict': [((('array', ('tuple', (V('K'), V('V')))),), _DICT), ((('set', ('tuple', (V('K'), V('V')))),), _DICT)],
    'toSet': [((('array', V('T')),), ('set', V('T')))],
    'isEmpty': [((('array', V('T')),), 'bool'), ((('set', V('T')),), 'bool'), ((_DICT,), 'bool')],
    # DictFunctions.scala registers dictToArray with a declared return type array<struct{key, value}>, but lookupIR ignores the
    # declared return type of IR-implemented functions and the body builds MakeTuple.ordered(key, value): tuples it is
    'dictToArray': [((_DICT,), ('array', ('tuple', (V('K'), V('V')))))],
}


def _unify(pat, t, b):
    if isinstance(pat, tuple) and pat and pat[0] in ('var', 'num'):
        if pat[0] == 'num' and t not in NUMERIC:
            return False
        if pat[1] in b:
            return b[pat[1]] == t
        b[pat[1]] = t
        return True
    if isinstance(pat, str) or isinstance(t, str):
        return pat == t
    if pat[0] != t[0] or len(pat) != len(t):
        return False
    if pat[0] == 'locus':
        return pat == t
    if pat[0] == 'tuple':
        return len(pat[1]) == len(t[1]) and all(_unify(p, x, b) for p, x in zip(pat[1], t[1]))
    if pat[0] == 'struct':
        return len(pat[1]) == len(t[1]) and all(pn == tn and _unify(p, x, b) for (pn, p), (tn, x) in zip(pat[1], t[1]))
    return all(_unify(p, x, b) if isinstance(p, (tuple, str)) and not isinstance(p, int) else p == x
               for p, x in zip(pat[1:], t[1:]))


def _subst(pat, b):
    if isinstance(pat, tuple) and pat and pat[0] in ('var', 'num'):
        return b[pat[1]]
    if isinstance(pat, str):
        return pat
    if pat[0] == 'tuple':
        return ('tuple', tuple(_subst(p, b) for p in pat[1]))
    if pat[0] == 'struct':
        return ('struct', tuple((n, _subst(p, b)) for n, p in pat[1]))
    return (pat[0],) + tuple(_subst(p, b) if isinstance(p, (tuple, str)) else p for p in pat[1:])


BIN_OPS = {'+': 'arith', '-': 'arith', '*': 'arith', '//': 'arith', '/': 'fdiv', '&': 'bit', '|': 'bit', '^': 'bit',
           '<<': 'shift', '>>': 'shift', '>>>': 'shift'}


def _fields(t, kind):
    if not (isinstance(t, tuple) and t[0] == 'struct'):
        raise IllTyped(kind, f'struct expected, found {show(t)}')
    return list(t[1])


def _insert_fields(st, new, kind):
    fs = _fields(st, kind)
    names = [n for n, _ in fs]
    for n, t in new:
        if n in names:
            fs[names.index(n)] = (n, t)
        else:
            names.append(n)
            fs.append((n, t))
    return ('struct', tuple(fs))


def _concat(a, b, kind):
    fa, fb = _fields(a, kind), _fields(b, kind)
    if {n for n, _ in fa} & {n for n, _ in fb}:
        raise IllTyped(kind, f'overlapping fields in struct concatenation: {show(a)} ++ {show(b)}')
    return ('struct', tuple(fa + fb))


def _select(st, names, kind):
    d = dict(_fields(st, kind))
    for n in names:
        if n not in d:
            raise IllTyped(kind, f'field {n!r} not in {show(st)}')
    return ('struct', tuple((n, d[n]) for n in names))


def _key_value(row, key, kind):
    return _select(row, key, kind), ('struct', tuple((n, t) for n, t in _fields(row, kind) if n not in key))


def _elt(t, kind, of=('stream',)):
    if not (isinstance(t, tuple) and t[0] in of):
        raise IllTyped(kind, f'{"/".join(of)} expected, found {show(t)}')
    return t[1]


class Inferencer:
    def __init__(self):
        self.nodes = []      # pre-order: (kind, type, depth, detail)
        self.refs = []       # pre-order: (name, type)
        self.accumulators = set()    # names bound as StreamFold / StreamScan accumulators (their type is the zero's)

    def infer(self, n, env, depth=0):
        slot = len(self.nodes)
        self.nodes.append(None)
        t = self._rule(n, env, depth)
        detail = ''
        if n.kind in ('ApplyBinaryPrimOp', 'ApplyUnaryPrimOp', 'ApplyComparisonOp'):
            detail = str(n.head[0])
        elif n.kind in ('Apply', 'ApplySeeded'):
            detail = str(n.head[1])
        elif n.kind in ('ApplyAggOp', 'ApplyScanOp'):
            detail = str(n.head[0])
        self.nodes[slot] = (n.kind, t, depth, detail)
        return t

    def _children(self, n, env, depth):
        """infer all children left to right; binders see the types of the earlier children"""
        ctypes = []

        def val(node, i, name):
            return self._binding(node, name, ctypes)
        for i, c in enumerate(n.children):
            try:
                ce = irtools.child_env(n, i, env, val)
            except irtools.ScopeError as ex:
                raise IllTyped(n.kind, str(ex))
            ctypes.append(self.infer(c, ce, depth + 1))
        return ctypes

    def _binding(self, node, name, ct):
        k = node.kind
        h = node.head
        if k in ('Let', 'AggLet'):
            return ct[0]
        if k in ('StreamMap', 'StreamFilter', 'StreamFlatMap', 'ArraySort', 'StreamAgg', 'StreamAggScan', 'AggExplode'):
            return _elt(ct[0], k)
        if k in ('StreamFold', 'StreamScan'):
            if name == str(h[0]):
                self.accumulators.add(name)
                return ct[1]
            return _elt(ct[0], k)
        if k == 'StreamZip':
            return _elt(ct[[str(x) for x in h[2]].index(name)], k)
        if k in irtools.TABLE_KINDS or k == 'TableAggregate':
            tt = ct[0]
            return {'global': tt[1], 'row': tt[2]}[name]
        if k in irtools.MATRIX_KINDS or k == 'MatrixAggregate':
            mt = ct[0]
            return {'global': mt[1], 'sa': mt[2], 'va': mt[4], 'g': mt[6], 'n_cols': 'int32', 'n_rows': 'int64'}[name]
        raise NoRule(f'binder:{k}')

    def _rule(self, n, env, depth):
        k, h = n.kind, n.head
        if k == 'Ref':
            name = str(h[0])
            if name not in env.e:
                raise IllTyped('Ref', f'{name} is not bound')
            self.refs.append((name, env.e[name]))
            return env.e[name]
        ct = self._children(n, env, depth)
        if k == 'I32':
            return 'int32'
        if k == 'I64':
            return 'int64'
        if k == 'F32':
            return 'float32'
        if k == 'F64':
            return 'float64'
        if k == 'Str':
            return 'str'
        if k in ('True', 'False'):
            return 'bool'
        if k == 'Void':
            return 'void'
        if k == 'RNGStateLiteral':
            return 'rngstate'
        if k in ('NA', 'Literal', 'EncodedLiteral'):
            return irtools.parse_type(h[0])
        if k == 'Cast':
            t = irtools.parse_type(h[0])
            if ct[0] not in NUMERIC or t not in NUMERIC:
                raise IllTyped(k, f'invalid cast {show(ct[0])} -> {show(t)}')
            return t
        if k == 'IsNA':
            return 'bool'
        if k == 'If':
            if ct[0] != 'bool':
                raise IllTyped(k, f'condition is {show(ct[0])}')
            if ct[1] != ct[2]:
                raise IllTyped(k, f'branches differ: {show(ct[1])} vs {show(ct[2])}')
            return ct[1]
        if k == 'Coalesce':
            if not ct or any(t != ct[0] for t in ct):
                raise IllTyped(k, f'arguments differ: {[show(t) for t in ct]}')
            return ct[0]
        if k in ('Let', 'AggLet'):
            return ct[1]
        if k == 'ApplyBinaryPrimOp':
            op = str(h[0])
            l, r = ct
            cls = BIN_OPS.get(op)
            if cls is None:
                raise NoRule(f'ApplyBinaryPrimOp:{op}')
            if cls == 'shift':
                if l in ('int32', 'int64') and r == 'int32':
                    return l
                raise IllTyped(k, f'cannot apply {op} to {show(l)} and {show(r)}')
            if l != r or l not in NUMERIC or (cls == 'bit' and l not in ('int32', 'int64')):
                raise IllTyped(k, f'cannot apply {op} to {show(l)} and {show(r)}')
            if cls == 'fdiv':
                return 'float32' if l == 'float32' else 'float64'
            return l
        if k == 'ApplyUnaryPrimOp':
            op = str(h[0])
            t = ct[0]
            if op == '!' and t == 'bool':
                return 'bool'
            if op == '-' and t in NUMERIC:
                return t
            if op == '~' and t in ('int32', 'int64'):
                return t
            if op == 'BitCount' and t in ('int32', 'int64'):
                return 'int32'
            raise IllTyped(k, f'cannot apply {op} to {show(t)}')
        if k == 'ApplyComparisonOp':
            if ct[0] != ct[1]:
                raise IllTyped(k, f'operand types differ: {show(ct[0])} vs {show(ct[1])}')
            return 'int32' if str(h[0]) == 'Compare' else 'bool'
        if k == 'MakeArray':
            if str(h[0]) == 'None':
                # Parser.scala annotateTypes -> MakeArray.unify(ctx, args, null): the arguments must agree, the type is theirs
                if not ct or any(x != ct[0] for x in ct):
                    raise IllTyped(k, f'untyped MakeArray with argument types {[show(x) for x in ct]}')
                return ('array', ct[0])
            t = irtools.parse_type(h[0])
            e = _elt(t, k, ('array',))
            if any(x != e for x in ct):
                raise IllTyped(k, f'element types {[show(x) for x in ct]} do not match {show(t)}')
            return t
        if k == 'ArrayRef':
            if ct[1] != 'int32':
                raise IllTyped(k, f'index is {show(ct[1])}')
            return _elt(ct[0], k, ('array',))
        if k == 'ArraySlice':
            if any(x != 'int32' for x in ct[1:]):
                raise IllTyped(k, 'start/stop/step must be int32')
            _elt(ct[0], k, ('array',))
            return ct[0]
        if k == 'ArrayLen':
            _elt(ct[0], k, ('array',))
            return 'int32'
        if k == 'StreamRange':
            if any(x != 'int32' for x in ct):
                raise IllTyped(k, 'start/stop/step must be int32')
            return ('stream', 'int32')
        if k == 'ToArray':
            return ('array', _elt(ct[0], k))
        if k == 'ToSet':
            return ('set', _elt(ct[0], k))
        if k == 'ToDict':
            e = _elt(ct[0], k)
            ts = [t for _, t in e[1]] if e[0] == 'struct' else list(e[1]) if e[0] == 'tuple' else None
            if ts is None or len(ts) != 2:
                raise IllTyped(k, f'element is {show(e)}')
            return ('dict', ts[0], ts[1])
        if k == 'CastToArray':
            return ('array', _elt(ct[0], k, ('array', 'set')) if ct[0][0] != 'dict' else
                    ('struct', (('key', ct[0][1]), ('value', ct[0][2]))))
        if k == 'ToStream':
            t = ct[0]
            if isinstance(t, tuple) and t[0] == 'dict':
                return ('stream', ('struct', (('key', t[1]), ('value', t[2]))))
            return ('stream', _elt(t, k, ('array', 'set', 'stream')))
        if k == 'StreamMap':
            return ('stream', ct[1])
        if k == 'StreamZip':
            if len(h[2]) != len(ct) - 1:
                raise IllTyped(k, 'names and streams differ in number')
            return ('stream', ct[-1])
        if k == 'StreamFilter':
            if ct[1] != 'bool':
                raise IllTyped(k, f'predicate is {show(ct[1])}')
            return ct[0]
        if k == 'StreamFlatMap':
            return ('stream', _elt(ct[1], k))
        if k == 'StreamFold':
            if ct[2] != ct[1]:
                raise IllTyped(k, f'body {show(ct[2])} differs from zero {show(ct[1])}')
            return ct[1]
        if k == 'StreamScan':
            if ct[2] != ct[1]:
                raise IllTyped(k, f'body {show(ct[2])} differs from zero {show(ct[1])}')
            return ('stream', ct[1])
        if k == 'ArraySort':
            if ct[1] != 'bool':
                raise IllTyped(k, f'comparison is {show(ct[1])}')
            return ('array', _elt(ct[0], k))
        if k == 'LowerBoundOnOrderedCollection':
            return 'int32'
        if k == 'GroupByKey':
            e = _elt(ct[0], k)
            ts = [t for _, t in e[1]] if e[0] == 'struct' else list(e[1])
            return ('dict', ts[0], ('array', ts[1]))
        if k == 'MakeStruct':
            return ('struct', tuple(zip(n.labels, ct)))
        if k == 'SelectFields':
            return _select(ct[0], [str(x) for x in h[0]], k)
        if k == 'InsertFields':
            s = _insert_fields(ct[0], list(zip(n.labels[1:], ct[1:])), k)
            if isinstance(h[0], list):
                order = [str(x) for x in h[0]]
                if len(order) != len(s[1]):
                    raise IllTyped(k, f'field order {order} does not cover {show(s)}')
                s = _select(s, order, k)
            return s
        if k == 'GetField':
            d = dict(_fields(ct[0], k))
            name = str(h[0])
            if name not in d:
                raise IllTyped(k, f'{name!r} not in {show(ct[0])}')
            return d[name]
        if k == 'MakeTuple':
            return ('tuple', tuple(ct))
        if k == 'GetTupleElement':
            t = ct[0]
            i = int(h[0])
            if not (isinstance(t, tuple) and t[0] == 'tuple' and 0 <= i < len(t[1])):
                raise IllTyped(k, f'index {i} into {show(t)}')
            return t[1][i]
        if k in ('Apply', 'ApplySeeded'):
            fn = str(h[1])
            ret = irtools.parse_type(h[3])
            if h[2]:
                raise NoRule(f'Apply:{fn}:type-args')
            sigs = FUNCS.get(fn)
            if sigs is None:
                raise NoRule(f'Apply:{fn}')
            for params, rpat in sigs:
                b = {}
                if len(params) == len(ct) and all(_unify(p, t, b) for p, t in zip(params, ct)):
                    want = _subst(rpat, b)
                    if want != ret:
                        raise IllTyped(k, f'{fn}({", ".join(show(t) for t in ct)}) returns {show(want)}, the IR declares '
                                          f'{show(ret)}')
                    return ret
            raise IllTyped(k, f'no signature of {fn} accepts ({", ".join(show(t) for t in ct)})')
        if k in ('ApplyAggOp', 'ApplyScanOp'):
            op = str(h[0])
            seq = ct[n.extra:]
            if op in ('Sum', 'Product', 'Min', 'Max') and len(seq) == 1:
                return seq[0]
            if op == 'Count':
                return 'int64'
            if op in ('Collect', 'Take') and len(seq) == 1:
                return ('array', seq[0])
            if op == 'CollectAsSet' and len(seq) == 1:
                return ('set', seq[0])
            raise NoRule(f'{k}:{op}')
        if k in ('AggFilter', 'AggExplode'):
            return ct[1]
        if k == 'AggGroupBy':
            return ('dict', ct[0], ct[1])
        if k in ('StreamAgg',):
            return ct[1]
        if k == 'StreamAggScan':
            return ('stream', ct[1])
        if k in ('TableAggregate', 'MatrixAggregate'):
            return ct[1]
        if k == 'TableCount':
            return 'int64'
        if k == 'TableGetGlobals':
            return ct[0][1]
        if k == 'TableCollect':
            return ('struct', (('rows', ('array', ct[0][2])), ('global', ct[0][1])))
        # ---- relational
        if k == 'TableRange':
            return ('table', EMPTY, ('struct', (('idx', 'int32'),)), ('idx',))
        if k == 'TableMapRows':
            g, row, key = ct[0][1:]
            new = ct[1]
            have = dict(_fields(new, k))
            old = dict(_fields(row, k))
            for kf in key:
                if have.get(kf) != old[kf]:
                    raise IllTyped(k, f'key field {kf!r} is not preserved: {show(new)}')
            return ('table', g, new, key)
        if k == 'TableMapGlobals':
            _fields(ct[1], k)
            return ('table', ct[1], ct[0][2], ct[0][3])
        if k == 'TableFilter':
            if ct[1] != 'bool':
                raise IllTyped(k, f'predicate is {show(ct[1])}')
            return ct[0]
        if k == 'TableKeyBy':
            keys = tuple(str(x) for x in h[0])
            _select(ct[0][2], keys, k)
            return ('table', ct[0][1], ct[0][2], keys)
        if k == 'TableDistinct':
            return ct[0]
        if k == 'TableRename':
            rm = dict(zip([str(x) for x in h[0]], [str(x) for x in h[1]]))
            gm = dict(zip([str(x) for x in h[2]], [str(x) for x in h[3]]))
            g, row, key = ct[0][1:]
            ren = lambda st, m: ('struct', tuple((m.get(nm, nm), t) for nm, t in _fields(st, k)))      # noqa: E731
            row2, g2 = ren(row, rm), ren(g, gm)
            if len({nm for nm, _ in row2[1]}) != len(row2[1]) or len({nm for nm, _ in g2[1]}) != len(g2[1]):
                raise IllTyped(k, f'renaming produces duplicate fields: {show(row2)} / {show(g2)}')
            return ('table', g2, row2, tuple(rm.get(x, x) for x in key))
        if k == 'TableKeyByAndAggregate':
            kt = ct[2]
            return ('table', ct[0][1], _concat(kt, ct[1], k), tuple(nm for nm, _ in _fields(kt, k)))
        if k == 'TableAggregateByKey':
            kt, _ = _key_value(ct[0][2], ct[0][3], k)
            return ('table', ct[0][1], _concat(kt, ct[1], k), ct[0][3])
        if k == 'TableJoin':
            lt, rt = ct
            jk = int(h[1])
            lk, rk = lt[3][:jk], rt[3][:jk]
            lkt, lvt = _key_value(lt[2], lk, k)
            rkt, rvt = _key_value(rt[2], rk, k)
            if [t for _, t in lkt[1]] != [t for _, t in rkt[1]]:
                raise IllTyped(k, f'join key types differ: {show(lkt)} vs {show(rkt)}')
            return ('table', _concat(lt[1], rt[1], k), _concat(_concat(lkt, lvt, k), rvt, k), lt[3] + rt[3][jk:])
        if k == 'TableLeftJoinRightDistinct':
            lt, rt = ct
            _, rvt = _key_value(rt[2], rt[3], k)
            return ('table', lt[1], _insert_fields(lt[2], [(str(h[0]), rvt)], k), lt[3])
        if k == 'MatrixRowsTable':
            return ('table', ct[0][1], ct[0][4], ct[0][5])
        if k == 'MatrixColsTable':
            return ('table', ct[0][1], ct[0][2], ct[0][3])
        if k == 'MatrixEntriesTable':
            m = ct[0]
            return ('table', m[1], _concat(_concat(m[4], m[2], k), m[6], k), m[5] + m[3])
        if k == 'MatrixRead':
            import json
            if str(h[0]) != 'DropRowColUIDs' or [str(h[1]), str(h[2])] != ['False', 'False']:
                raise NoRule('MatrixRead:options')
            rd = json.loads(str(h[3]))
            if rd.get('name') != 'MatrixRangeReader':
                raise NoRule(f'MatrixRead:{rd.get("name")}')
            return ('matrix', EMPTY, ('struct', (('col_idx', 'int32'),)), ('col_idx',), ('struct', (('row_idx', 'int32'),)),
                    ('row_idx',), EMPTY)
        if k == 'MatrixMapRows':
            m = ct[0]
            _fields(ct[1], k)
            for kf in m[5]:
                if dict(ct[1][1]).get(kf) != dict(m[4][1])[kf]:
                    raise IllTyped(k, f'row key field {kf!r} is not preserved: {show(ct[1])}')
            return m[:4] + (ct[1],) + m[5:]
        if k == 'MatrixMapCols':
            m = ct[0]
            _fields(ct[1], k)
            key = m[3] if str(h[0]) == 'None' else tuple(str(x) for x in h[0])
            _select(ct[1], key, k)
            return (m[0], m[1], ct[1], key) + m[4:]
        if k == 'MatrixMapEntries':
            _fields(ct[1], k)
            return ct[0][:6] + (ct[1],)
        if k == 'MatrixMapGlobals':
            _fields(ct[1], k)
            return (ct[0][0], ct[1]) + ct[0][2:]
        if k in ('MatrixFilterRows', 'MatrixFilterCols', 'MatrixFilterEntries'):
            if ct[1] != 'bool':
                raise IllTyped(k, f'predicate is {show(ct[1])}')
            return ct[0]
        if k == 'MatrixKeyRowsBy':
            m = ct[0]
            keys = tuple(str(x) for x in h[0])
            _select(m[4], keys, k)
            return m[:5] + (keys,) + m[6:]
        raise NoRule(k)


# =================================================================================================================
# the oracle
# =================================================================================================================

def _frame(exc):
    root = hostenv.REPO
    best = None
    for fs, _ in traceback.walk_tb(exc.__traceback__):
        if fs.f_code.co_filename.startswith(root):
            slf = fs.f_locals.get('self')
            best = (type(slf).__name__ + '.' if slf is not None else '') + fs.f_code.co_name
    return best or '?'


def _py_nodes(x, renderer, out_nodes, out_refs):
    """python BaseIR nodes and Ref nodes in the order PlainRenderer prints them"""
    ir = _env()[1]
    from hail.ir.base_ir import BaseIR
    if isinstance(x, ir.Join):
        x = x.virtual_ir
    if isinstance(x, BaseIR):
        out_nodes.append(x)
        if isinstance(x, ir.Ref):
            out_refs.append(x)
    for c in x.render_children(renderer):
        _py_nodes(c, renderer, out_nodes, out_refs)


class Outside(Exception):
    pass


class Verdict:
    def __init__(self):
        self.fails = []
        self.classes = set()

    def fail(self, sig, clause, msg):
        if not any(f[0] == sig for f in self.fails):
            self.fails.append((sig, clause, msg))


CL_EXPR = 'expr.dtype equals the type implied by the emitted IR'
CL_NODE = 'the Python ir.typ of every node equals the type implied by the emitted IR'
CL_REF = 'every Ref\'s annotated type equals its binder\'s type'
CL_WELL = 'the emitted IR is well typed under the engine rules'
CL_TABLE = 'Table row/globals/key dtypes equal the type implied by the emitted IR'
CL_MATRIX = 'MatrixTable row/col/entry/globals dtypes and keys equal the type implied by the emitted IR'
CL_LIT = 'a literal built from a Python value carries a type the value satisfies'
CL_CRASH = 'the front end either accepts a program or rejects it with a user error (no internal type assertion fails)'


def analyse(pyir, env, v: Verdict, what):
    """render pyir, infer its type under env (Env of descriptors); per-node and per-Ref comparisons; -> inferred type"""
    hl, ir, PlainRenderer, finalize = _env()
    r = PlainRenderer()
    text = r(pyir)
    try:
        node = irtools.parse_text(text)
    except irtools.OutsideGrammar as ex:
        v.classes.add('outside_grammar:' + ex.kind)
        raise Outside(ex.kind)
    inf = Inferencer()
    try:
        t = inf.infer(node, env)
    except NoRule as ex:
        v.classes.add('outside_grammar:' + ex.what)
        raise Outside(ex.what)
    except IllTyped as ex:
        v.fail(f'ill-typed-ir:{ex.kind}', CL_WELL, f'{what}: {ex} | IR: {text[:700]}')
        raise Outside('ill-typed')
    for knd, _, _, detail in inf.nodes:
        if knd == 'Apply' and detail.startswith('to') and detail[2:] in ('Int32', 'Int64', 'Float32', 'Float64'):
            v.classes.add('promotion')
        if knd == 'ApplyBinaryPrimOp' and detail == '/':
            v.classes.add('division')
    _nested_update(node, v)
    # parallel walk
    pn, pr = [], []
    _py_nodes(pyir, r, pn, pr)
    try:
        pyir.typ        # forces computation of the nested Python types
    except Exception as ex:
        v.fail(f'python-typ-raises:{type(ex).__name__}:{_frame(ex)}', CL_NODE, f'{what}: computing ir.typ raised {ex!r}')
        return t
    if len(pn) != len(inf.nodes) or any(a._ir_name() != b[0] for a, b in zip(pn, inf.nodes)):
        raise AssertionError(f'parallel walk out of step for {text[:300]}')
    worst = None
    STATS['nodes_compared'] += len(pn)
    STATS['refs_compared'] += len(pr)
    for a, (knd, it, depth, detail) in zip(pn, inf.nodes):
        pt = getattr(a, '_type', None)
        if pt is None:
            pt = getattr(a, '_typ', None)
        if pt is None:
            continue
        try:
            pd = tdesc(pt)
        except ValueError:
            continue
        if pd != it and (worst is None or depth > worst[0]):
            worst = (depth, knd, detail, pd, it)
    if worst:
        _, knd, detail, pd, it = worst
        v.fail(f'ir-typ:{knd}{":" + detail if detail else ""}', CL_NODE,
               f'{what}: Python reports {show(pd)} for a {knd} {detail} node, the engine rules give {show(it)} | IR: {text[:600]}')
    if len(pr) != len(inf.refs):
        raise AssertionError('Ref walk out of step')
    for a, (name, it) in zip(pr, inf.refs):
        pt = a._typ if a._typ is not None else a._type
        if pt is not None and tdesc(pt) != it:
            role = name if name in ("row", "global", "va", "sa", "g") else "accumulator" if name in inf.accumulators else "local"
            v.fail(f'ref-annotation:{role}', CL_REF,
                   f'{what}: (Ref {name}) is annotated {show(tdesc(pt))} but its binder '
                   f'{"(the zero of the enclosing StreamFold/StreamScan) " if role == "accumulator" else ""}has {show(it)} | '
                   f'IR: {text[:600]}')
            break
    return t


def _nested_update(node, v, inside=False):
    if node.kind == 'InsertFields':
        if inside:
            v.classes.add('nested_struct_update')
        for i, c in enumerate(node.children):
            _nested_update(c, v, inside or i > 0)
        return
    for c in node.children:
        _nested_update(c, v, inside)


def check_expr(e, env, v, what):
    hl, ir, PlainRenderer, finalize = _env()
    try:
        t = analyse(e._ir, env, v, what)
    except Outside:
        return None
    if tdesc(e.dtype) != t and not any(f[0].startswith('ir-typ:') for f in v.fails):
        v.fail(f'expr-dtype:{e._ir._ir_name()}', CL_EXPR,
               f'{what}: expr.dtype is {e.dtype} but the emitted IR has type {show(t)} | IR: {PlainRenderer()(e._ir)[:600]}')
    return t


def check_table(t, v, what):
    hl, ir, PlainRenderer, finalize = _env()
    try:
        tt = analyse(finalize(t._tir), Env({}, None, None), v, what)
    except Outside:
        return None
    if any(f[0].startswith('ir-typ:') for f in v.fails):
        return tt       # the API-level dtypes derive from the same Python typ: they would only echo the node-level report
    for nm, got, want in (('row', t.row.dtype, tt[2]), ('globals', t.globals.dtype, tt[1]),
                          ('key', t.key.dtype, _select(tt[2], tt[3], 'key'))):
        if tdesc(got) != want:
            v.fail(f'table-{nm}:{t._tir._ir_name()}', CL_TABLE,
                   f'{what}: table.{nm}.dtype is {got} but the emitted {t._tir._ir_name()} has {show(want)}')
    if list(t.key.keys()) != list(tt[3]):
        v.fail(f'table-key-names:{t._tir._ir_name()}', CL_TABLE, f'{what}: key {list(t.key.keys())} vs {list(tt[3])}')
    return tt


def check_matrix(mt, v, what):
    hl, ir, PlainRenderer, finalize = _env()
    try:
        m = analyse(finalize(mt._mir), Env({}, None, None), v, what)
    except Outside:
        return None
    if any(f[0].startswith('ir-typ:') for f in v.fails):
        return m
    for nm, got, want in (('globals', mt.globals.dtype, m[1]), ('col', mt.col.dtype, m[2]), ('row', mt.row.dtype, m[4]),
                          ('entry', mt.entry.dtype, m[6]), ('row_key', mt.row_key.dtype, _select(m[4], m[5], 'key')),
                          ('col_key', mt.col_key.dtype, _select(m[2], m[3], 'key'))):
        if tdesc(got) != want:
            v.fail(f'matrix-{nm}:{mt._mir._ir_name()}', CL_MATRIX,
                   f'{what}: mt.{nm}.dtype is {got} but the emitted {mt._mir._ir_name()} has {show(want)}')
    return m


# =================================================================================================================
# program interpreter
# =================================================================================================================

_Skip = c35._Skip
NAMES = ['a', 'b', 'c c', 'd`', 'e', 'idx', 'x1', 'k']


class ExprBuilder(c35.ApiBuilder):
    """c35.ApiBuilder (literals, + - * //, comparisons, if_else/or_missing/coalesce, array/map/filter/flatmap/fold/sum/len,
    struct/annotate/select/drop/field, tuples, bind) plus the collection / promotion / case ops of C36."""

    def __init__(self):
        super().__init__(guard_known=True)
        hl = self.hl
        self.is_set = lambda t: isinstance(t, hl.tset)
        self.is_dict = lambda t: isinstance(t, hl.tdict)
        self.is_coll = lambda t: isinstance(t, (hl.tarray, hl.tset))
        self.crashes = []
        self.classes = set()
        self.v = None                               # Verdict of the running case (set by run_case)
        self.guard_numpy = _known_numpy_width()     # the known numpy-scalar finding is excluded by construction

    def run(self, ops, pool, depth):
        self.st['max_depth'] = max(self.st['max_depth'], depth)
        for op in ops:
            try:
                e = self.apply(op, pool, depth)
            except _Skip:
                self.st['skipped'] += 1
                continue
            except Exception as ex:
                self.st['skipped'] += 1
                if _rejection(ex):
                    self.st['rejected'] += 1
                else:       # an internal consistency failure of the front end, not a user error
                    self.crashes.append((f'frontend-crash:{type(ex).__name__}:{_frame(ex)}', CL_CRASH,
                                         f'op {op[0]} made the front end raise {type(ex).__name__}: {str(ex)[:400]}'))
                continue
            self.st['ops'] += 1
            pool.append(e)

    def apply(self, op, pool, depth):
        hl = self.hl
        k = op[0]
        fb = {id(self.is_num): lambda: hl.int32(3), id(self.is_bool): lambda: hl.bool(True),
              id(self.is_arr): lambda: hl.array([hl.int32(1), hl.int32(4)]),
              id(self.is_numarr): lambda: hl.array([hl.float64(1.5), hl.float64(4)]),
              id(self.is_coll): lambda: hl.set([hl.int32(1), hl.int32(4)]),
              id(self.is_set): lambda: hl.set([hl.str('a')]),
              id(self.is_dict): lambda: hl.dict({hl.str('a'): hl.int64(4)}),
              id(self.any): lambda: hl.struct(a=hl.int32(1), b=hl.struct(c=hl.float64(2)))}
        P = lambda i, pred: c35._pick(pool, i, pred, fb.get(id(pred)))     # noqa: E731
        if k == 'div':
            a, b = P(op[2], self.is_num), P(op[3], self.is_num)
            o = op[1]
            return a / b if o == '/' else a % b if o == '%' else a ** b
        if k == 'neg':
            return -P(op[1], self.is_num)
        if k == 'conv':
            a = P(op[2], self.is_num)
            return {'i32': hl.int32, 'i64': hl.int64, 'f32': hl.float32, 'f64': hl.float64}[op[1]](a)
        if k == 'append':
            a = P(op[1], self.is_arr)
            return a.append(P(op[2], self.same(a.dtype.element_type)))
        if k == 'extend':
            a = P(op[1], self.is_arr)
            return a.extend(P(op[2], self.same(a.dtype)))
        if k == 'length':
            return P(op[1], self.is_coll).length()
        if k == 'sorted':
            a = P(op[1], self.is_arr)
            if op[2] is None:
                return hl.sorted(a)
            return hl.sorted(a, key=self.body(op[2], pool, depth, self.is_scalar))
        if k == 'toset':
            return hl.set(P(op[1], self.is_arr))
        if k == 'contains':
            a = P(op[1], self.is_coll)
            return a.contains(P(op[2], self.same(a.dtype.element_type)))
        if k == 'setadd':
            a = P(op[1], self.is_set)
            return a.add(P(op[2], self.same(a.dtype.element_type)))
        if k == 'slice':
            return P(op[1], self.is_arr)[op[2] % 3:]
        if k == 'dictget':
            d = P(op[1], self.is_dict)
            key = P(op[2], self.same(d.dtype.key_type))
            if op[3] is None:
                return d.get(key)
            return d.get(key, P(op[3], self.same(d.dtype.value_type)))
        if k == 'dictidx':
            d = P(op[1], self.is_dict)
            return d[P(op[2], self.same(d.dtype.key_type))]
        if k == 'dictkeys':
            return P(op[1], self.is_dict).keys()
        if k == 'dictvalues':
            return P(op[1], self.is_dict).values()
        if k == 'mkdict':
            a = P(op[1], self.is_arr)
            return hl.dict(a.map(lambda x: hl.tuple([x, x])))
        if k == 'case':
            a = P(op[2], self.any)
            c = hl.case().when(P(op[1], self.is_bool), a)
            for ci, vi in op[3]:
                c = c.when(P(ci, self.is_bool), P(vi, self.same(a.dtype)))
            return c.or_missing() if op[4] is None else c.default(P(op[4], self.same(a.dtype)))
        if k == 'ifmix':      # conditional whose branches need a numeric promotion
            return hl.if_else(P(op[1], self.is_bool), P(op[2], self.is_num), P(op[3], self.is_num))
        if k == 'nest':       # nested struct update: s.annotate(f = s.f.annotate(g = v))
            s = P(op[1], lambda t: isinstance(t, hl.tstruct) and any(isinstance(x, hl.tstruct) for x in t.types))
            fs = [f for f, t in s.dtype.items() if isinstance(t, hl.tstruct)]
            f = fs[op[2] % len(fs)]
            inner = list(s.dtype[f].fields) + [NAMES[op[2] % len(NAMES)]]
            return s.annotate(**{f: s[f].annotate(**{inner[op[3] % len(inner)]: P(op[4], self.any)})})
        if k == 'hlmax':
            return hl.max(P(op[1], self.is_numarr))
        if k == 'mean':
            return hl.mean(P(op[1], self.is_numarr))
        if k == 'aggregate':
            raise _Skip('not in C36')
        if k == 'mix':
            return self.mix(op, pool)
        if k == 'uni':
            return self.uni(op, pool)
        if k == 'wfold':
            return self.wfold(op, pool, depth)
        return super().apply(op, pool, depth)

    # ---- folds / scans whose body is numerically WIDER than the zero value
    def wfold(self, op, pool, depth):
        """['wfold', api, zero type, element type, zero source, collection source, body kind, accumulator shape, body program, aux]
        hl.fold / collection.fold / hl.array_scan / array.scan over an array or set, with a zero of a NARROWER numeric type than
        what the body returns (int32 zero with int64 / float32 / float64 elements or constants, int64 with floats, float32 with
        float64), as a bare scalar or as the first member of a struct / tuple accumulator.  The front end handles this by
        re-binding the accumulator at the widened type and running the lambda a second time: the binder (the zero it emits),
        every Ref to the accumulator and the body then have to agree."""
        hl = self.hl
        _, api, zt, et, zsrc, csrc, bkind, shape, spec, aux = op
        aux = int(aux)
        ctor = {'i32': hl.int32, 'i64': hl.int64, 'f32': hl.float32, 'f64': hl.float64}
        typ = {'i32': hl.tint32, 'i64': hl.tint64, 'f32': hl.tfloat32, 'f64': hl.tfloat64}
        # collection
        scan = api in ('hl.array_scan', 'arr.scan')
        coll = None
        if csrc == 'pool':
            c = [e for e in pool if isinstance(e.dtype, (hl.tarray,) if scan else (hl.tarray, hl.tset))
                 and _tcode(hl, e.dtype.element_type) in WIDTH]
            if c:
                coll = c[-1 - (aux % len(c))]
                et = _tcode(hl, coll.dtype.element_type)
        if coll is None:
            vals = [(aux + 3 * j) % 7 - 2 for j in range(aux % 3 + 1)]
            if csrc == 'pylist' and et in ('i32', 'f64'):
                coll = [v if et == 'i32' else v + 0.5 for v in vals]             # a Python list: to_expr imputes its type
            elif csrc == 'fresh_set' and not scan:
                coll = hl.set([ctor[et](v) for v in vals])
            else:
                coll = hl.array([ctor[et](v) for v in vals])
        # zero: strictly narrower than what the body returns, by construction
        if WIDTH[zt] >= WIDTH['f64']:
            zt = 'f32'
        wide = [c for c in WIDTH if WIDTH[c] > max(WIDTH[zt], WIDTH[et])] or ['f64']
        need_const = WIDTH[et] <= WIDTH[zt]
        if need_const and bkind in ('acc+x', 'x+acc', 'acc*x', 'x', 'if', 'max', 'coalesce'):
            bkind = 'acc+wide'
        wt = wide[aux % len(wide)]
        z0 = None
        if zsrc == 'pool':
            c = [e for e in pool if e.dtype == typ[zt]]
            if c:
                z0 = c[-1 - (aux % len(c))]
        if z0 is None:
            z0 = (aux % 3) if (zsrc == 'py' and zt == 'i32') else ctor[zt](aux % 3)
        one = 1 if zsrc == 'py' else hl.int32(1)
        if shape == 'struct':
            zero = hl.struct(s=z0, n=hl.int32(0))
        elif shape == 'tuple':
            zero = hl.tuple([z0, hl.int32(0)])
        else:
            zero = z0
        calls = [0]

        def f(acc, x):
            calls[0] += 1
            a = acc.s if shape == 'struct' else acc[0] if shape == 'tuple' else acc
            w = ctor[wt](1) if aux % 2 else (0.5 if wt == 'f64' else ctor[wt](1))
            if bkind == 'acc+x':
                r = a + x
            elif bkind == 'x+acc':
                r = x + a
            elif bkind == 'acc*x':
                r = a * x
            elif bkind == 'x':
                r = x
            elif bkind == 'if':
                r = hl.if_else(x > a, a + x, a)
            elif bkind == 'max':
                r = hl.max(a, x)
            elif bkind == 'coalesce':
                r = hl.coalesce(a + x, a)
            elif bkind == 'prog':
                pp = list(pool) + [a, x]
                self.run(spec.get('ops', []), pp, depth + 1)
                c = [e for e in pp if _tcode(hl, e.dtype) in WIDTH and WIDTH[_tcode(hl, e.dtype)] > WIDTH[zt]]
                r = c[-1 - (int(spec.get('ret', 0)) % len(c))] if c else a + w
                if not need_const and aux % 2:
                    r = r + a
            else:       # 'acc+wide'
                r = a + w if aux % 4 < 2 else w * a
            if shape == 'struct':
                return hl.struct(s=r, n=acc.n + one)
            if shape == 'tuple':
                return hl.tuple([r, acc[1] + one])
            return r
        what = f'{api}(f[{bkind}], zero {zt} {shape}, {"scan" if scan else "fold"} over {et} from {csrc})'
        STATS['wfold_tried'] += 1
        try:
            if api == 'hl.fold':
                e = hl.fold(f, zero, coll)
            elif api == 'hl.array_scan':
                e = hl.array_scan(f, zero, coll)
            else:
                c = coll if isinstance(coll, hl.expr.Expression) else hl.array(coll)
                e = c.scan(f, zero) if scan else c.fold(f, zero)
        except Exception as ex:
            if _rejection(ex) and not isinstance(ex, hailenv.EngineNeeded):
                self.classes.add(f'wfold_refused_by_frontend_{shape}')
            raise
        STATS['wfold_built'] += 1
        zd = zero.dtype if isinstance(zero, hl.expr.Expression) else hl.tint32
        rd = e.dtype.element_type if scan else e.dtype
        self.classes.add('wfold_built')
        self.classes.add(f'wfold_api_{api}')
        self.classes.add(f'wfold_accumulator_{shape}')
        self.classes.add(f'wfold_body_{bkind}')
        self.classes.add(f'wfold_zero_from_{zsrc}')
        self.classes.add(f'wfold_collection_{"set" if isinstance(getattr(coll, "dtype", None), hl.tset) else "pylist" if isinstance(coll, list) else "array"}')
        if rd != zd:
            self.classes.add('fold_accumulator_widened')
            self.classes.add(f'wfold_widened_{zt}_to_{_tcode(hl, rd) or shape}')
        if calls[0] >= 2:
            self.classes.add('wfold_lambda_run_twice')
        x = e._ir
        if self.v is not None and not (x.free_vars or x.free_agg_vars or x.free_scan_vars):
            STATS['wfold_checked_at_construction'] += 1
            check_expr(e, Env({}, None, None), self.v, what)
        return e

    # ---- mixed numeric members (see Mixer)
    def _numeric_only(self, what, mx, build):
        """run a construction whose members are all numeric/boolean and which avoids every documented refusal by
        construction: whatever it raises is a violation of CL_MIX"""
        try:
            return build()
        except _Skip:
            raise
        except Exception as ex:
            if isinstance(ex, hailenv.EngineNeeded):
                self.classes.add('mix_needs_engine')
                raise _Skip('engine')
            if 'different source' in str(ex):      # fields of two tables in one expression: a documented user error
                raise
            if mx.at_risk_np and isinstance(ex, TypeError) and "'literal'" in str(ex):
                self.crashes.append(('impute-not-accepting:numpy-scalar-widened', CL_LIT,
                                     f'{what} raised {type(ex).__name__}: {str(ex)[:300]}'))
            else:
                self.crashes.append((f'numeric-mix-refused:{type(ex).__name__}:{_frame(ex)}', CL_MIX,
                                     f'{what} raised {type(ex).__name__}: {str(ex)[:400]}'))
            raise _Skip('refused')

    def _built(self, e, mx, what, unifier):
        mx.labels(self.classes, unifier)
        STATS['mix_built'] += 1
        STATS['numpy_scalars_replaced_by_guard'] += mx.replaced_np
        STATS['numpy_bools_replaced'] += mx.replaced_np_bool
        STATS['array_contains_items_retyped'] += mx.retyped_items
        if mx.replaced_np:
            self.classes.add('excluded_known_numpy_scalar')
        if mx.replaced_np_bool:
            self.classes.add('excluded_numpy_bool_in_literal')
        if mx.retyped_items:
            self.classes.add('excluded_array_contains_item_of_other_type')
        x = e._ir
        if self.v is not None and not (x.free_vars or x.free_agg_vars or x.free_scan_vars):
            STATS['mix_checked_at_construction'] += 1
            check_expr(e, Env({}, None, None), self.v, what)
        return e

    def mix(self, op, pool):
        hl = self.hl
        from hail.expr.expressions import to_expr
        shape, leaves, ci, aux = op[1], op[2], int(op[3]), int(op[4])
        kind = shape[0]
        if kind not in MIX_CTORS:
            raise _Skip('not a container shape')
        mx = Mixer(self, pool, leaves)
        ctors = MIX_CTORS[kind]
        ctor = ctors[ci % len(ctors)]
        v = mx.build(shape).value
        # applicability, by construction
        if ctor == 'literal' and mx.has_expr:
            ctor = 'to_expr'
        if ctor in _TWO_VALUES and not _single_unit(shape):
            ctor = ctors[0]
        if ctor == 'tuple_of' and any(x is None for x in v):
            ctor = ctors[0]         # a tuple position is typed on its own: "cannot impute 1th element"
        if ctor in ('sum', 'sorted', 'append', 'contains', 'set_add', 'set_contains') and shape[1] != ['n']:
            ctor = ctors[0]
        if ctor in ('dict_get', 'dict_index') and (shape[1] != ['n'] or (ctor == 'dict_get' and shape[2] != ['n'])):
            ctor = ctors[0]
        v2 = mx.build(shape).value if ctor in _TWO_VALUES else None
        cond = c35._pick(pool, aux, self.is_bool, lambda: hl.bool(True)) if ctor == 'if_else' else None
        fields = {f: v[f] for f in v} if kind == 'R' else None
        nm = NAMES[aux % len(NAMES)]
        what = f'{ctor} over {v!r}'[:500] + (f' and {v2!r}'[:300] if v2 is not None else '')
        base = x = dflt = None
        if ctor in ('append', 'contains', 'index'):
            base = self._numeric_only(what, mx, lambda: hl.array(v))
        elif ctor in ('set_add', 'set_contains'):
            base = self._numeric_only(what, mx, lambda: hl.set(v))
        elif ctor in ('dict_get', 'dict_index', 'dict_values', 'dict_keys'):
            base = self._numeric_only(what, mx, lambda: hl.dict(v))
        if ctor == 'append':
            x = mx.leaf(('L',), exact=_tcode(hl, base.dtype.element_type)).value
            mx.retyped_items = 0        # a documented requirement, not an exclusion
        elif ctor == 'contains':
            # any item that coerces to the element type, as for sets and dict keys (ArrayExpression.contains used to pass the item
            # through unchecked: hl.array([1.5]).contains(2) built an Apply no engine signature matches; repaired in /repo)
            x = mx.leaf(('L',), cap=_tcode(hl, base.dtype.element_type)).value
        elif ctor in ('set_add', 'set_contains'):
            x = mx.leaf(('S',), cap=_tcode(hl, base.dtype.element_type)).value
        elif ctor in ('dict_get', 'dict_index'):
            x = mx.leaf(('Dk',), cap=_tcode(hl, base.dtype.key_type)).value
            if ctor == 'dict_get' and aux % 2:
                dflt = mx.leaf(('Dv',), cap=_tcode(hl, base.dtype.value_type)).value
        if x is not None:
            what += f' with {x!r}' + (f', {dflt!r}' if dflt is not None else '')

        def go():
            if ctor in ('array', 'array_of'):
                return hl.array(v)
            if ctor in ('set', 'set_of'):
                return hl.set(v)
            if ctor == 'dict':
                return hl.dict(v)
            if ctor in ('tuple', 'tuple_of'):
                return hl.tuple(v)
            if ctor == 'struct':
                return hl.struct(**fields)
            if ctor == 'to_expr':
                return to_expr(v)
            if ctor == 'literal':
                return hl.literal(v)
            if ctor == 'struct_field':
                return hl.struct(**{nm: v})
            if ctor == 'sum':
                return hl.sum(v)
            if ctor == 'len':
                return hl.len(v)
            if ctor == 'sorted':
                return hl.sorted(v)
            if ctor == 'index':
                return base[aux % len(v)]
            if ctor == 'append':
                return base.append(x)
            if ctor in ('contains', 'set_contains'):
                return base.contains(x)
            if ctor == 'set_add':
                return base.add(x)
            if ctor == 'dict_get':
                return base.get(x) if dflt is None else base.get(x, dflt)
            if ctor == 'dict_index':
                return base[x]
            if ctor == 'dict_values':
                return base.values()
            if ctor == 'dict_keys':
                return base.keys()
            if ctor == 'tuple_index':
                return hl.tuple(v)[aux % len(v)]
            if ctor == 'if_else':
                return hl.if_else(cond, v, v2)
            if ctor == 'coalesce':
                return hl.coalesce(v, v2)
            if ctor == 'or_else':
                return hl.or_else(v, v2)
            if ctor == 'annotate':
                s = c35._pick(pool, aux, self.is_struct, lambda: hl.struct(a=hl.int32(1), b=hl.float32(2)))
                return s.annotate(**fields)
            if ctor == 'field_of':
                return hl.struct(**fields)[list(fields)[aux % len(fields)]]
            raise _Skip(f'unknown constructor {ctor}')
        e = self._numeric_only(what, mx, go)
        if ctor == 'to_expr' and self.v is not None:
            from hail.expr.expressions import impute_type
            it = self._numeric_only('impute_type of ' + what, mx, lambda: impute_type(v))
            if it != e.dtype:
                self.v.fail('mix-imputed-dtype:' + kind, CL_LIT, f'{what}: to_expr(v).dtype is {e.dtype}, impute_type(v) is {it}')
        self.classes.add('mix_ctor_' + ctor)
        self.classes.add('mix_top_' + {'L': 'list', 'S': 'set', 'D': 'dict', 'T': 'tuple', 'R': 'struct'}[kind])
        return self._built(e, mx, what, False)

    def uni(self, op, pool):
        hl = self.hl
        fn = op[1] if op[1] in UNI_FNS else '+'
        aux = int(op[3])
        mx = Mixer(self, pool, op[2])
        n = 2 if fn in _BINOPS or fn in ('if_else', 'or_else') else 2 + aux % 2
        args = []
        for j in range(n):
            # an operator between two Python / numpy scalars is not a hail expression: the second operand is then one
            args.append(mx.leaf(('U',), want_expr=fn in _BINOPS and j == 1 and not args[0].has_expr))
        a = [m.value for m in args]
        cond = c35._pick(pool, aux, self.is_bool, lambda: hl.bool(False)) if fn in ('if_else', 'case') else None

        def go():
            if fn in _BINOPS:
                return _BINOPS[fn](a[0], a[1])
            if fn == 'if_else':
                return hl.if_else(cond, a[0], a[1])
            if fn == 'coalesce':
                return hl.coalesce(*a)
            if fn == 'or_else':
                return hl.or_else(a[0], a[1])
            if fn == 'case':
                c = hl.case().when(cond, a[0])
                for y in a[1:-1]:
                    c = c.when(~cond, y)
                return c.default(a[-1])
            if fn == 'max':
                return hl.max(*a)
            if fn == 'min':
                return hl.min(*a)
            raise _Skip(f'unknown unifier {fn}')
        what = f'{fn} over {a!r}'[:500]
        e = self._numeric_only(what, mx, go)
        self.classes.add('unifier_' + {'+': 'add', '-': 'sub', '*': 'mul', '/': 'truediv', '//': 'floordiv', '%': 'mod',
                                       '**': 'pow', '==': 'eq', '!=': 'ne', '<': 'lt', '<=': 'le', '>': 'gt',
                                       '>=': 'ge'}.get(fn, fn))
        if fn in _BINOPS and not args[0].has_expr:
            self.classes.add('unifier_reflected_operator')
            if args[0].np_leaf:
                self.classes.add('unifier_numpy_scalar_left_operand')
        return self._built(e, mx, what, True)


# =================================================================================================================
# mixed numeric members: Python containers handed to the front end, and unifiers that coerce their arguments
# =================================================================================================================
#
# A 'mix' op is ['mix', shape, leaves, ctor, aux]:
#   shape   ['n']                         a numeric/boolean member (leaf)
#           ['L', shape, k]               Python list of k members of one shape (a homogeneous group)
#           ['S', shape, k]               Python set (members: leaves or tuples of leaves)
#           ['D', kshape, vshape, k]      Python dict (keys form one group, values another)
#           ['T', [shape, ...]]           Python tuple (each position typed on its own)
#           ['R', [shape, ...], salt]     hl.Struct / keyword arguments of hl.struct (each field typed on its own)
#   leaves  [[tcode, how, val], ...] consumed cyclically in construction order; tcode in TCODES,
#           how: 'e' fresh hail expression of that type, 'p' an expression of that type from the pool (row / global fields,
#           lambda variables, earlier results), 'c' a pool expression of ANOTHER numeric type converted with
#           hl.int32/int64/float32/float64, 'py' Python scalar, 'np' numpy scalar, 'none' None (only next to a typed sibling)
#   ctor    index into MIX_CTORS[top shape kind] (hl.array / hl.set / hl.dict / hl.tuple / hl.struct / to_expr / hl.literal /
#           a struct field / collection functions and methods that coerce a Python argument / if_else, coalesce, or_else
#           over two values of the same shape)
# A 'uni' op is ['uni', fn, leaves, aux]: fn in UNI_FNS applied to 2-3 leaves (binary operators in both operand orders,
# comparisons, hl.if_else / coalesce / or_else / case / max / min).
#
# Everything the front end documents as refused is avoided BY CONSTRUCTION (the interpreter re-maps the drawn choice, it
# never discards the case), so that what is built has only numeric/boolean members and ANY exception violates CL_MIX:
#   * None only after a typed sibling in the same list / set / dict values ("cannot impute" otherwise);
#   * leaves under a tuple that sits inside a list / set / dict all take the type drawn for the first sibling (tuple
#     types are not promoted: "Hail does not support heterogeneous arrays");
#   * hl.literal only around values without embedded expressions (it evaluates them on the engine and refuses promotion);
#   * an operator always has a hail expression among its two operands;
#   * if_else / coalesce / or_else over two containers only for list/set nestings of leaves (one unification unit: one
#     side's type is then always coercible to the other's; unify_exprs does not invent a third type); hl.case only over
#     scalars ("'then' expressions must have same type" for anything else);
#   * set.add / set.contains / dict.get / dict[...] receive an item whose type coerces to the element / key / value type,
#     array.append an item of exactly the element type ("expects 'item' to be the same type as its elements").
# Two shapes are excluded because the unchanged front end mishandles them (counted, reported, see notes):
#   * a numpy scalar inside a sub-container without any embedded expression reaches hl.literal's typecheck against the
#     unified type: known finding impute-not-accepting:numpy-scalar-widened (guarded like the 'lit' dialect); numpy.bool_
#     there is refused even at its own type (tbool accepts only Python bool) and is always replaced by a Python bool;
#   * ArrayExpression.contains(item) neither checks nor coerces `item`, so an item of another numeric type yields
#     (Apply contains () Boolean <array<T>> <U>), which no registered signature accepts: the item takes the element type.

TCODES = ('i32', 'i64', 'f32', 'f64', 'b')
WIDTH = {'i32': 0, 'i64': 1, 'f32': 2, 'f64': 3}        # numeric promotion order of the front end
WFOLD_APIS = ['hl.fold', 'hl.fold', 'coll.fold', 'hl.array_scan', 'arr.scan']
WFOLD_BODIES = ['acc+x', 'acc+x', 'x+acc', 'acc*x', 'x', 'acc+wide', 'if', 'max', 'coalesce', 'prog', 'prog']
_RANK = {'b': 0, 'i32': 1, 'i64': 2, 'f32': 3, 'f64': 4}
_GROUP_MARK = {'L': 'list', 'S': 'set', 'Dk': 'dict_keys', 'Dv': 'dict_values'}
CL_MIX = ('a Python container or argument list whose members are all numeric or boolean (hail expressions of any primitive '
          'numeric type, Python scalars, numpy scalars) is accepted and unified by the front end')
MIX_CTORS = {
    'L': ['array', 'to_expr', 'struct_field', 'set_of', 'tuple_of', 'array', 'sum', 'len', 'sorted', 'index', 'append',
          'contains', 'if_else', 'coalesce', 'or_else', 'literal', 'to_expr', 'if_else', 'array'],
    'S': ['set', 'to_expr', 'array_of', 'struct_field', 'len', 'set_add', 'set_contains', 'if_else', 'coalesce',
          'literal', 'set', 'or_else'],
    'D': ['dict', 'to_expr', 'struct_field', 'dict_get', 'dict_index', 'dict_values', 'dict_keys', 'literal', 'len', 'dict'],
    'T': ['tuple', 'to_expr', 'struct_field', 'tuple_index', 'literal', 'tuple'],
    'R': ['struct', 'to_expr', 'struct_field', 'annotate', 'literal', 'struct', 'field_of'],
}
_TWO_VALUES = ('if_else', 'coalesce', 'or_else')
UNI_FNS = ['+', '-', '*', '/', '//', '%', '**', '==', '!=', '<', '<=', '>', '>=', 'if_else', 'coalesce', 'or_else', 'case',
           'max', 'min']
_BINOPS = {'+': lambda a, b: a + b, '-': lambda a, b: a - b, '*': lambda a, b: a * b, '/': lambda a, b: a / b,
           '//': lambda a, b: a // b, '%': lambda a, b: a % b, '**': lambda a, b: a ** b, '==': lambda a, b: a == b,
           '!=': lambda a, b: a != b, '<': lambda a, b: a < b, '<=': lambda a, b: a <= b, '>': lambda a, b: a > b,
           '>=': lambda a, b: a >= b}


def _single_unit(sh):
    """lists / sets of (lists / sets of ...) leaves: all leaves unify into ONE type, so two such values are coercible"""
    return sh[0] == 'n' or (sh[0] in ('L', 'S') and _single_unit(sh[1]))


def _tcode(hl, t):
    return {hl.tint32: 'i32', hl.tint64: 'i64', hl.tfloat32: 'f32', hl.tfloat64: 'f64', hl.tbool: 'b'}.get(t)


class _OrderedSet(set):
    """a Python set whose iteration order is the insertion order: hail expressions hash by address, so a plain set of them
    would be walked in an order that differs from one execution of the same case to the next"""

    def __init__(self, items):
        super().__init__()
        self._order = []
        for x in items:
            n = len(self)
            self.add(x)
            if len(self) > n:
                self._order.append(x)

    def __iter__(self):
        return iter(self._order)


class _Member:
    __slots__ = ('value', 'has_expr', 'np_leaf', 'pinned', 'unit', 'idx')

    def __init__(self, value, has_expr, np_leaf=False, pinned=False, unit=None, idx=None):
        self.value, self.has_expr, self.np_leaf, self.pinned, self.unit, self.idx = value, has_expr, np_leaf, pinned, unit, idx


class Mixer:
    """builds the Python value of a mix / uni op and keeps the books that the class labels and the guards need"""

    def __init__(self, b, pool, leaves):
        self.b, self.hl, self.pool = b, b.hl, pool
        self.leaves = [x for x in (leaves or []) if isinstance(x, (list, tuple)) and len(x) == 3] or [['i32', 'e', 1]]
        self.pos = 0
        self.units = {}          # unification unit (path without member indices) -> [(tcode, how)] in construction order
        self.pins = {}           # unit -> tcode, for leaves under a tuple inside a group (tuple types must be identical)
        self.at_risk_np = 0      # numpy scalars inside an expression-free sub-container (the known finding's trigger)
        self.replaced_np = 0
        self.replaced_np_bool = 0
        self.retyped_items = 0
        self.has_expr = False

    # ---- leaves
    def _fresh(self, tc, val):
        hl = self.hl
        return {'i32': lambda: hl.int32(val), 'i64': lambda: hl.int64(3 * val), 'f32': lambda: hl.float32(val / 2),
                'f64': lambda: hl.float64(val / 4), 'b': lambda: hl.bool(val % 2 == 1)}[tc]()

    def leaf(self, unit, allow_none=False, pinned=False, want_expr=False, exact=None, cap=None):
        """-> _Member.  exact: the member must have exactly this type; cap: a type that coerces to this one"""
        hl = self.hl
        import numpy as np
        tc, how, val = self.leaves[self.pos % len(self.leaves)]
        self.pos += 1
        tc = tc if tc in TCODES else 'i32'
        val = int(val)
        if pinned:
            tc = self.pins.setdefault(unit, tc)
        if exact is not None and tc != exact:
            tc = exact
            self.retyped_items += 1
        if cap is not None and _RANK[tc] > _RANK[cap]:
            tc = cap
        if how == 'none' and not (allow_none and not pinned and not want_expr and exact is None and cap is None):
            how = 'py'
        if want_expr and how in ('py', 'np'):
            how = 'e'
        if how == 'py' and tc == 'f32':
            how = 'e'          # no Python scalar imputes float32
        ht = {'i32': hl.tint32, 'i64': hl.tint64, 'f32': hl.tfloat32, 'f64': hl.tfloat64, 'b': hl.tbool}[tc]
        rec = self.units.setdefault(unit, [])
        if how == 'none':
            rec.append((None, 'none'))
            return _Member(None, False, unit=unit, idx=len(rec) - 1)
        if how == 'py':
            x = {'i32': val, 'i64': 2 ** 40 + val, 'f64': val / 4, 'b': val % 2 == 1}[tc]
            rec.append((tc, 'py'))
            return _Member(x, False, unit=unit, idx=len(rec) - 1)
        if how == 'np':
            x = {'i32': np.int32, 'i64': np.int64, 'f32': np.float32, 'f64': np.float64, 'b': np.bool_}[tc](
                {'i32': val, 'i64': 3 * val, 'f32': val / 2, 'f64': val / 4, 'b': val % 2 == 1}[tc])
            rec.append((tc, 'np'))
            return _Member(x, False, True, pinned or exact is not None, unit, len(rec) - 1)
        if how == 'p':
            e = c35._pick(self.pool, val, self.b.same(ht), lambda: self._fresh(tc, val))
        elif how == 'c':
            src = c35._pick(self.pool, val, lambda t: t in (hl.tint32, hl.tint64, hl.tfloat32, hl.tfloat64) and t != ht,
                            lambda: self._fresh('i64' if tc == 'i32' else 'i32', val))
            e = (src > 0) if tc == 'b' else {'i32': hl.int32, 'i64': hl.int64, 'f32': hl.float32, 'f64': hl.float64}[tc](src)
        else:
            e = self._fresh(tc, val)
        rec.append((tc, 'expr'))
        self.has_expr = True
        return _Member(e, True, unit=unit, idx=len(rec) - 1)

    # ---- containers
    def _settle(self, members):
        """members of ONE Python container (or the keys / the values of a dict).  A container without any embedded
        expression reaches hl.literal whole, and the (unified) leaf type typechecks every numpy scalar in it."""
        if any(m.has_expr for m in members):
            return
        for m in members:
            if not m.np_leaf:
                continue
            tc = self.units[m.unit][m.idx][0]
            # (tbool used to refuse numpy.bool_ although impute_type maps it to bool: repaired in /repo, so numpy bools are ordinary
            #  numpy scalars now)
            if m.pinned:                    # never widened: the tuple position has exactly this type
                continue
            elif self.b.guard_numpy:
                m.value, m.np_leaf = m.value.item(), False
                self.units[m.unit][m.idx] = ({'f32': 'f64', 'i64': 'i32'}.get(tc, tc), 'py')
                self.replaced_np += 1
            else:
                self.at_risk_np += 1

    def build(self, sh, path=(), in_group=False, under_tuple=False, allow_none=False):
        k = sh[0]
        if k == 'n':
            return self.leaf(path, allow_none=allow_none, pinned=in_group and under_tuple)
        if k in ('L', 'S'):
            n = max(1, int(sh[2]))
            ms = [self.build(sh[1], path + (k,), True, under_tuple, allow_none=(j > 0)) for j in range(n)]
            self._settle(ms)
            vals = [m.value for m in ms]
            return _Member(vals if k == 'L' else _OrderedSet(vals), any(m.has_expr for m in ms))
        if k == 'D':
            n = max(1, int(sh[3]))
            ks = [self.build(sh[1], path + ('Dk',), True, under_tuple) for _ in range(n)]
            vs = [self.build(sh[2], path + ('Dv',), True, under_tuple, allow_none=(j > 0)) for j in range(n)]
            self._settle(ks)
            self._settle(vs)
            d = {}
            for a, c in zip(ks, vs):
                if c.value is None and a.value in d:
                    continue        # equal keys collapse (0, False, np.int32(0)): a None must not replace the typed value
                d[a.value] = c.value
            return _Member(d, any(m.has_expr for m in ks + vs))
        if k == 'T':
            ms = [self.build(s2, path + ('T', j), in_group, True) for j, s2 in enumerate(sh[1])]
            self._settle(ms)
            return _Member(tuple(m.value for m in ms), any(m.has_expr for m in ms))
        if k == 'R':
            nm = _names(int(sh[2]), len(sh[1]))
            ms = [self.build(s2, path + ('R', nm[j]), in_group, under_tuple) for j, s2 in enumerate(sh[1])]
            self._settle(ms)
            return _Member(self.hl.Struct(**{nm[j]: m.value for j, m in enumerate(ms)}), any(m.has_expr for m in ms))
        raise _Skip(f'unknown shape {k}')

    # ---- class labels
    def labels(self, out, unifier=False):
        pre = 'unifier_' if unifier else ''
        for unit, ms in self.units.items():
            real = [(t, h) for t, h in ms if t is not None]
            if not real or len(ms) < 2:
                continue
            ex = [t for t, h in real if h == 'expr']
            types = {t for t, _ in real}
            join = max(types, key=_RANK.get)
            marks = [_GROUP_MARK[x] for x in unit if x in _GROUP_MARK]
            if len(set(ex)) >= 2:
                out.add(pre + ('mixed_numeric_exprs' if unifier else 'mixed_numeric_exprs_in_container'))
                if marks:
                    out.add(f'mixed_exprs_in_{marks[-1]}')
                if len(marks) >= 2:
                    out.add('mixed_exprs_across_nested_containers')
                if 'R' in unit:
                    out.add('mixed_exprs_under_struct_field')
                if 'T' in unit:
                    out.add('mixed_exprs_under_tuple')
                out.add(f'{pre}mixed_exprs_join_{join}')
            ints = [j for j, (t, h) in enumerate(real) if h == 'expr' and t in ('i32', 'i64', 'b')]
            f32s = [j for j, (t, h) in enumerate(real) if h == 'expr' and t == 'f32']
            if ints and f32s and join == 'f32':
                out.add(pre + 'float32_expr_with_int_expr')
                out.add(pre + ('float32_expr_before_int_expr' if f32s[0] < ints[0] else 'int_expr_before_float32_expr'))
            if 'i32' in ex and 'i64' in ex:
                out.add(pre + 'int32_expr_with_int64_expr')
            if 'f32' in ex and 'f64' in ex:
                out.add(pre + 'float32_expr_with_float64_expr')
            if 'b' in ex and len(set(ex)) >= 2:
                out.add(pre + 'bool_expr_with_numeric_expr')
            if ex and any(h == 'py' for _, h in real):
                out.add(pre + 'expr_with_python_scalar')
            if ex and any(h == 'np' for _, h in real):
                out.add(pre + 'expr_with_numpy_scalar')
            if not ex and len(types) >= 2:
                out.add(pre + 'mixed_python_numpy_scalars_only')
            if any(t is None for t, _ in ms):
                out.add('missing_member_in_mix')


class Program:
    def __init__(self, case):
        self.case = case
        self.v = Verdict()
        self.b = None
        self.steps_done = 0
        self.skipped = 0

    # ---- expressions evaluated against a pool of field expressions
    def run_prog(self, prog, fields):
        pool = _base_pool(self.b.hl)[:-1] + list(fields)
        base = len(pool)
        self.b.run(prog.get('ops', []), pool, 0)
        return pool, pool[base:]

    def outs(self, prog, fields, k, pred=None):
        hl = self.b.hl
        pool, new = self.run_prog(prog, fields)
        cands = [e for e in new if pred is None or pred(e.dtype)]
        if not cands:
            cands = [e for e in pool if pred is None or pred(e.dtype)]
        if not cands:
            raise _Skip('no output expression')
        return cands[-max(1, k):]


def _names(salt, n, existing=()):
    out = []
    for j in range(n):
        out.append(NAMES[(salt + 3 * j) % len(NAMES)])
    # de-duplicate within one call
    seen, res = set(), []
    for nm in out:
        while nm in seen:
            nm = nm + '_'
        seen.add(nm)
        res.append(nm)
    return res


def _mask(fields, m):
    sel = [f for j, f in enumerate(fields) if (m >> j) & 1]
    return sel


def run_case(case):
    """-> (nontrivial, classes, failures)"""
    hl, ir, PlainRenderer, finalize = _env()
    kind = case.get('kind')
    if kind == 'lit':
        return run_lit(case)
    p = Program(case)
    p.b = ExprBuilder()
    v = p.v
    p.b.v = v
    v.classes.add('kind_' + kind)
    keyed = False
    if kind == 'expr':
        pool = []
        for lc in case.get('lits', []):
            try:
                pool.append(hl.literal(hailgen.build_value(lc['t'], lc['v']), hailgen.build_type(lc['t'])))
            except Exception:
                p.skipped += 1
        pool = _base_pool(hl) + pool
        p.b.run(case.get('ops', []), pool, 0)
        roots = [pool[-1 - (r % len(pool))] for r in case.get('roots', [0])]
        for j, e in enumerate(roots):
            check_expr(e, Env({}, None, None), v, f'root {j}')
    elif kind == 'table':
        t = hl.utils.range_table(int(case.get('n', 5)) % 7 + 1)
        tt = check_table(t, v, 'range_table')
        for si, step in enumerate(case.get('steps', [])):
            try:
                t2, k2 = table_step(p, t, tt, step, f'step {si} {step[0]}')
            except _Skip:
                p.skipped += 1
                continue
            except Exception as ex:
                p.skipped += 1
                if _rejection(ex):
                    v.classes.add('rejected_step')
                else:
                    v.fail(f'frontend-crash:{type(ex).__name__}:{_frame(ex)}', CL_CRASH,
                           f'step {step[0]} made the front end raise {type(ex).__name__}: {str(ex)[:400]}')
                continue
            if t2 is None:
                continue
            t = t2
            keyed = keyed or k2
            tt = check_table(t, v, f'after step {si} {step[0]}')
            p.steps_done += 1
            v.classes.add('step_' + step[0])
            if tt is None:
                break
    elif kind == 'matrix':
        mt = hl.utils.range_matrix_table(int(case.get('r', 3)) % 5 + 1, int(case.get('c', 2)) % 4 + 1)
        m = check_matrix(mt, v, 'range_matrix_table')
        t = tt = None
        for si, step in enumerate(case.get('steps', [])):
            try:
                if t is None:
                    res, k2 = matrix_step(p, mt, m, step, f'step {si} {step[0]}')
                else:
                    res, k2 = table_step(p, t, tt, step, f'step {si} {step[0]}')
            except _Skip:
                p.skipped += 1
                continue
            except Exception as ex:
                p.skipped += 1
                if _rejection(ex):
                    v.classes.add('rejected_step')
                else:
                    v.fail(f'frontend-crash:{type(ex).__name__}:{_frame(ex)}', CL_CRASH,
                           f'step {step[0]} made the front end raise {type(ex).__name__}: {str(ex)[:400]}')
                continue
            if res is None:
                continue
            keyed = keyed or k2
            p.steps_done += 1
            v.classes.add('step_' + step[0])
            if isinstance(res, hl.Table):
                t = res
                tt = check_table(t, v, f'after step {si} {step[0]}')
                if tt is None:
                    break
            else:
                mt = res
                m = check_matrix(mt, v, f'after step {si} {step[0]}')
                if m is None:
                    break
    else:
        raise ValueError(f'unknown case kind {kind!r}')
    for f in p.b.crashes:
        v.fail(*f)
    classes = set(v.classes) | p.b.classes
    if keyed:
        classes.add('keyed_operation')
    if any(c.startswith('outside_grammar') for c in classes):
        classes.add('outside_grammar')
    nontrivial = bool(classes & {'promotion', 'division', 'keyed_operation', 'nested_struct_update',
                                 'mixed_numeric_exprs_in_container', 'unifier_mixed_numeric_exprs',
                                 'fold_accumulator_widened'})
    STATS['skipped_ops'] += p.skipped + p.b.st['skipped']
    STATS['ops'] += p.b.st['ops'] + p.steps_done
    STATS['rejected'] += p.b.st['rejected']
    return nontrivial, sorted(classes), v.fails


STATS = {'wfold_tried': 0, 'wfold_built': 0, 'wfold_checked_at_construction': 0,
         'skipped_ops': 0, 'ops': 0, 'rejected': 0, 'nodes_compared': 0, 'refs_compared': 0, 'mix_built': 0,
         'mix_checked_at_construction': 0, 'numpy_scalars_replaced_by_guard': 0, 'numpy_bools_replaced': 0,
         'array_contains_items_retyped': 0}


def _base_pool(hl):
    return [hl.str('s'), hl.bool(False), hl.float32(0.5), hl.array([hl.float64(1.5), hl.float64(-2.0)]),
            hl.struct(a=hl.int32(1), b=hl.struct(c=hl.float64(2), d=hl.str('x'))), hl.float64(2.5), hl.int64(7), hl.int32(1)]


def _rejection(ex):
    """the front end refusing a step (user error) as opposed to crashing"""
    if isinstance(ex, (TypeError, ValueError, NotImplementedError, KeyError, AttributeError, IndexError)):
        return True
    if isinstance(ex, AssertionError):
        return False
    return type(ex).__module__.startswith('hail')


def _row_env(tt):
    return Env({'global': tt[1], 'row': tt[2]}, None, None)


def table_step(p, t, tt, step, what):
    """-> (new table or None, keyed?)"""
    hl = p.b.hl
    v = p.v
    k = step[0]
    fields = [t[f] for f in t.row]
    gfields = [t.globals[f] for f in t.globals.dtype.fields]
    rowctx = fields + gfields
    names = list(t.row)

    def checked(es, env, label):
        if tt is not None:
            for j, e in enumerate(es):
                check_expr(e, env, v, f'{what} {label} {j}')
        return es
    if k in ('annotate', 'transmute'):
        es = checked(p.outs(step[1], rowctx, step[2]), _row_env(tt) if tt else None, 'field')
        nm = _names(step[3], len(es))
        kw = dict(zip(nm, es))
        if any(n in names for n in nm):
            v.classes.add('field_override')
            v.classes.add('nested_struct_update')
        return (t.annotate(**kw) if k == 'annotate' else t.transmute(**kw)), False
    if k == 'select':
        keep = [f for f in _mask(names, step[1]) if f not in t.key]
        es = checked(p.outs(step[2], rowctx, step[3]), _row_env(tt) if tt else None, 'field')
        nm = [n for n in _names(step[4], len(es)) if n not in keep]
        return t.select(*keep, **dict(zip(nm, es))), False
    if k == 'drop':
        keep = [f for f in _mask(names, step[1])]
        if not keep:
            raise _Skip('nothing to drop')
        return t.drop(*keep), any(f in t.key for f in keep)
    if k == 'key_by':
        keys = _mask(names, step[1])
        if step[2] % 2:
            keys = keys[::-1]
        return t.key_by(*keys), True
    if k == 'key_by_expr':
        es = checked(p.outs(step[1], rowctx, 1, p.b.is_scalar), _row_env(tt) if tt else None, 'key')
        return t.key_by(**{_names(step[2], 1)[0]: es[0]}), True
    if k == 'filter':
        es = checked(p.outs(step[1], rowctx, 1, p.b.is_bool), _row_env(tt) if tt else None, 'predicate')
        return t.filter(es[0]), False
    if k == 'annotate_globals':
        es = checked(p.outs(step[1], gfields, step[2]), Env({'global': tt[1]}, None, None) if tt else None, 'global')
        return t.annotate_globals(**dict(zip(_names(step[3], len(es)), es))), False
    if k == 'distinct':
        return t.distinct(), True
    if k == 'group_agg':
        keys = _mask(names, step[1]) or names[:1]
        num = p.outs(step[2], rowctx, 1, p.b.is_num)[0]
        anyv = p.outs(step[2], rowctx, 1)[0]
        aggs = {'n': hl.agg.count(), 's': hl.agg.sum(num), 'c c': hl.agg.collect(anyv)}
        aggs = {kk: vv for j, (kk, vv) in enumerate(aggs.items()) if (step[3] >> j) & 1 or j == 1}
        return t.group_by(*keys).aggregate(**aggs), True
    if k == 'join':
        other = hl.utils.range_table(int(step[1]) % 5 + 1)
        ofields = [other[f] for f in other.row]
        es = p.outs(step[2], ofields, 2)
        other = other.annotate(**dict(zip(['jx', 'jy'], es)))
        scalar = (hl.tint32, hl.tint64, hl.tfloat32, hl.tfloat64, hl.tstr, hl.tbool)
        late = [f for f in names[1:] if t[f].dtype in scalar]
        if step[3] & 4 and late:
            # half of the joins first key the left table by a field that is NOT the first of its row (the engine puts the key
            # fields first in the joined row, whatever their position on the left)
            t = t.key_by(late[int(step[1]) % len(late)])
        # a join needs equal key types: when the left key is not the single int32 of a range table, the right table is
        # re-keyed by conversions of its idx to the left key's types (otherwise nearly every re-keyed left table is refused)
        kts = list(t.key.dtype.types)
        conv = {hl.tint32: lambda x: x, hl.tint64: hl.int64, hl.tfloat32: hl.float32, hl.tfloat64: hl.float64,
                hl.tstr: hl.str, hl.tbool: lambda x: x > 1}
        if kts and kts != [hl.tint32] and all(kt in conv for kt in kts):
            other = other.key_by(**{f'jk{j}': conv[kt](other.idx + j) for j, kt in enumerate(kts)})
            v.classes.add('join_right_rekeyed_to_left_key_types')
        joined = t.join(other, how=['inner', 'left', 'right', 'outer'][step[3] % 4])
        if kts and list(t.key) != list(t.row)[:len(kts)]:
            v.classes.add('join_left_key_not_leading_fields')
        return joined, True
    if k == 'index':
        other = hl.utils.range_table(int(step[1]) % 5 + 1)
        ofields = [other[f] for f in other.row]
        es = p.outs(step[2], ofields, 1)
        other = other.annotate(jz=es[0])
        key = p.outs(step[3], rowctx, 1, p.b.same(hl.tint32))[0]
        return t.annotate(**{_names(step[4], 1)[0]: other[key].jz}), True
    raise _Skip(f'unknown table step {k}')


def matrix_step(p, mt, m, step, what):
    hl = p.b.hl
    v = p.v
    k = step[0]
    g = [mt.globals[f] for f in mt.globals.dtype.fields]
    rows = [mt[f] for f in mt.row] + g
    cols = [mt[f] for f in mt.col] + g
    ents = [mt[f] for f in mt.entry] + [mt[f] for f in mt.row] + [mt[f] for f in mt.col] + g
    if m is not None:
        envs = {'row': Env({'global': m[1], 'va': m[4]}, None, None), 'col': Env({'global': m[1], 'sa': m[2]}, None, None),
                'entry': Env({'global': m[1], 'va': m[4], 'sa': m[2], 'g': m[6]}, None, None),
                'global': Env({'global': m[1]}, None, None)}
    else:
        envs = None

    def checked(es, which, label):
        if envs is not None:
            for j, e in enumerate(es):
                check_expr(e, envs[which], v, f'{what} {label} {j}')
        return es

    def over(nm, existing):
        if any(n in existing for n in nm):
            v.classes.add('field_override')
            v.classes.add('nested_struct_update')
    if k == 'annotate_rows':
        es = checked(p.outs(step[1], rows, step[2]), 'row', 'field')
        nm = _names(step[3], len(es))
        over(nm, list(mt.row))
        return mt.annotate_rows(**dict(zip(nm, es))), False
    if k == 'annotate_cols':
        es = checked(p.outs(step[1], cols, step[2]), 'col', 'field')
        nm = _names(step[3], len(es))
        over(nm, list(mt.col))
        return mt.annotate_cols(**dict(zip(nm, es))), False
    if k == 'annotate_entries':
        es = checked(p.outs(step[1], ents, step[2]), 'entry', 'field')
        nm = _names(step[3], len(es))
        over(nm, list(mt.entry))
        return mt.annotate_entries(**dict(zip(nm, es))), False
    if k == 'annotate_globals':
        es = checked(p.outs(step[1], g, step[2]), 'global', 'field')
        return mt.annotate_globals(**dict(zip(_names(step[3], len(es)), es))), False
    if k == 'select_rows':
        keep = [f for f in _mask(list(mt.row), step[1]) if f not in mt.row_key]
        es = checked(p.outs(step[2], rows, step[3]), 'row', 'field')
        nm = [n for n in _names(step[4], len(es)) if n not in keep]
        return mt.select_rows(*keep, **dict(zip(nm, es))), False
    if k == 'select_cols':
        keep = [f for f in _mask(list(mt.col), step[1]) if f not in mt.col_key]
        es = checked(p.outs(step[2], cols, step[3]), 'col', 'field')
        nm = [n for n in _names(step[4], len(es)) if n not in keep]
        return mt.select_cols(*keep, **dict(zip(nm, es))), False
    if k == 'select_entries':
        keep = _mask(list(mt.entry), step[1])
        es = checked(p.outs(step[2], ents, step[3]), 'entry', 'field')
        nm = [n for n in _names(step[4], len(es)) if n not in keep]
        return mt.select_entries(*keep, **dict(zip(nm, es))), False
    if k == 'key_rows_by':
        keys = _mask(list(mt.row), step[1])
        return mt.key_rows_by(*keys), True
    if k == 'key_cols_by':
        keys = _mask(list(mt.col), step[1])
        return mt.key_cols_by(*keys), True
    if k == 'key_cols_by_expr':
        es = checked(p.outs(step[1], cols, 1, p.b.is_scalar), 'col', 'key')
        return mt.key_cols_by(**{_names(step[2], 1)[0]: es[0]}), True
    if k == 'filter_rows':
        return mt.filter_rows(checked(p.outs(step[1], rows, 1, p.b.is_bool), 'row', 'predicate')[0]), False
    if k == 'filter_cols':
        return mt.filter_cols(checked(p.outs(step[1], cols, 1, p.b.is_bool), 'col', 'predicate')[0]), False
    if k == 'filter_entries':
        return mt.filter_entries(checked(p.outs(step[1], ents, 1, p.b.is_bool), 'entry', 'predicate')[0]), False
    if k == 'agg_rows':
        num = p.outs(step[1], ents, 1, p.b.is_num)[0]
        return mt.annotate_rows(**{_names(step[2], 1)[0]: hl.agg.sum(num), 'n_': hl.agg.count()}), False
    if k == 'agg_cols':
        anyv = p.outs(step[1], ents, 1)[0]
        return mt.annotate_cols(**{_names(step[2], 1)[0]: hl.agg.collect(anyv)}), False
    if k == 'rows':
        return mt.rows(), False
    if k == 'cols':
        return mt.cols(), False
    if k == 'entries':
        return mt.entries(), True
    raise _Skip(f'not a matrix step {k}')


def _untyped(x):
    """a container that imputes to an unknown element type: empty, or holding only missing values / such containers"""
    if isinstance(x, dict) or type(x).__name__ == 'frozendict':
        return all((k is None or _untyped(k)) and (v is None or _untyped(v)) for k, v in x.items())
    if isinstance(x, (list, tuple, set, frozenset)) or type(x).__name__ == 'frozenlist':
        return all(e is None or _untyped(e) for e in x)
    return False


def _first_rejected_leaf(d, val):
    """'<hail type>:<python type>' of the first leaf of val that the imputed type d does not accept"""
    found = []

    def check(tt, x):
        if x is None or found:
            return False
        try:
            tt._typecheck_one_level(x)
        except TypeError:
            mod = type(x).__module__.split('.')[0]
            if mod == 'numpy' and str(tt) in ('int64', 'float64'):
                found.append('numpy-scalar-widened')      # impute unified np scalars of two widths; the wide type rejects the narrow
            elif isinstance(x, (list, tuple, set, frozenset, dict)) or type(x).__name__ in ('frozenlist', 'frozendict'):
                # a container sitting where the unified type has a scalar: an EMPTY container imputes to an element type of None,
                # which super_unify_types drops instead of refusing (same leniency as the struct-union finding)
                # (observed with empty / all-missing containers and with containers of empty structs: impute_type's unification of
                #  dict values keeps one member's type and ignores a container member instead of refusing)
                found.append('container-unified-away')
            else:
                found.append(f'{tt}<-{mod}.{type(x).__name__}')
            return False
        return True
    try:
        d._traverse(val, check)
    except Exception:
        if not found:
            found.append('container-unified-away')      # the traversal itself broke on a container where the type has another shape
    return found[0] if found else '?'


_known_np = None


def _known_numpy_width():
    global _known_np
    if _known_np is None:
        from vlib.runner import known_signatures
        import os
        _known_np = bool(os.environ.get('VERIF_C36_GUARD')) or \
            'impute-not-accepting:numpy-scalar-widened' in known_signatures(PROPERTY)
    return _known_np


def run_lit(case):
    hl, ir, PlainRenderer, finalize = _env()
    v = Verdict()
    td, vd = case['t'], case['v']
    t = hailgen.build_type(td)
    val = hailgen.build_value(td, vd)
    hailgen.typechecks(t, val)
    classes = {'kind_lit', 'top_' + hailgen.kind(td)}
    stats = hailgen.value_stats(td, vd)
    if stats.get('missing'):
        classes.add('has_missing')
    want = tdesc(t)
    # supplied type
    try:
        e = hl.literal(val, t)
    except Exception as ex:
        if not _rejection(ex):
            v.fail(f'literal-raises:{type(ex).__name__}:{_frame(ex)}', CL_LIT, f'hl.literal(v, {t}) raised {ex!r}')
        classes.add('literal_rejected')
        e = None
    if e is not None:
        if e.dtype != t:
            v.fail(f'literal-dtype:{hailgen.kind(td)}', CL_LIT, f'hl.literal(v, {t}).dtype is {e.dtype}')
        try:
            it = analyse(e._ir, Env({}, None, None), v, 'hl.literal(v, t)')
            if it != want:
                v.fail(f'literal-ir-type:{e._ir._ir_name()}', CL_LIT, f'hl.literal(v, {t}) emits an IR of type {show(it)}')
        except Outside:
            pass
    # imputed type
    from hail.expr.expressions import impute_type
    try:
        d = impute_type(val)
    except Exception as ex:
        if not _rejection(ex):
            v.fail(f'impute-raises:{type(ex).__name__}:{_frame(ex)}', CL_LIT, f'impute_type({val!r}) raised {ex!r}')
        d = None
        classes.add('impute_rejected')
    if d is not None:
        classes.add('imputed')
        try:
            hailgen.typechecks(d, val)
        except (TypeError, AttributeError, KeyError) as ex:
            # (the deep traversal itself can trip over a value of the wrong shape: .items() on a list where the imputed type has
            #  a dict -- still "the imputed type does not accept the value")
            leaf = _first_rejected_leaf(d, val)
            v.fail(f'impute-not-accepting:{leaf}', CL_LIT,
                   f'impute_type gives {d} for {val!r} (generated as {t}) but that type does not accept the value: {ex}')
        else:
            try:
                e2 = hl.literal(val)
            except Exception as ex:
                if not _rejection(ex):
                    v.fail(f'literal-raises:{type(ex).__name__}:{_frame(ex)}', CL_LIT, f'hl.literal({val!r}) raised {ex!r}')
                e2 = None
            if e2 is not None:
                if e2.dtype != d:
                    v.fail(f'literal-imputed-dtype:{hailgen.kind(td)}', CL_LIT,
                           f'hl.literal(v).dtype is {e2.dtype}, impute_type(v) is {d}')
                try:
                    it = analyse(e2._ir, Env({}, None, None), v, 'hl.literal(v)')
                    if it != tdesc(e2.dtype):
                        v.fail(f'literal-ir-type:{e2._ir._ir_name()}', CL_LIT,
                               f'hl.literal(v) has dtype {e2.dtype} but emits an IR of type {show(it)}')
                except Outside:
                    pass
                except KeyError as ex:
                    # rendering encodes the value with the imputed type: a Struct member that lacks a field of that type
                    if 'has no field' in str(ex):
                        v.fail('impute-not-accepting:struct-union-of-fields', CL_LIT,
                               f'impute_type({val!r}) = {d}: struct members with different field sets are unified to the UNION of their '
                               f'fields (super_unify_types), which a member lacking one of them does not satisfy; encoding the literal '
                               f'raises {ex!r}')
                    else:
                        v.fail(f'literal-render-raises:KeyError:{_frame(ex)}', CL_LIT, f'rendering hl.literal({val!r}) raised {ex!r}')
                except Exception as ex:      # noqa: a literal whose construction succeeded must render
                    v.fail(f'literal-render-raises:{type(ex).__name__}:{_frame(ex)}', CL_LIT, f'rendering hl.literal({val!r}) raised {ex!r}')
    # the same Python object converted implicitly, mutated in place, and converted again: the second expression must describe the
    # object as it is now (implicit conversion goes through to_expr / cast_expr, not hl.literal)
    mut = None
    if not (isinstance(val, (list, dict)) and val):
        # no suitable container in this case: probe with a small one derived from it
        k_ = len(repr(vd)) % 5
        val = [k_, k_ + 1] if k_ % 2 == 0 else {'a': k_, 'b': 7}
        t = hl.tarray(hl.tint32) if isinstance(val, list) else hl.tdict(hl.tstr, hl.tint32)
    if isinstance(val, list) and val and all(type(x) is int and abs(x) < 2 ** 31 for x in val):
        mut = ('list', hl.array, lambda o: o.append(2.5), lambda: hl.tarray(hl.tfloat64))
    elif isinstance(val, dict) and val and all(type(k) is str and type(x) is int and abs(x) < 2 ** 31 for k, x in val.items()) \
            and not isinstance(t, hl.tstruct):
        mut = ('dict', hl.dict, lambda o: o.__setitem__('zz_added', 2 ** 40), lambda: hl.tdict(hl.tstr, hl.tint64))
    if mut is not None:
        kind_, conv, mutate, want_t = mut
        try:
            e_before = conv(val)
            mutate(val)
            e_after = conv(val)
        except Exception as ex:
            v.fail(f'reconvert-raises:{type(ex).__name__}', CL_LIT, f'converting {val!r} again after an in-place change raised {ex!r}')
        else:
            classes.add(f'reconverted_after_inplace_change_{kind_}')
            if e_after.dtype != want_t():
                v.fail(f'reconvert-stale-type:{kind_}', CL_LIT,
                       f'{kind_} object converted, changed in place to {val!r} and converted again: dtype {e_after.dtype}, '
                       f'first conversion had {e_before.dtype}, the value now needs {want_t()}')
    classes |= v.classes
    if any(c.startswith('outside_grammar') for c in classes):
        classes.add('outside_grammar')
    nontrivial = bool(stats.get('nested_container')) or bool(stats.get('missing'))
    return nontrivial, sorted(classes), v.fails


# =================================================================================================================
# generators
# =================================================================================================================

def _strategies():
    from hypothesis import strategies as st
    idx = st.sampled_from([0, 0, 0, 0, 1, 1, 1, 2, 2, 3, 4, 5, 7, 10])
    small = st.integers(-3, 6)
    tn = st.sampled_from(['i32', 'i32', 'i64', 'f64', 'bool', 'str'])
    salt = st.integers(0, 7)
    mask = st.integers(0, 15)

    # ---- mixed numeric members (Mixer): shapes, leaves, constructors
    leaf = st.tuples(st.sampled_from(TCODES),
                     st.sampled_from(['e', 'e', 'e', 'e', 'p', 'p', 'c', 'py', 'py', 'np', 'none']), small)
    leaves = st.lists(leaf, min_size=2, max_size=10)
    num = st.just(['n'])
    hashable = st.one_of(num, num, num, st.integers(1, 3).map(lambda n: ['T', [['n']] * n]))
    cnt = st.sampled_from([1, 2, 2, 2, 3, 3, 4])

    def containers(inner):
        return st.one_of(
            st.tuples(st.just('L'), inner, cnt), st.tuples(st.just('L'), inner, cnt), st.tuples(st.just('S'), hashable, cnt),
            st.tuples(st.just('D'), hashable, inner, st.integers(1, 3)),
            st.tuples(st.just('T'), st.lists(inner, min_size=1, max_size=3)),
            st.tuples(st.just('R'), st.lists(inner, min_size=1, max_size=3), salt))
    shape = containers(st.recursive(num, containers, max_leaves=4))
    aux = st.integers(0, 11)
    mixed = st.one_of(
        st.tuples(st.just('mix'), shape, leaves, st.integers(0, 19), aux),
        st.tuples(st.just('mix'), st.tuples(st.sampled_from(['L', 'L', 'S']), num, cnt), leaves, st.integers(0, 19), aux),
        st.tuples(st.just('uni'), st.sampled_from(UNI_FNS), leaves, aux))

    def wfold_op(body):
        return st.tuples(st.just('wfold'), st.sampled_from(WFOLD_APIS), st.sampled_from(['i32', 'i32', 'i32', 'i64', 'f32']),
                         st.sampled_from(['i32', 'i64', 'f32', 'f64', 'f64']), st.sampled_from(['expr', 'expr', 'py', 'pool']),
                         st.sampled_from(['fresh_array', 'fresh_array', 'fresh_set', 'pylist', 'pool', 'pool']),
                         st.sampled_from(WFOLD_BODIES), st.sampled_from(['scalar'] * 4 + ['struct', 'tuple']), body, aux)

    def ops(depth, lo, hi):
        body = st.deferred(lambda: st.fixed_dictionaries({'ops': ops(depth + 1, 1, 4), 'ret': st.sampled_from([0, 0, 1, 2])}))
        numeric = st.one_of(
            st.tuples(st.just('bin'), st.sampled_from(['+', '-', '*', '//']), idx, idx),
            st.tuples(st.just('div'), st.sampled_from(['/', '/', '%', '**']), idx, idx),
            st.tuples(st.just('cmp'), st.sampled_from(['<', '<=', '>', '>=', '==', '!=']), idx, idx),
            st.tuples(st.just('lit'), tn, small), st.tuples(st.just('lit'), st.sampled_from(['i64', 'f64']), small),
            st.tuples(st.just('conv'), st.sampled_from(['i32', 'i64', 'f32', 'f64']), idx),
            st.tuples(st.just('neg'), idx), st.tuples(st.just('ifmix'), idx, idx, idx),
        )
        coll = st.one_of(
            st.tuples(st.just('array'), st.lists(idx, min_size=1, max_size=3)), st.tuples(st.just('range'), st.integers(0, 4)),
            st.tuples(st.just('append'), idx, idx), st.tuples(st.just('extend'), idx, idx), st.tuples(st.just('length'), idx),
            st.tuples(st.just('idx'), idx, idx), st.tuples(st.just('slice'), idx, idx), st.tuples(st.just('toset'), idx),
            st.tuples(st.just('contains'), idx, idx), st.tuples(st.just('setadd'), idx, idx), st.tuples(st.just('sum'), idx),
            st.tuples(st.just('hlmax'), idx), st.tuples(st.just('mean'), idx), st.tuples(st.just('len'), idx),
            st.tuples(st.just('mkdict'), idx), st.tuples(st.just('dictget'), idx, idx, st.one_of(st.none(), idx)),
            st.tuples(st.just('dictidx'), idx, idx), st.tuples(st.just('dictkeys'), idx), st.tuples(st.just('dictvalues'), idx),
            st.tuples(st.just('sorted'), idx, st.none()),
        )
        structs = st.one_of(
            st.tuples(st.just('struct'), st.lists(idx, min_size=1, max_size=3)), st.tuples(st.just('field'), idx, idx),
            st.tuples(st.just('annotate'), idx, st.lists(idx, min_size=1, max_size=2), idx),
            st.tuples(st.just('select'), idx, st.integers(1, 7)), st.tuples(st.just('drop'), idx, idx),
            st.tuples(st.just('nest'), idx, idx, idx, idx), st.tuples(st.just('nest'), idx, idx, idx, idx),
            st.tuples(st.just('tuple'), st.lists(idx, min_size=1, max_size=3)), st.tuples(st.just('tget'), idx, idx),
        )
        cond = st.one_of(
            st.tuples(st.just('if'), idx, idx, idx), st.tuples(st.just('ormiss'), idx, idx),
            st.tuples(st.just('coalesce'), idx, idx), st.tuples(st.just('isna'), idx), st.tuples(st.just('na'), tn),
            st.tuples(st.just('case'), idx, idx, st.lists(st.tuples(idx, idx), max_size=2), st.one_of(st.none(), idx)),
            st.tuples(st.just('not'), idx), st.tuples(st.just('and'), idx, idx), st.tuples(st.just('or'), idx, idx),
            st.tuples(st.just('concat'), idx, idx), st.tuples(st.just('tostr'), idx),
        )
        alts = [numeric, numeric, coll, structs, cond, mixed]
        if depth < 2:
            alts.append(st.one_of(
                st.tuples(st.just('map'), idx, body), st.tuples(st.just('filter'), idx, body),
                st.tuples(st.just('flatmap'), idx, body), st.tuples(st.just('fold'), idx, idx, body),
                st.tuples(st.just('bind'), st.tuples(idx, idx), body), st.tuples(st.just('sorted'), idx, body),
                wfold_op(body),
            ))
        return st.lists(st.one_of(*alts), min_size=lo, max_size=hi)

    prog = st.fixed_dictionaries({'ops': ops(0, 1, 6)})
    k12 = st.integers(1, 2)

    # field names: the escaping-stress pool restricted to the BMP (escape_id of astral characters is C31's finding)
    bmp = [nm for nm in hailgen.NAME_POOL if all(ord(ch) <= 0xFFFF for ch in nm)]
    names = st.one_of(st.sampled_from(bmp), st.sampled_from(['a', 'b', 'x1', 'c c', 'd`', 'idx', 'k']))
    tkw = dict(names=names, rgs=hailgen.rg_names_strategy(stress=False))
    lit_case = hailgen.cases(6, np_scalars=not _known_numpy_width(), **tkw).map(lambda c: dict(c, kind='lit'))
    expr_case = st.fixed_dictionaries({
        'kind': st.just('expr'),
        'lits': st.lists(hailgen.cases(4, ndarrays=False, **tkw), max_size=2),
        'ops': ops(0, 4, 18),
        'roots': st.lists(st.sampled_from([0, 0, 1, 2, 3, 5]), min_size=1, max_size=3),
    })
    tstep = st.one_of(
        st.tuples(st.just('annotate'), prog, k12, salt), st.tuples(st.just('annotate'), prog, k12, salt),
        st.tuples(st.just('transmute'), prog, k12, salt), st.tuples(st.just('select'), mask, prog, k12, salt),
        st.tuples(st.just('drop'), mask), st.tuples(st.just('key_by'), mask, salt), st.tuples(st.just('key_by'), mask, salt),
        st.tuples(st.just('key_by_expr'), prog, salt), st.tuples(st.just('filter'), prog),
        st.tuples(st.just('annotate_globals'), prog, k12, salt), st.tuples(st.just('distinct')),
        st.tuples(st.just('group_agg'), mask, prog, st.integers(0, 7)), st.tuples(st.just('join'), small, prog, salt),
        st.tuples(st.just('join'), small, prog, salt), st.tuples(st.just('join'), small, prog, salt),
        st.tuples(st.just('index'), small, prog, prog, salt),
    )
    table_case = st.fixed_dictionaries({'kind': st.just('table'), 'n': st.integers(0, 6),
                                        'steps': st.lists(tstep, min_size=1, max_size=6)})
    mstep = st.one_of(
        st.tuples(st.just('annotate_rows'), prog, k12, salt), st.tuples(st.just('annotate_cols'), prog, k12, salt),
        st.tuples(st.just('annotate_entries'), prog, k12, salt), st.tuples(st.just('annotate_entries'), prog, k12, salt),
        st.tuples(st.just('annotate_globals'), prog, k12, salt),
        st.tuples(st.just('select_rows'), mask, prog, k12, salt), st.tuples(st.just('select_cols'), mask, prog, k12, salt),
        st.tuples(st.just('select_entries'), mask, prog, k12, salt),
        st.tuples(st.just('key_rows_by'), mask), st.tuples(st.just('key_cols_by'), mask),
        st.tuples(st.just('key_cols_by_expr'), prog, salt),
        st.tuples(st.just('filter_rows'), prog), st.tuples(st.just('filter_cols'), prog), st.tuples(st.just('filter_entries'), prog),
        st.tuples(st.just('agg_rows'), prog, salt), st.tuples(st.just('agg_cols'), prog, salt),
    )
    to_table = st.sampled_from([('rows',), ('cols',), ('entries',), ('entries',)])
    matrix_case = st.builds(
        lambda r, c, ms, conv, ts: {'kind': 'matrix', 'r': r, 'c': c, 'steps': ms + ([conv] + ts if conv else [])},
        st.integers(0, 4), st.integers(0, 3), st.lists(mstep, min_size=1, max_size=5), st.one_of(st.none(), to_table),
        st.lists(tstep, max_size=2))
    # the 'mix' shards: the same two dialects with the mixed-member ops last, so that they ARE the outputs
    mixops = st.lists(mixed, min_size=1, max_size=3)
    mix_expr = st.builds(lambda pre, ms: {'kind': 'expr', 'lits': [], 'ops': pre + ms, 'roots': list(range(len(ms)))},
                         ops(1, 0, 4), mixops)
    mix_table = st.builds(
        lambda n, pre, ms, sa, more: {'kind': 'table', 'n': n,
                                      'steps': [['annotate', {'ops': pre + ms}, len(ms), sa]] + more},
        st.integers(0, 6), ops(1, 0, 3), mixops, st.sampled_from([0, 1, 3, 4, 6]),      # salts that never name the key 'idx'
        st.lists(tstep, max_size=2))
    mix_matrix = st.builds(
        lambda r, c, which, pre, ms, sa: {'kind': 'matrix', 'r': r, 'c': c,
                                          'steps': [[which, {'ops': pre + ms}, len(ms), sa]]},
        st.integers(0, 4), st.integers(0, 3), st.sampled_from(['annotate_entries', 'annotate_rows', 'annotate_cols']),
        ops(1, 0, 3), mixops, salt)
    mix_case = st.one_of(mix_expr, mix_expr, mix_table, mix_table, mix_matrix)
    # the 'fold' shards: widening folds / scans last, so that they ARE the outputs (closed, over row fields, over entry fields)
    leaf_body = st.fixed_dictionaries({'ops': ops(2, 0, 3), 'ret': st.sampled_from([0, 0, 1, 2])})
    foldops = st.lists(wfold_op(leaf_body), min_size=1, max_size=3)
    fold_expr = st.builds(lambda pre, fs: {'kind': 'expr', 'lits': [], 'ops': pre + fs, 'roots': list(range(len(fs)))},
                          ops(1, 0, 4), foldops)
    fold_table = st.builds(
        lambda n, pre, fs, sa, more: {'kind': 'table', 'n': n,
                                      'steps': [['annotate', {'ops': pre + fs}, len(fs), sa]] + more},
        st.integers(0, 6), ops(1, 0, 3), foldops, st.sampled_from([0, 1, 3, 4, 6]), st.lists(tstep, max_size=1))
    fold_matrix = st.builds(
        lambda r, c, which, pre, fs, sa: {'kind': 'matrix', 'r': r, 'c': c,
                                          'steps': [[which, {'ops': pre + fs}, len(fs), sa]]},
        st.integers(0, 4), st.integers(0, 3), st.sampled_from(['annotate_entries', 'annotate_rows', 'annotate_cols']),
        ops(1, 0, 3), foldops, salt)
    fold_case = st.one_of(fold_expr, fold_expr, fold_table, fold_matrix)
    return dict(lit=lit_case, expr=expr_case, table=table_case, matrix=matrix_case, mix=mix_case, fold=fold_case)


def _jsonable(case):
    import json
    return json.loads(json.dumps(case))


SEED_CASES = [
    # impute_type unifies a numpy float32 scalar and a Python float to float64, which then rejects the float32 scalar
    {'kind': 'lit', 't': ['array', 'float32'], 'v': ['list', [['np', (0.5).hex()], (0.5).hex()]]},
    {'kind': 'expr', 'lits': [], 'roots': [0, 1],
     'ops': [['lit', 'i64', 3], ['div', '/', 0, 1], ['lit', 'i32', 2], ['div', '/', 0, 0], ['struct', [0, 1]],
             ['annotate', 0, [1, 2], 0], ['nest', 0, 0, 0, 0]]},
    # mixed numeric members: nested list of int64 expr / numpy int32 / Python float / None under a struct field next to a set
    # of bool and int32 members, a dict with mixed keys and values, and a reflected operator
    {'kind': 'expr', 'lits': [], 'roots': [0, 1, 2],
     'ops': [['mix', ['R', [['L', ['L', ['n'], 2], 2], ['S', ['n'], 3]], 0],
              [['i64', 'e', 2], ['i32', 'np', 1], ['f64', 'py', 3], ['i32', 'none', 0], ['b', 'e', 1], ['i32', 'p', 0],
               ['i32', 'py', 5]], 0, 0],
             ['mix', ['D', ['n'], ['n'], 2], [['i32', 'e', 1], ['f64', 'e', 2], ['i64', 'c', 0], ['b', 'py', 1]], 0, 0],
             ['uni', '-', [['f64', 'py', 3], ['i64', 'e', 2]], 0]]},
    {'kind': 'table', 'n': 4, 'steps': [['annotate', {'ops': [['div', '/', 0, 0], ['bin', '+', 0, 1]]}, 2, 0],
                                        ['key_by', 2, 0], ['annotate', {'ops': [['lit', 'f64', 3]]}, 1, 0],
                                        ['group_agg', 2, {'ops': [['bin', '*', 0, 0]]}, 7]]},
    {'kind': 'matrix', 'r': 2, 'c': 2, 'steps': [['annotate_entries', {'ops': [['bin', '+', 0, 1]]}, 1, 0],
                                                 ['annotate_rows', {'ops': [['div', '/', 0, 0]]}, 1, 1],
                                                 ['key_cols_by_expr', {'ops': [['tostr', 0]]}, 2], ['entries']]},
]


def plan(tier):
    q = tier == 'quick'
    specs = [dict(kind='seeds')]
    specs += [dict(kind='lit', n=300 if q else 4000) for _ in range(2)]
    specs += [dict(kind='expr', n=300 if q else 3000) for _ in range(5)]
    specs += [dict(kind='table', n=200 if q else 2000) for _ in range(5)]
    specs += [dict(kind='matrix', n=160 if q else 1500) for _ in range(3)]
    specs += [dict(kind='mix', n=300 if q else 3000) for _ in range(2)]
    specs += [dict(kind='fold', n=250 if q else 2500) for _ in range(2)]
    return specs


def run_shard(spec, seed, tier):
    res = Result()
    _env()
    if spec['kind'] == 'seeds':
        for case in SEED_CASES:
            nt, classes, fails = run_case(case)
            res.case(case, nt, classes + ['seed_case'])
            for sig, cl, msg in fails:
                res.fail(sig, cl, msg, case)
        return res
    strat = _strategies()[spec['kind']]
    from vlib.hyp import search
    search(res, PROPERTY, strat, lambda c: run_case(_jsonable(c)), spec['n'], seed, shrink=True, to_json=_jsonable)
    res.skipped_ops = STATS['skipped_ops']
    res.notes.update({'ops_applied': STATS['ops'], 'ops_rejected_by_frontend': STATS['rejected'],
                      'ir_nodes_compared': STATS['nodes_compared'], 'refs_compared': STATS['refs_compared'],
                      'widening_folds_tried': STATS['wfold_tried'], 'widening_folds_built': STATS['wfold_built'],
                      'widening_folds_checked_on_their_own': STATS['wfold_checked_at_construction'],
                      'mixed_numeric_constructions': STATS['mix_built'],
                      'mixed_numeric_constructions_checked_on_their_own': STATS['mix_checked_at_construction'],
                      'numpy_scalars_replaced_by_guard': STATS['numpy_scalars_replaced_by_guard'],
                      'numpy_bools_in_expression_free_containers_replaced': STATS['numpy_bools_replaced'],
                      'array_contains_items_given_the_element_type': STATS['array_contains_items_retyped']})
    return res


def replay(case):
    _env()
    _, _, fails = run_case(case)
    return [dict(signature=s, clause=c, message=m, case=case) for s, c, m in fails]
