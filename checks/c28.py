"""C28 — usernames and credential secret names are validated exactly.

Targets (real code): auth.auth_utils.is_valid_username (rejects by returning False),
auth.auth_utils.validate_credentials_secret_name_input (rejects by raising AuthUserError, accepts by returning None, None is
"no secret name" and is accepted) and the production call path auth.auth.insert_new_user -> check_valid_new_user (rejects by
raising an AuthUserError subclass which the handlers turn into a 4xx / flash message) driven with an in-memory fake transaction.
"""
from __future__ import annotations

import itertools
import json
import os
import subprocess
import sys
import tempfile

from vlib import hostenv
from vlib.runner import Result, case_hash

PROPERTY = 'C28'
LEVEL = 'exploration'
RULE = ('(i) exhaustive: every string of length 0..5 over the 12-symbol alphabet {a z 0 9 - . A \\n e-acute arabic-indic-3 '
        'superscript-2 space} (271 453 strings) plus None; (ii) Hypothesis: a string accepted by the grammar (labels [a-z0-9]+ '
        'joined by single "-" (username) or "-"/"." (secret name), up to 70 chars) with 0-2 edits: insert/replace/delete/'
        'duplicate a char, append or prepend a control / non-ASCII / upper-case / separator char; (iii) thorough: atheris on '
        'UTF-8 bytes. Every string is given to is_valid_username, validate_credentials_secret_name_input and to '
        'insert_new_user (username position and secret-name position). Oracle: hand-written recognisers, accept/reject '
        'compared in both directions; the call path must agree with the direct function. '
        'Non-trivial: the string is rejected by a recogniser but is one edit (insert/delete/replace one char) away from a '
        'string it accepts, or the string contains a non-ASCII or control character; distinct by string.')
ASSUMPTIONS = ['no length limit is part of the stated languages (RFC-1123 63/253 limits are not in the property statement)',
               'inputs are str (or None for the secret name); other types are rejected earlier by check_valid_new_user']
TRUSTED = ['reference recognisers ref_username/ref_secret_name in checks/c28.py (character loops, no regex)',
           'fake transaction object standing in for gear.Database on the insert_new_user call path']

ALPHABET = ['a', 'z', '0', '9', '-', '.', 'A', '\n', '\xe9', '\u0663', '\xb2', ' ']
ALNUM = frozenset('abcdefghijklmnopqrstuvwxyz0123456789')
JUNK = ['\n', '\r', '\t', '\x00', '\x0b', '\x0c', '\x1c', '\x1f', '\x7f', '\x85', '\xa0', '\u2028', '\u2029', ' ', 'A', 'Z',
        '\xe9', '\xdf', '\xaa', '\xb5', '\u0663', '\xb2', '\uff11', '\uff41', '_', '/', '-', '.', '--', '..', '-.',
        '.-', 'a', '0', '\r\n', '\n\n', '\u01c6', '\u2170', '\U0001d41a', '\u09e9', '\u0131', '%0a', '\\n', '\u200b', '\xad']
CONTROL = ['\n', '\r', '\t', '\x00', '\x0b', '\x0c', '\x1c', '\x1d', '\x1e', '\x1f', '\x7f', '\x85', '\u2028', '\u2029', '\r\n']


# ----------------------------------------------------------------------------------------------- reference recognisers
def _labels(s, seps):
    """True iff s is one or more non-empty runs of [a-z0-9] joined by exactly one char of `seps`."""
    if not isinstance(s, str) or len(s) == 0:
        return False
    prev_sep = True                      # virtual separator before the first char: a leading separator is rejected
    for ch in s:
        if ch in ALNUM:
            prev_sep = False
        elif ch in seps:
            if prev_sep:
                return False
            prev_sep = True
        else:
            return False
    return not prev_sep                  # trailing separator rejected


def ref_username(s):
    return _labels(s, '-')


def ref_secret_name(s):
    if s is None:
        return True
    return _labels(s, '-.')


def _near(ref, s):
    """s is within one edit of a string accepted by ref (class representatives a / - / . suffice for the two languages)."""
    n = len(s)
    for i in range(n):
        if ref(s[:i] + s[i + 1:]):
            return True
    for r in ('a', '-', '.'):
        for i in range(n):
            if s[i] != r and ref(s[:i] + r + s[i + 1:]):
                return True
        for i in range(n + 1):
            if ref(s[:i] + r + s[i:]):
                return True
    return False


def _odd_chars(s):
    ctrl = nonascii = False
    for ch in s:
        o = ord(ch)
        if o > 127:
            nonascii = True
            if o < 0xa0 or ch in '\u2028\u2029':
                ctrl = True
        elif o < 32 or o == 127:
            ctrl = True
    return ctrl, nonascii


def classify(s):
    """-> (nontrivial, classes)"""
    if s is None:
        return False, ['none']
    ctrl, nonascii = _odd_chars(s)
    ru, rs = ref_username(s), ref_secret_name(s)
    cls = ['u_accept' if ru else 'u_reject', 's_accept' if rs else 's_reject']
    if ctrl:
        cls.append('has_control')
    if nonascii:
        cls.append('has_nonascii')
    if s.endswith('\n'):
        cls.append('trailing_newline')
    if len(s) > 20:
        cls.append('len_gt_20')
    near = False
    if (not ru and _near(ref_username, s)) or (not rs and _near(ref_secret_name, s)):
        near = True
        cls.append('one_edit_from_accepted')
    return (near or ctrl or nonascii), cls


# ------------------------------------------------------------------------------------------------------- code under test
_fns = None


class _Tx:
    async def execute_and_fetchall(self, sql, args=None):
        return
        yield  # pragma: no cover  (async generator with no rows: no existing user)

    async def execute_insertone(self, sql, args=None):
        return 1


class _TxExisting(_Tx):
    """the users table already holds the very user the (re-delivered) create request names"""
    def __init__(self, username):
        self.username = username

    async def execute_and_fetchall(self, sql, args=None):
        yield {'id': 7, 'state': 'active', 'username': self.username, 'login_id': 'login@x.org', 'is_developer': 0, 'is_service_account': 0,
               'hail_identity': None, 'hail_credentials_secret_name': None}


class _Ctx:
    def __init__(self, tx=None):
        self.tx = tx

    async def __aenter__(self):
        return self.tx or _Tx()

    async def __aexit__(self, *a):
        return False


class _Db:
    def __init__(self, existing=None):
        self.existing = existing

    def start(self, read_only=False):
        return _Ctx(_TxExisting(self.existing) if self.existing else None)


def _drive(coro):
    try:
        coro.send(None)
    except StopIteration as e:
        return e.value
    coro.close()
    raise RuntimeError('call path suspended on a real await; the fake transaction is incomplete')


def fns():
    global _fns
    if _fns is None:
        hostenv.prepare_services()
        from auth import auth_utils
        from auth.exceptions import AuthUserError, InvalidUsername
        try:
            import auth.auth as A
        except Exception as e:      # pragma: no cover
            raise RuntimeError(f'cannot import auth.auth: {e!r}')
        _fns = dict(user=auth_utils.is_valid_username, secret=auth_utils.validate_credentials_secret_name_input,
                    AuthUserError=AuthUserError, InvalidUsername=InvalidUsername, insert=A.insert_new_user, db=_Db())
    return _fns


def repo_username(s):
    """-> ('accept'|'reject'|'raise', detail)"""
    f = fns()
    try:
        r = f['user'](s)
    except Exception as e:
        return 'raise', f'{type(e).__name__}: {e}'
    if r is True:
        return 'accept', ''
    if r is False:
        return 'reject', ''
    return 'raise', f'non-bool result {r!r}'


def repo_secret(s):
    f = fns()
    try:
        r = f['secret'](s)
    except f['AuthUserError']:
        return 'reject', ''
    except Exception as e:
        return 'raise', f'{type(e).__name__}: {e}'
    return ('accept', '') if r is None else ('raise', f'unexpected return {r!r}')


def repo_path(username, secret):
    """insert_new_user(db, username, login, False, False, hail_credentials_secret_name=secret) with no existing users."""
    f = fns()
    try:
        r = _drive(f['insert'](f['db'], username, 'login@x.org', False, False, hail_credentials_secret_name=secret))
    except f['AuthUserError'] as e:
        return 'reject', type(e).__name__
    except Exception as e:
        return 'raise', f'{type(e).__name__}: {e}'
    return ('accept', '') if r is True else ('raise', f'unexpected return {r!r}')


def repo_path_existing(username, secret):
    """the same create request delivered again: the user row exists already (duplicate delivery / retry)"""
    f = fns()
    try:
        r = _drive(f['insert'](_Db(existing=username), username, 'login@x.org', False, False, hail_credentials_secret_name=secret))
    except f['AuthUserError'] as e:
        return 'reject', type(e).__name__
    except Exception as e:
        return 'raise', f'{type(e).__name__}: {e}'
    return ('accept', '') if r in (True, False) else ('raise', f'unexpected return {r!r}')


def check_one(s):
    """-> list of (signature, clause, message)"""
    out = []
    # --- secret name
    got, det = repo_secret(s)
    want = 'accept' if ref_secret_name(s) else 'reject'
    if got == 'raise':
        out.append((f'secret-name-raises-{det.split(":")[0]}', 'validator rejects by AuthUserError only',
                    f'validate_credentials_secret_name_input({s!r}) -> {det}'))
    elif got != want:
        if got == 'accept':
            if s.endswith('\n') and ref_secret_name(s[:-1]):
                sig = 'secret-name-accepts-trailing-newline'
            else:
                sig = 'secret-name-accepts-invalid'
        else:
            sig = 'secret-name-rejects-valid'
        out.append((sig, 'a credentials secret name is accepted exactly when it is labels [a-z0-9]+ joined by single . or -',
                    f'validate_credentials_secret_name_input({s!r}) {got}s; the stated language says {want}'))
    if got != 'raise':
        pg, pd = repo_path('validuser', s)
        if pg != got:
            out.append(('secret-name-call-path-differs', 'insert_new_user applies the secret-name validator',
                         f'insert_new_user(..., hail_credentials_secret_name={s!r}) {pg} {pd}; validator alone {got}'))
        pg, pd = repo_path_existing('validuser', s)
        if pg != got:
            out.append(('secret-name-call-path-differs-existing-user', 'insert_new_user applies the secret-name validator whatever the users table holds',
                         f'insert_new_user(..., hail_credentials_secret_name={s!r}) for an already existing user {pg} {pd}; validator alone {got}'))
    if s is None:
        return out
    # --- username
    got, det = repo_username(s)
    want = 'accept' if ref_username(s) else 'reject'
    if got == 'raise':
        out.append((f'username-raises-{det.split(":")[0]}', 'is_valid_username returns a bool', f'is_valid_username({s!r}) -> {det}'))
    elif got != want:
        if got == 'accept':
            ctrl, nonascii = _odd_chars(s)
            sig = ('username-accepts-non-ascii' if nonascii else 'username-accepts-control-char' if ctrl
                   else 'username-accepts-invalid')
        else:
            sig = 'username-rejects-valid'
        out.append((sig, 'a username is accepted exactly when it is non-empty [a-z0-9-] with single interior hyphens',
                    f'is_valid_username({s!r}) {got}s; the stated language says {want}'))
    if got != 'raise':
        pg, pd = repo_path(s, None)
        if pg != got:
            out.append(('username-call-path-differs', 'check_valid_new_user applies is_valid_username',
                         f'insert_new_user(username={s!r}) {pg} {pd}; is_valid_username alone {got}'))
    return out


# ------------------------------------------------------------------------------------------------------------- plan / run
def plan(tier):
    specs = [dict(kind='exh', first=i) for i in range(len(ALPHABET))]
    n = 3000 if tier == 'quick' else 50000
    for k in ('hyp_user', 'hyp_secret', 'hyp_two', 'hyp_text'):
        specs.append(dict(kind=k, n=n))
    if tier == 'thorough':
        for i in range(4):
            specs.append(dict(kind='atheris', runs=2000000, idx=i))
    return specs


def _exhaustive(res, first):
    res.exhaustive = True
    local = {}
    todo = []
    if first == 0:
        todo += [None, '']
    c0 = ALPHABET[first]
    for ln in range(0, 5):
        for tail in itertools.product(ALPHABET, repeat=ln):
            todo.append(c0 + ''.join(tail))
    for s in todo:
        fl = check_one(s)
        nt, cls = classify(s)
        res.evaluations += 1
        if nt:
            res.nontrivial_extra += 1          # distinct by construction (enumeration without repetition)
            if len(res.samples) < 3 and res.nontrivial_extra % 5003 == 1:
                res.samples.append(s)
        for c in cls:
            local[c] = local.get(c, 0) + 1
        for sig, cl, m in fl:
            res.fail(sig, cl, m, s)
    for k, v in local.items():
        res.count(k, v)
    res.count('exhaustive_strings', len(todo))


def _strategies():
    from hypothesis import strategies as st
    label = st.text(alphabet=sorted(ALNUM), min_size=1, max_size=12)

    def accepted(seps):
        @st.composite
        def build(draw):
            labels = draw(st.lists(label, min_size=1, max_size=9))
            s = labels[0]
            for lab in labels[1:]:
                s += draw(st.sampled_from(seps)) + lab
            s = s[:70]
            while s and s[-1] in '-.':
                s = s[:-1]
            return s
        return build()

    junk = st.sampled_from(JUNK)
    ctrl = st.sampled_from(CONTROL)

    def mutate(draw, s):
        mode = draw(st.integers(0, 8))
        if mode == 0:
            return s
        if mode == 1:
            p = draw(st.integers(0, len(s)))
            return s[:p] + draw(junk) + s[p:]
        if mode == 2 and s:
            p = draw(st.integers(0, len(s) - 1))
            return s[:p] + draw(junk) + s[p + 1:]
        if mode == 3 and s:
            p = draw(st.integers(0, len(s) - 1))
            return s[:p] + s[p + 1:]
        if mode == 4 and s:
            p = draw(st.integers(0, len(s) - 1))
            return s[:p] + s[p] + s[p:]
        if mode == 5:
            return s + draw(ctrl)
        if mode == 6:
            return draw(junk) + s
        if mode == 7 and s:
            p = draw(st.integers(0, len(s) - 1))
            return s[:p] + s[p].upper() + s[p + 1:]
        return s + draw(junk)

    def mutated(base, times):
        @st.composite
        def build(draw):
            s = draw(base)
            for _ in range(times):
                s = mutate(draw, s)
            return s
        return build()

    return dict(hyp_user=mutated(accepted(['-']), 1), hyp_secret=mutated(accepted(['-', '.', '.']), 1),
                hyp_two=mutated(accepted(['-', '.']), 2),
                hyp_text=st.one_of(st.text(max_size=12),
                                   st.text(alphabet=ALPHABET + ['b', '1', '\r', '\x00', '_'], max_size=70)))


def _chk(s):
    nt, cls = classify(s)
    return nt, cls, check_one(s)


def run_shard(spec, seed, tier):
    res = Result()
    kind = spec['kind']
    if kind == 'exh':
        _exhaustive(res, spec['first'])
    elif kind == 'atheris':
        _run_atheris(res, spec, seed)
    else:
        from vlib.hyp import search
        fns()
        search(res, PROPERTY, _strategies()[kind], _chk, spec['n'], seed, shrink=True)
    return res


def replay(case):
    return [dict(signature=sig, clause=cl, message=m, case=case) for sig, cl, m in check_one(case)]


# --------------------------------------------------------------------------------------------------------------- atheris
def _run_atheris(res, spec, seed):
    verif = os.path.dirname(os.path.dirname(os.path.abspath(__file__)))
    tmp = tempfile.mkdtemp(prefix='verif-c28-atheris-')
    try:
        corpus = os.path.join(tmp, 'corpus')
        os.makedirs(corpus)
        for i, s in enumerate(['a', 'abc-def', 'a.b-c', 'abc\n', 'a--b', 'A', '-', 'a\u0663', 'x.y.z9']):
            with open(os.path.join(corpus, f'seed{i}'), 'wb') as f:
                f.write(s.encode())
        out = os.path.join(tmp, 'out.json')
        env = dict(os.environ, PYTHONPATH=verif + os.pathsep + os.environ.get('PYTHONPATH', ''))
        cmd = [sys.executable, '-c', 'import checks.c28 as m; m._atheris_main()', out, f'-runs={spec["runs"]}',
               f'-seed={(seed % 0x7fffffff) or 1}', '-max_len=96', corpus]
        try:
            r = subprocess.run(cmd, cwd=verif, env=env, capture_output=True, text=True, timeout=1500)
        except Exception as e:
            res.notes['atheris_skipped'] = f'{type(e).__name__}: {e}'
            return
        if not os.path.exists(out):
            res.notes['atheris_skipped'] = ('atheris did not run: ' + (r.stderr or r.stdout)[-300:])
            return
        with open(out) as f:
            d = json.load(f)
        res.evaluations += d['evaluations']
        res.nontrivial.update(d['nontrivial'])
        for k, v in d['classes'].items():
            res.count(k, v)
        res.count('atheris_execs', d['evaluations'])
        res.samples.extend(d['samples'][:2])
        for fl in d['failures']:
            res.fail(fl['signature'], fl['clause'], fl['message'], fl['case'])
    finally:
        import shutil
        shutil.rmtree(tmp, ignore_errors=True)


def _atheris_main():
    hostenv.install()
    import atheris
    out = sys.argv[1]
    argv = [sys.argv[0]] + sys.argv[2:]
    with atheris.instrument_imports(include=['auth.auth_utils']):
        fns()
    state = dict(evaluations=0, nontrivial=set(), classes={}, samples=[], failures={})

    def dump():
        with open(out, 'w') as f:
            json.dump(dict(evaluations=state['evaluations'], nontrivial=sorted(state['nontrivial'])[:200000],
                           classes=state['classes'], samples=state['samples'],
                           failures=list(state['failures'].values())), f)
    runs = 0
    for a in argv:
        if a.startswith('-runs='):
            runs = int(a[6:])

    @atheris.instrument_func
    def target(data):
        s = data.decode('utf-8', 'replace')
        state['evaluations'] += 1
        fl = check_one(s)
        if len(s) <= 40 or fl:
            nt, cls = classify(s)
        else:
            ctrl, nonascii = _odd_chars(s)
            nt, cls = (ctrl or nonascii), ['len_gt_20']
        if nt and len(state['nontrivial']) < 200000:
            state['nontrivial'].add(case_hash(s))
            if len(state['samples']) < 3 and state['evaluations'] % 977 == 1:
                state['samples'].append(s)
        for c in cls:
            state['classes'][c] = state['classes'].get(c, 0) + 1
        for sig, cl, m in fl:
            old = state['failures'].get(sig)
            if old is None or len(s) < len(old['case']):
                state['failures'][sig] = dict(signature=sig, clause=cl, message=m, case=s)
        n = state['evaluations']
        if n % 20000 == 0 or n == runs or n == runs - 1:     # libFuzzer leaves through _exit: no atexit hook runs
            dump()

    atheris.Setup(argv, target)
    atheris.Fuzz()
