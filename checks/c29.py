"""C29 - post-login redirects stay on Hail hosts.

Real code: auth.auth.validate_next_page_url (accept = returns without raising; reject = web.HTTPBadRequest; any other
exception (urllib raises ValueError for some netlocs) aborts the handler with a 500 and is counted as a rejection).  The
callers (/login, /signup, /oauth2callback, /creating) substitute external_url('auth','/user') when no `next` is given and
later do `raise web.HTTPFound(next_page)` with the *unmodified* string, so what matters is where a browser goes when it is
handed that string in a Location header of a response from the auth service's own https origin.

Oracle: an independent WHATWG-URL-style resolver (whatwg_target) written from the URL Standard's state machine, not from
urllib: it never looks at urllib's result.
"""
from __future__ import annotations

import json
import os
import re
import subprocess
import sys
import tempfile
import unicodedata

from vlib import hostenv
from vlib.runner import Result, case_hash

PROPERTY = 'C29'
LEVEL = 'exploration'
RULE = ('next-URL strings composed from a component grammar  ws scheme slashes userinfo host port path query fragment ws  whose '
        'alternatives are the valid URLs of the batch/auth/ci/monitoring services and the known parser-differential tricks '
        '(userinfo @, ports, backslashes, extra/missing slashes, tab/LF/CR/C0 anywhere, percent-encodings, scheme case and '
        'exotic schemes, scheme-relative and path-relative forms, IDN/full-width dots and slashes, host prefix/suffix tricks, '
        'hosts inside query/fragment); (i) an exhaustive grid over reduced component lists, (ii) Hypothesis over the full '
        'lists with 0-3 further token insertions/deletions at arbitrary positions, (iii) thorough: atheris with a token '
        'dictionary. Two deployment configurations: default namespace (four service hosts) and a dev namespace (all four '
        'services under internal.<domain>). Oracle (one-directional): if validate_next_page_url returns, the WHATWG '
        'resolution of the string against the auth service origin has scheme http/https and a host in the configured set. '
        'Non-trivial: the input is ACCEPTED by the repo function and is not byte-equal to "https://<service host>" + a '
        'plain path; distinct by (config, string). '
        '(iv) request SEQUENCES of one browser through the real route handlers GET /login, /signup, /oauth2callback, /creating and '
        'POST /logout (taken from auth.auth.routes) over a stand-in for aiohttp_session whose middleware saves a changed session '
        'also when the handler raises web.HTTPException, a fake identity provider (google-like: code only; azure-like: state '
        'checked) and fake users/sessions rows: 1-3 login attempts, each = one or two /login|/signup starts with a `next` drawn '
        'from the same grammar (none, canonical, accepted-shaped, arbitrary, plainly foreign), optional /creating, /logout, '
        'cookie replay/drop, account activation in between, then the provider\'s answer for an active / creating / deleted / unknown '
        '/ other-organisation identity, then /creating visits. Oracle: EVERY 3xx Location the service emits other than the '
        'authorization URL the provider issued resolves (same WHATWG resolver) to http(s) on a configured host, whatever earlier '
        'requests of the session were answered (400, 401, 500 ...). A Location the validator itself accepts keeps the single-string '
        'signature; one it rejects is seq-redirect-to-unvalidated-url. Non-trivial sequence: a login flow completes with a redirect '
        'to `next` after a client-supplied next or after an error response.')
ASSUMPTIONS = ['browser behaviour = WHATWG URL Standard basic URL parser with the auth service https origin as base URL',
               'HAIL_DOMAIN=hail.test, location external; default namespace and one non-default namespace (dev)',
               'a host with a trailing dot or different case than configured is only compared after WHATWG host normalisation '
               '(lower-casing, percent-decoding, NFKC/IDNA dot mapping)']
ASSUMPTIONS += ['aiohttp_session (pinned 2.12.1) is not installed here and its source/docs cannot be consulted offline; the stand-in follows '
                'the package\'s middleware as I know it: `try: response = await handler(request) except web.HTTPException as exc: '
                'response = exc; raise_response = True` and then `if session._changed: await storage.save_session(request, response, '
                'session)` before re-raising - i.e. a session modified by a handler that then raises an HTTPException (400/401/302) '
                'IS saved; only a non-HTTP exception (500) loses it. Session.__setitem__/__delitem__/pop mark it changed; an empty '
                'session deletes the cookie',
                'the encrypted session cookie is modelled as an opaque handle: a client can keep, drop and replay any cookie it was ever '
                'given but cannot read or forge one',
                'a client can obtain a redeemable identity-provider code for any identity it controls and present it to /oauth2callback '
                '(GoogleFlow.receive_callback redeems request.query["code"] and never compares the state); the azure-like provider '
                'additionally requires the state of the stored flow',
                'the csrf and metrics middlewares are left out of the chain (they do not touch the session or `next`); the Location '
                'judged is the header value the installed aiohttp actually puts on web.HTTPFound']
TRUSTED = ['aiohttp_session stand-in, FakeDb (users/sessions rows behind the handlers\' statements), FakeFlow in checks/c29.py',
           'whatwg_target resolver in checks/c29.py (hand-written from the URL Standard; IDNA mapping approximated by NFKC + '
           'lower-case + ideographic-dot mapping + removal of ignorable code points)']

SERVICES = ['batch', 'auth', 'ci', 'monitoring']
DOMAIN = 'hail.test'
CONFIGS = {
    'default': dict(ns='default', hosts=[f'{s}.{DOMAIN}' for s in SERVICES], base_host=f'auth.{DOMAIN}',
                    prefixes=[f'https://{s}.{DOMAIN}' for s in SERVICES]),
    'dev': dict(ns='dev', hosts=[f'internal.{DOMAIN}'], base_host=f'internal.{DOMAIN}',
                prefixes=[f'https://internal.{DOMAIN}/dev/{s}' for s in SERVICES]),
}

# ------------------------------------------------------------------------------------------------ WHATWG-style resolver
_C0_SPACE = ''.join(chr(i) for i in range(0x21))
_ALPHA = frozenset('abcdefghijklmnopqrstuvwxyzABCDEFGHIJKLMNOPQRSTUVWXYZ')
_SCHEME_CHARS = _ALPHA | frozenset('0123456789+-.')
_SPECIAL = {'http', 'https', 'ftp', 'ws', 'wss', 'file'}
_FORBIDDEN_DOMAIN = frozenset([chr(i) for i in range(0x21)] + list('#/:<>?@[\\]^|%') + ['\x7f'])
_HEX = '0123456789abcdefABCDEF'
_IGNORED = frozenset(['\u00ad', '\u034f', '\u180b', '\u180c', '\u180d', '\u200b', '\u2060', '\u2064', '\ufeff'] +
                     [chr(c) for c in range(0xfe00, 0xfe10)])


def _percent_decode(s):
    b = bytearray()
    raw = s.encode('utf-8', 'surrogatepass')
    i = 0
    while i < len(raw):
        c = raw[i]
        if c == 0x25 and i + 2 < len(raw) and chr(raw[i + 1]) in _HEX and chr(raw[i + 2]) in _HEX:
            b.append(int(raw[i + 1:i + 3].decode(), 16))
            i += 3
        else:
            b.append(c)
            i += 1
    return bytes(b).decode('utf-8', 'replace')


def _host_special(h):
    """Host parser for special schemes -> canonical host string or None (failure)."""
    if h.startswith('['):
        return h.lower() if h.endswith(']') else None
    d = _percent_decode(h)
    d = ''.join(ch for ch in d if ch not in _IGNORED)
    d = unicodedata.normalize('NFKC', d).lower()
    d = d.replace('\u3002', '.').replace('\uff0e', '.').replace('\uff61', '.')
    d = unicodedata.normalize('NFKC', d)
    if d == '':
        return None
    for ch in d:
        if ch in _FORBIDDEN_DOMAIN:
            return None
    return d


def _authority(a, special):
    """a = text after the slashes.  -> host or None (failure)."""
    end = len(a)
    for i, ch in enumerate(a):
        if ch in '/?#' or (special and ch == '\\'):
            end = i
            break
    auth = a[:end]
    if '@' in auth:
        auth = auth[auth.rindex('@') + 1:]
        if auth == '':
            return None                      # host-missing failure
    # host ends at the first ':' outside brackets
    inside = False
    host = auth
    port = ''
    for i, ch in enumerate(auth):
        if ch == '[':
            inside = True
        elif ch == ']':
            inside = False
        elif ch == ':' and not inside:
            host, port = auth[:i], auth[i + 1:]
            break
    if port:
        if any(ch not in '0123456789' for ch in port) or int(port) > 65535:
            return None
    if special:
        if host == '':
            return None
        return _host_special(host)
    # opaque host: forbidden host code points (without %) fail, otherwise kept as is
    for ch in host:
        if ch in '\x00\t\n\r #/:<>?@[\\]^|':
            return None
    return host


def _skip_slashes(s):
    i = 0
    while i < len(s) and s[i] in '/\\':
        i += 1
    return s[i:]


def whatwg_target(inp, base_host):
    """Resolve `inp` the way the URL Standard does against base https://<base_host>/...  -> (scheme, host) ; host None = failure
    or no host."""
    s = inp.strip(_C0_SPACE)
    s = s.replace('\t', '').replace('\n', '').replace('\r', '')
    scheme = None
    rest = s
    if s and s[0] in _ALPHA:
        j = 1
        while j < len(s) and s[j] in _SCHEME_CHARS:
            j += 1
        if j < len(s) and s[j] == ':':
            scheme = s[:j].lower()
            rest = s[j + 1:]
    if scheme is None:
        return _relative(s, base_host)
    if scheme in _SPECIAL:
        if scheme == 'file':
            r = rest
            if r[:2] in ('//', '/\\', '\\/', '\\\\'):
                return 'file', _authority(r[2:], True) if r[2:3] not in ('/', '\\', '?', '#', '') else ''
            return 'file', ''
        if scheme == 'https':                      # same scheme as the base: "special relative or authority state"
            if rest.startswith('//'):
                return scheme, _authority(_skip_slashes(rest[2:]), True)
            return _relative(rest, base_host)
        # "special authority slashes state" -> "special authority ignore slashes state"
        return scheme, _authority(_skip_slashes(rest), True)
    # non-special scheme
    if rest.startswith('//'):
        return scheme, _authority(rest[2:], False)
    return scheme, None


def _relative(s, base_host):
    """relative state with the (special, https) base."""
    if s[:1] in ('/', '\\'):
        if s[1:2] in ('/', '\\'):                   # relative slash state -> special authority ignore slashes state
            return 'https', _authority(_skip_slashes(s[2:]), True)
        return 'https', base_host                   # path-absolute
    return 'https', base_host                       # path-relative, query-only, fragment-only, empty


# ------------------------------------------------------------------------------------------------------- code under test
_env = None


def env():
    global _env
    if _env is None:
        hostenv.prepare_services()
        import auth.auth as A
        from aiohttp import web
        from hailtop.config.deploy_config import DeployConfig
        cfgs = {}
        for name, c in CONFIGS.items():
            if name == 'default':
                dc = DeployConfig('external', 'default', DOMAIN, None)
            else:
                dc = DeployConfig('external', c['ns'], DOMAIN, None).with_default_namespace(c['ns'])
            for svc, pref in zip(SERVICES, c['prefixes']):
                got = dc.external_url(svc, '/x')
                if got != pref + '/x':
                    raise RuntimeError(f'deploy config for {name} gives {got!r}, the check expects {pref + "/x"!r}')
            cfgs[name] = dc
        if A.deploy_config.external_url('batch', '/') != 'https://batch.hail.test/':
            raise RuntimeError('hostenv deploy config is not the default-namespace hail.test configuration')
        _env = dict(A=A, web=web, cfgs=cfgs)
    return _env


def repo_accepts(cfg, url):
    """-> ('accept'|'reject'|'error', detail)"""
    e = env()
    A = e['A']
    saved = A.deploy_config
    A.deploy_config = e['cfgs'][cfg]
    try:
        try:
            r = A.validate_next_page_url(url)
        except e['web'].HTTPBadRequest:
            return 'reject', ''
        except Exception as ex:
            return 'error', type(ex).__name__
        return ('accept', '') if r is None else ('error', f'returned {r!r}')
    finally:
        A.deploy_config = saved


_PLAIN = re.compile(r'(/[A-Za-z0-9/_.\-]*)?\Z')


def is_canonical(cfg, url):
    for p in CONFIGS[cfg]['prefixes'] if cfg == 'dev' else [f'https://{h}' for h in CONFIGS[cfg]['hosts']]:
        if url.startswith(p) and _PLAIN.match(url[len(p):]):
            return True
    return False


def check_case(case):
    """case = {'cfg': name, 'url': str} -> (nontrivial, classes, failures)"""
    if case.get('seq'):
        return check_seq(case)
    cfg, url = case['cfg'], case['url']
    c = CONFIGS[cfg]
    got, det = repo_accepts(cfg, url)
    cls = [f'cfg_{cfg}']
    if got != 'accept':
        cls.append('rejected' if got == 'reject' else 'rejected_by_exception')
        return False, cls, []
    cls.append('accepted')
    fails = []
    scheme, host = whatwg_target(url, c['base_host'])
    canonical = is_canonical(cfg, url)
    if canonical:
        cls.append('accepted_canonical')
    s2 = url.strip(_C0_SPACE)
    if any(ch in url for ch in '\t\n\r') or s2 != url:
        cls.append('accepted_with_tab_lf_cr_or_c0')
    if s2.replace('\t', '').replace('\n', '').replace('\r', '')[:1] in ('/', '\\'):
        cls.append('accepted_scheme_relative')
    if '?' in url or '#' in url:
        cls.append('accepted_with_query_or_fragment')
    if '@' in url or 'evil' in url:
        cls.append('accepted_mentions_foreign_host_or_at')
    if scheme == 'http':
        cls.append('accepted_plain_http')
    if scheme not in ('http', 'https'):
        cls.append('accepted_other_scheme')
        fails.append(('accepts-non-http-scheme', 'an accepted next URL resolves to an http(s) URL',
                      f'validate_next_page_url({url!r}) returns (config {cfg}); a browser resolves it to scheme {scheme!r} '
                      f'host {host!r}: not a web navigation to a Hail host'))
    elif host is None:
        fails.append(('accepts-unparseable-url', 'an accepted next URL is one a browser can resolve',
                      f'validate_next_page_url({url!r}) returns (config {cfg}) but WHATWG parsing fails (no valid host)'))
    elif host not in c['hosts']:
        fails.append(('accepts-foreign-host', 'an accepted next URL resolves to one of the batch/auth/ci/monitoring hosts',
                      f'validate_next_page_url({url!r}) returns (config {cfg}); a browser goes to {scheme}://{host} which is '
                      f'not in {c["hosts"]}'))
    return (not canonical), cls, fails


# ---------------------------------------------------------------------------------------------------- component grammar
def components(cfg):
    hosts = CONFIGS[cfg]['hosts']
    h0 = hosts[0]
    full = dict(
        lead=['', '', '', ' ', '\t', '\n', '\r\n', '\x00', '\x0b', '\x1f', '\xa0', '\u3000', '\ufeff', '  \t'],
        scheme=['https:', 'https:', 'https:', 'http:', 'HTTPS:', 'hTtP:', '', '', 'javascript:', 'data:', 'ftp:', 'file:', 'ws:',
                'wss:', 'x:', 'a+b-c.d:', 'ht\ttps:', 'https :', ':', '1http:', 'blob:', 'view-source:', 'intent:', 'mailto:',
                'https:https:', 'https:http:', 'http:https:', 'ms-msdt:', 'JaVaScRiPt:', 'h\u0131ttp:', 'https\uff1a'],
        slashes=['//', '//', '//', '/', '', '///', '\\\\', '/\\', '\\/', '////', '/\t/', '/\n/', '\\', '/ /', '\uff0f\uff0f', '/\\/'],
        userinfo=['', '', '', '', 'user@', 'evil.com@', h0 + '@', 'a:b@', '@', 'evil.com\\@', 'evil.com#@', 'evil.com?@',
                  'evil.com/@', 'evil.com%40', 'evil.com\\\\@', 'evil.com:443@', 'evil.com\t@', '@@', 'evil.com\uff20',
                  'evil.com%2f@', 'evil.com\\.'],
        host=hosts + hosts + hosts + [h0.upper(), h0 + '.', 'evil.com', h0 + '.evil.com', 'evil' + h0, 'evil.com.' + h0,
                                       h0.replace('.', '\uff0e'), h0.replace('.', '\u3002', 1), h0.replace('a', '%61', 1),
                                       h0 + '%2eevil.com', '[::1]', '127.0.0.1', '', DOMAIN, 'www.' + DOMAIN,
                                       h0[:2] + '\t' + h0[2:], h0 + '\\.evil.com', 'evil.com\\' + h0,
                                       h0.replace('a', '\u0430', 1), h0 + '\x00', h0 + '\x00.evil.com', 'xn--80ak6aa92e.com',
                                       h0 + ' ', ' ' + h0, h0 + '\u2044evil.com', h0 + '\uff0fevil.com', h0 + '\uff03',
                                       '[' + h0 + ']', '[' + h0, h0 + '%00', h0 + ',evil.com', h0 + ';evil.com', h0 + '&evil.com',
                                       'evil.com\n' + h0, h0 + '\nevil.com', h0 + '\u00ad', h0.replace('t', '\u1d57', 1),
                                       '0x7f.1', h0 + '%ff'],
        port=['', '', '', ':443', ':80', ':', ':8080', ':x', ':65536', ':@evil.com', ':443@evil.com', ':\t443'],
        path=['', '/', '/batches/1', '/dev/batch/batches', '/\\evil.com', '//evil.com', '/@evil.com', '/..//evil.com',
              '/%2f%2fevil.com', '/a b', '/\t', '/\xe9', '\\evil.com', '\\\\evil.com', '/%0aalert(1)', '/.evil.com',
              '/\nevil.com', ';evil.com'],
        query=['', '', '?next=https://evil.com', '?@evil.com', '?//evil.com', '?', '?\\evil.com'],
        fragment=['', '', '#@evil.com', '#//evil.com', '#', '#\\@evil.com'],
        trail=['', '', '', ' ', '\n', '\t', '\x00', '\r\n '],
    )
    return full


def grid_components(cfg):
    hosts = CONFIGS[cfg]['hosts']
    h0 = hosts[0]
    return dict(
        scheme=['https:', 'http:', 'HTTPS:', '', 'javascript:', 'data:', 'ftp:', 'file:', 'wss:', 'x:', 'a+b-c.d:', 'ht\ttps:',
                ' https:', ':', '1http:', 'blob:', 'https:https:', 'http:https:', '\nhttp:', 'ms-msdt:', 'https :', '\x00'],
        slashes=['//', '/', '', '///', '\\\\', '/\\', '\\/', '/\t/', '\\', '////'],
        userinfo=['', 'user@', 'evil.com@', h0 + '@', 'evil.com\\@', 'evil.com#@', '@'],
        host=hosts + [h0.upper(), h0 + '.', 'evil.com', h0 + '.evil.com', 'evil' + h0, h0.replace('.', '\uff0e'),
                      h0.replace('a', '%61', 1), '', DOMAIN, h0[:2] + '\n' + h0[2:], h0 + '\\.evil.com', 'evil.com\\' + h0,
                      h0 + '\x00', h0 + ' ', '[' + h0, h0 + '\uff0fevil.com', 'evil.com/' + h0, 'evil.com?' + h0],
        port=['', ':@evil.com'],
        tail=['', '/batches/1?q=1#f', '/\\evil.com', '//evil.com/', '?@evil.com', '#@evil.com', '\\@evil.com', ' ', '/%0aalert(1)\n'],
    )


TOKENS = ['@', '\\', '/', ':', '#', '?', '%', '\t', '\n', '\r', '.', '%2e', '%2f', '%5c', '%40', '%00', '%09', '%0a', '\u2044',
          '\uff0f', '\uff20', '\uff1a', '\uff0e', '\u3002', '//', '\\\\', '/\\', 'evil.com', '.evil.com', 'evil.com@', '@evil.com',
          'https://', 'http://', 'javascript:', 'data:', '//evil.com', '\\evil.com', 'https:', ' ', '\x00', '\x0b', '[', ']',
          'batch.hail.test', 'auth.hail.test', 'ci.hail.test', 'monitoring.hail.test', 'internal.hail.test', 'hail.test', 'x', '1',
          ';', '&', '=', 'HTTPS://', '..', '\u202e', '\u00ad', '\u200b']


def plan(tier):
    specs = [dict(kind='grid', part=i, of=11) for i in range(11)]
    n = 4000 if tier == 'quick' else 60000
    specs.append(dict(kind='hyp', cfg='default', n=n, edits=1))
    specs.append(dict(kind='hyp', cfg='default', n=n, edits=3))
    specs.append(dict(kind='hyp', cfg='dev', n=n, edits=2))
    specs.append(dict(kind='hyp', cfg='default', n=n, edits=0))
    specs.append(dict(kind='hyp_accepted', cfg='default', n=n))
    specs.append(dict(kind='hyp_seq', cfg='default', n=n // 5))
    specs.append(dict(kind='hyp_seq', cfg='default', n=n // 5))
    specs.append(dict(kind='hyp_seq', cfg='dev', n=n // 5))
    if tier == 'thorough':
        for i in range(4):
            specs.append(dict(kind='atheris', runs=1500000, idx=i, cfg='default' if i < 3 else 'dev'))
    return specs


def _grid(res, part, of):
    import itertools
    res.exhaustive = True
    local = {}
    n = 0
    for cfg in ('default', 'dev'):
        g = grid_components(cfg)
        schemes = [s for i, s in enumerate(g['scheme']) if i % of == part]
        seen = set()
        for sc, sl, ui, h, po, tl in itertools.product(schemes, g['slashes'], g['userinfo'], g['host'], g['port'], g['tail']):
            url = sc + sl + ui + h + po + tl
            if url in seen:
                continue
            seen.add(url)
            case = dict(cfg=cfg, url=url)
            nt, cls, fl = check_case(case)
            n += 1
            res.evaluations += 1
            if nt:
                res.nontrivial_extra += 1       # distinct by construction: (cfg, url) deduplicated above, schemes partitioned
                if len(res.samples) < 3 and res.nontrivial_extra % 97 == 1:
                    res.samples.append(case)
            for c in cls:
                local[c] = local.get(c, 0) + 1
            for sig, cl, m in fl:
                res.fail(sig, cl, m, case)
    for k, v in local.items():
        res.count(k, v)
    res.count('grid_strings', n)


def _strategy(cfg, edits):
    from hypothesis import strategies as st
    comp = components(cfg)
    order = ['lead', 'scheme', 'slashes', 'userinfo', 'host', 'port', 'path', 'query', 'fragment', 'trail']
    hosts = CONFIGS[cfg]['hosts']
    canonical = dict(lead=st.just(''), scheme=st.sampled_from(['https:', 'https:', 'http:', '']), slashes=st.just('//'),
                     userinfo=st.just(''), host=st.sampled_from(hosts), port=st.just(''), path=st.sampled_from(comp['path']),
                     query=st.sampled_from(comp['query']), fragment=st.sampled_from(comp['fragment']), trail=st.just(''))
    perturbed = st.lists(st.sampled_from(order[:6] + ['trail']), max_size=3, unique=True)
    tok = st.sampled_from(TOKENS)

    @st.composite
    def build(draw):
        which = draw(perturbed)
        url = ''.join(draw(st.sampled_from(comp[k])) if k in which else draw(canonical[k]) for k in order)
        k = draw(st.integers(0, edits)) if edits else 0
        for _ in range(k):
            mode = draw(st.integers(0, 3))
            if mode <= 1 or not url:
                p = draw(st.integers(0, len(url)))
                url = url[:p] + draw(tok) + url[p:]
            elif mode == 2:
                p = draw(st.integers(0, len(url) - 1))
                url = url[:p] + url[p + 1:]
            else:
                p = draw(st.integers(0, len(url) - 1))
                url = url[:p] + draw(tok) + url[p + 1:]
        return dict(cfg=cfg, url=url)
    return build()


def _strategy_accepted(cfg):
    """Strings built to be accepted (valid authority) with free-form everything else: makes non-trivial cases dense."""
    from hypothesis import strategies as st
    comp = components(cfg)
    hosts = CONFIGS[cfg]['hosts']
    junk = st.text(alphabet=st.sampled_from(['\t', '\n', '\r']), max_size=2)
    tail = st.one_of(st.sampled_from(comp['path']), st.text(max_size=12).map(lambda t: '/' + t),
                     st.lists(st.sampled_from(TOKENS), max_size=5).map(lambda xs: '/' + ''.join(xs)))

    @st.composite
    def build(draw):
        scheme = draw(st.sampled_from(['https:', 'https:', 'https:', 'http:', 'http:', '', '', 'HTTPS:', 'hTTp:', 'HttpS:', 'x:',
                                       'javascript:', 'ftp:', 'wss:', 'a+b.c-d:', 'file:', 'data:', 'view-source:']))
        host = draw(st.sampled_from(hosts))
        s = scheme + '//' + host
        # sprinkle removable characters anywhere in the scheme/authority
        for _ in range(draw(st.integers(0, 2))):
            p = draw(st.integers(0, len(s)))
            s = s[:p] + draw(junk) + s[p:]
        lead = draw(st.sampled_from(['', '', ' ', '\x00\x1f', '\t ', '\n']))
        end = draw(st.sampled_from(['', '', '?' + 'x', '#@evil.com', '?//evil.com/', '/' + '\\evil.com']))
        return dict(cfg=cfg, url=lead + s + draw(tail) + draw(st.sampled_from(comp['query'])) + end)
    return build()


# ===================================================================================================== request sequences
# The validator is only half of the property: what a browser finally follows is the Location header of the redirect that ends a
# login flow, and the value redirected to travels through the cookie session between requests.  This part drives the REAL route
# handlers of auth.auth (looked up in auth.auth.routes by method and path) with generated request sequences of one browser.
SESSION_KEY = 'aiohttp_session'
STORAGE_KEY = 'aiohttp_session_storage'
COOKIE = 'gcp_session'
_CREATED = 1700000000


def _session_lib():
    """In-process stand-in for aiohttp_session 2.12 (absent here): Session with change tracking, get_session/new_session, a storage
    whose cookie value is an opaque handle of the JSON blob (stands for EncryptedCookieStorage: the client can keep, drop and
    replay cookies but not read or forge them), and the session middleware, which saves a changed session into the response ALSO
    WHEN THE HANDLER RAISES web.HTTPException (it catches the exception, saves, re-raises)."""
    import types
    from collections.abc import MutableMapping
    from aiohttp import web

    class Session(MutableMapping):
        def __init__(self, identity, *, data, new, max_age=None):
            self._changed = False
            self._mapping = {}
            self._identity = identity if data != {} else None
            self._new = new if data != {} else True
            self._max_age = max_age
            created = data.get('created') if data else None
            session_data = data.get('session') if data else None
            self._created = _CREATED if (self._new or created is None) else created
            if session_data is not None:
                self._mapping.update(session_data)

        new = property(lambda self: self._new)
        identity = property(lambda self: self._identity)
        created = property(lambda self: self._created)
        empty = property(lambda self: not bool(self._mapping))
        max_age = property(lambda self: self._max_age)

        def changed(self):
            self._changed = True

        def invalidate(self):
            self._changed = True
            self._mapping = {}

        def set_new_identity(self, identity):
            if not self._new:
                raise RuntimeError('Can\'t change identity for a session which is not new')
            self._identity = identity

        def __len__(self):
            return len(self._mapping)

        def __iter__(self):
            return iter(self._mapping)

        def __contains__(self, key):
            return key in self._mapping

        def __getitem__(self, key):
            return self._mapping[key]

        def __setitem__(self, key, value):
            self._mapping[key] = value
            self._changed = True
            self._created = _CREATED

        def __delitem__(self, key):
            del self._mapping[key]
            self._changed = True
            self._created = _CREATED

    class Storage:
        def __init__(self):
            self.blobs = {}
            self.saves_on_http_exception = 0

        async def load_session(self, request):
            tok = request.cookies.get(COOKIE)
            if tok is None or tok not in self.blobs:
                return Session(None, data=None, new=True)
            return Session(None, data=json.loads(self.blobs[tok]), new=False)

        async def new_session(self):
            return Session(None, data=None, new=True)

        async def save_session(self, request, response, session):
            if session.empty:
                response.del_cookie(COOKIE)
                return
            tok = f'c{len(self.blobs)}'
            self.blobs[tok] = json.dumps({'created': session.created, 'session': dict(session._mapping)})
            response.set_cookie(COOKIE, tok, secure=True, httponly=True, samesite='Lax')

    async def get_session(request):
        session = request.get(SESSION_KEY)
        if session is None:
            storage = request.get(STORAGE_KEY)
            if storage is None:
                raise RuntimeError('Install aiohttp_session middleware in your aiohttp.web.Application')
            session = await storage.load_session(request)
            request[SESSION_KEY] = session
        return session

    async def new_session(request):
        storage = request.get(STORAGE_KEY)
        if storage is None:
            raise RuntimeError('Install aiohttp_session middleware in your aiohttp.web.Application')
        session = await storage.new_session()
        request[SESSION_KEY] = session
        return session

    def session_middleware(storage):
        async def factory(request, handler):
            request[STORAGE_KEY] = storage
            raise_response = False
            try:
                response = await handler(request)
            except web.HTTPException as exc:
                response = exc
                raise_response = True
            if not isinstance(response, (web.Response, web.HTTPException)):
                return response                      # websocket / streaming
            session = request.get(SESSION_KEY)
            if session is not None and session._changed:
                if raise_response and response.status >= 400:
                    storage.saves_on_http_exception += 1
                await storage.save_session(request, response, session)
            if raise_response:
                raise response
            return response
        return factory

    lib = types.ModuleType('aiohttp_session')
    lib.Session, lib.get_session, lib.new_session, lib.session_middleware = Session, get_session, new_session, session_middleware
    lib.SESSION_KEY, lib.STORAGE_KEY, lib.Storage = SESSION_KEY, STORAGE_KEY, Storage
    lib.setup = lambda app, storage: app.middlewares.append(session_middleware(storage))
    return lib


class _UnsupportedSQL(Exception):
    pass


class FakeDb:
    """The users / sessions rows of the auth database behind the few statements the login handlers issue (anything else is a
    harness error, not a verdict)."""

    USER_COLS = ('id', 'state', 'username', 'login_id', 'display_name', 'is_developer', 'is_service_account',
                 'tokens_secret_name', 'hail_identity', 'hail_identity_uid', 'hail_credentials_secret_name', 'namespace_name',
                 'trial_bp_name', 'last_activated')

    def __init__(self, users):
        self.users = []
        self.sessions = {}
        for u in users:
            self._add_user(dict(u))

    def _add_user(self, row):
        full = {c: None for c in self.USER_COLS}
        full.update(is_developer=0, is_service_account=0)
        full.update(row)
        full['id'] = len(self.users) + 1
        self.users.append(full)
        return full['id']

    @staticmethod
    def _args(args):
        if args is None:
            return []
        return list(args) if isinstance(args, (tuple, list)) else [args]

    @staticmethod
    def _where(text, args):
        """col = %s | col = 'lit' | ( .. ) joined by AND / OR  ->  predicate over a users row"""
        toks = re.findall(r"\(|\)|\band\b|\bor\b|(?:users\.)?\w+\s*=\s*(?:%s|'[^']*')", text, re.I)
        if ''.join(toks).replace(' ', '').lower() != text.replace(' ', '').lower():
            raise _UnsupportedSQL(text)
        args = list(args)
        pos = [0]

        def atom():
            t = toks[pos[0]]
            pos[0] += 1
            if t == '(':
                f = disj()
                pos[0] += 1
                return f
            col, val = [x.strip() for x in t.split('=', 1)]
            col = col.split('.')[-1]
            v = args.pop(0) if val == '%s' else val[1:-1]
            return lambda r: r[col] is not None and r[col] == v

        def conj():
            fs = [atom()]
            while pos[0] < len(toks) and toks[pos[0]].lower() == 'and':
                pos[0] += 1
                fs.append(atom())
            return lambda r: all(f(r) for f in fs)

        def disj():
            fs = [conj()]
            while pos[0] < len(toks) and toks[pos[0]].lower() == 'or':
                pos[0] += 1
                fs.append(conj())
            return lambda r: any(f(r) for f in fs)
        return disj()

    def _run(self, sql, args):
        s = ' '.join(sql.split()).rstrip(';').strip()
        low = s.lower()
        args = self._args(args)
        if low.startswith('select') and 'inner join sessions' in low and 'sessions.session_id = %s' in low:
            sess = self.sessions.get(args[0])
            return [dict(u) for u in self.users if sess and u['id'] == sess['user_id'] and u['state'] == 'active']
        m = re.match(r'select (?:users\.)?\* from users where (.+?)(?: lock in share mode| for update)?$', s, re.I)
        if m:
            pred = self._where(m.group(1), args)
            return [dict(u) for u in self.users if pred(u)]
        m = re.match(r'insert into users \((.+?)\) values \((.+?)\)$', s, re.I)
        if m:
            cols = [c.strip(' `') for c in m.group(1).split(',')]
            if len(cols) != len(args):
                raise _UnsupportedSQL(s)
            return self._add_user(dict(zip(cols, args)))
        m = re.match(r'insert into sessions \((.+?)\) values \((.+?)\)$', s, re.I)
        if m:
            cols = [c.strip(' `') for c in m.group(1).split(',')]
            row = dict(zip(cols, args))
            self.sessions[row['session_id']] = row
            return None
        if re.match(r'update (users|sessions) set (last_activated|created) = ', s, re.I):
            return 1
        m = re.match(r'delete from sessions where session_id = %s$', s, re.I)
        if m:
            self.sessions.pop(args[0], None)
            return None
        raise _UnsupportedSQL(s)

    # gear.Database / Transaction surface used by the handlers
    async def select_and_fetchall(self, sql, args=None, query_name=None):
        for r in self._run(sql, args):
            yield r

    execute_and_fetchall = select_and_fetchall

    async def select_and_fetchone(self, sql, args=None, query_name=None):
        rows = self._run(sql, args)
        return rows[0] if rows else None

    execute_and_fetchone = select_and_fetchone

    async def just_execute(self, sql, args=None):
        self._run(sql, args)

    async def execute_insertone(self, sql, args=None, query_name=None):
        return self._run(sql, args)

    async def execute_update(self, sql, args=None, query_name=None):
        return self._run(sql, args)

    def start(self, read_only=False):
        db = self

        class _Ctx:
            async def __aenter__(self):
                return db

            async def __aexit__(self, *a):
                return False
        return _Ctx()


ORG = 'x.org'
IDP = 'https://idp.test/authorize'


class FakeFlow:
    """Identity provider + hailtop.auth.Flow.  kind 'google': the callback redeems the `code` only (GoogleFlow.receive_callback passes
    code= to fetch_token and never looks at the request's state); kind 'azure': the request's state must equal the stored flow's."""

    def __init__(self, kind):
        self.kind = kind
        self.issued = []            # authorization URLs handed out

    def organization_id(self):
        return ORG

    def initiate_flow(self, redirect_uri):
        state = f's{len(self.issued)}'
        url = f'{IDP}?state={state}'
        self.issued.append(url)
        return {'authorization_url': url, 'redirect_uri': redirect_uri, 'state': state}

    def receive_callback(self, request, flow_dict):
        from hailtop.auth.flow import FlowResult
        code = request.query['code']
        if not code.startswith('ok:'):
            raise ValueError('identity provider refused the code')
        if self.kind == 'azure' and request.query.get('state') != flow_dict['state']:
            raise ValueError('state mismatch')
        email = code[3:]
        return FlowResult(email, email, email.split('@')[1], {})

    @staticmethod
    async def get_identity_uid_from_access_token(session, access_token, *, oauth2_client):
        return None


_seq_env = None


def seq_env():
    global _seq_env
    if _seq_env is None:
        e = env()
        A = e['A']
        web = e['web']
        import gear.auth as GA
        import web_common.web_common as WC
        lib = _session_lib()
        for mod in (A, GA, WC):
            if hasattr(mod, 'aiohttp_session'):
                mod.aiohttp_session = lib
        aj = getattr(WC, 'aiohttp_jinja2', None)
        if isinstance(aj, hostenv.StubModule):          # jinja2 is absent: pages are rendered as their template name
            aj.render_template = lambda file, request, context, status=200: web.Response(text=file, status=status)
        table = {}
        for r in A.routes:
            if hasattr(r, 'handler') and hasattr(r, 'path'):
                table.setdefault((r.method.upper(), r.path), r.handler)
        need = [('GET', '/login'), ('GET', '/signup'), ('GET', '/oauth2callback'), ('GET', '/creating'), ('POST', '/logout')]
        missing = [k for k in need if k not in table]
        if missing:
            raise RuntimeError(f'auth.auth.routes has no handler for {missing}')
        _seq_env = dict(lib=lib, table=table, A=A, web=web)
    return _seq_env


class Browser:
    def __init__(self):
        self.cookies = {}
        self.history = [None]       # every session cookie value this browser has held (None = no cookie)
        self.seen_state = None


async def _serve(se, world, browser, method, path, query):
    """One request through  session middleware -> handler  (the csrf and metrics middlewares do not touch the session).
    -> (status, Location or None, saved_on_error: bool)"""
    import urllib.parse
    from aiohttp.test_utils import make_mocked_request
    web = se['web']
    qs = urllib.parse.urlencode(query, quote_via=urllib.parse.quote)
    headers = {'Host': 'auth.hail.test'}
    if browser.cookies:
        headers['Cookie'] = '; '.join(f'{k}={v}' for k, v in browser.cookies.items())
    request = make_mocked_request(method, path + ('?' + qs if qs else ''), headers=headers, app=world['app'])
    for k, v in query.items():
        if request.query.get(k) != v:
            return None, None, False                 # the string does not survive the query encoding: not a request a client can make
    before = world['storage'].saves_on_http_exception
    mw = se['lib'].session_middleware(world['storage'])
    try:
        response = await mw(request, se['table'][(method, path)])
    except web.HTTPException as exc:
        response = exc
    except _UnsupportedSQL:
        raise
    except Exception as exc:      # aiohttp answers 500; the session middleware does not save
        tb = exc.__traceback__
        while tb.tb_next is not None:
            tb = tb.tb_next
        if tb.tb_frame.f_code.co_filename == __file__:     # raised inside this file's stand-ins: a harness defect, not a 500
            raise
        return 500, None, False
    for name, morsel in response.cookies.items():
        if morsel.value == '' or str(morsel.get('max-age')) == '0':
            browser.cookies.pop(name, None)
        else:
            browser.cookies[name] = morsel.value
    cur = browser.cookies.get(COOKIE)
    if browser.history[-1] != cur:
        browser.history.append(cur)
    return response.status, response.headers.get('Location'), world['storage'].saves_on_http_exception > before


def _judge_location(case, cfgname, loc, where, fails, cls):
    """The single-string oracle applied to a Location the service emitted."""
    c = CONFIGS[cfgname]
    scheme, host = whatwg_target(loc, c['base_host'])
    if scheme in ('http', 'https') and host in c['hosts']:
        return True
    validator_accepts = repo_accepts(cfgname, loc)[0] == 'accept'
    if validator_accepts:
        # the validator itself lets this string through: that is the single-string part's finding, keep its signature
        sig = ('accepts-non-http-scheme' if scheme not in ('http', 'https') else
               'accepts-unparseable-url' if host is None else 'accepts-foreign-host')
        fails.append((sig, 'an accepted next URL resolves to one of the batch/auth/ci/monitoring hosts',
                      f'{where}: Location {loc!r} (config {cfgname}) is accepted by validate_next_page_url; a browser goes to '
                      f'{scheme}://{host}'))
    else:
        cls.add('seq_redirect_to_unvalidated_url')
        fails.append(('seq-redirect-to-unvalidated-url',
                      'every redirect that ends a login flow goes to a URL validate_next_page_url accepts and a browser resolves to a '
                      'Hail host, whatever requests the same browser session made before',
                      f'{where}: 3xx Location {loc!r} (config {cfgname}); validate_next_page_url rejects that string and a browser '
                      f'goes to {scheme}://{host}, not one of {c["hosts"]}'))
    return False


async def _run_seq(case):
    se = seq_env()
    A, web = se['A'], se['web']
    cfgname = case['cfg']
    saved_dc = A.deploy_config
    A.deploy_config = env()['cfgs'][cfgname]
    cls, fails = set(), []
    nontrivial = False
    try:
        app = web.Application()
        db = FakeDb(case['users'])
        flow = FakeFlow(case.get('flow', 'google'))
        app[A.AppKeys.DB] = db
        app[A.AppKeys.FLOW_CLIENT] = flow
        app[A.AppKeys.CLIENT_SESSION] = None
        app[A.AppKeys.HAILCTL_CLIENT_CONFIG] = {'installed': {'client_id': 'hailctl'}}
        world = dict(app=app, storage=se['lib'].Storage())
        browser = Browser()
        own = {A.deploy_config.external_url('auth', ''), A.deploy_config.external_url('auth', '/creating')}
        last_start = None           # (status of the latest /login or /signup, its next)
        had_error = False
        trace = []
        for i, op in enumerate(case['ops']):
            kind = op['op']
            if kind in ('login', 'signup'):
                q = {} if op.get('next') is None else {'next': op['next']}
                r = await _serve(se, world, browser, 'GET', '/' + kind, q)
            elif kind == 'idp':
                q = {'code': ('ok:' if op.get('ok', True) else 'no:') + op['who']}
                st_ = {'seen': browser.seen_state, 'wrong': 'zz', 'none': None}[op.get('state', 'seen')]
                if st_ is not None:
                    q['state'] = st_
                r = await _serve(se, world, browser, 'GET', '/oauth2callback', q)
            elif kind == 'creating':
                r = await _serve(se, world, browser, 'GET', '/creating', {})
            elif kind == 'logout':
                r = await _serve(se, world, browser, 'POST', '/logout', {})
            elif kind == 'activate':        # the driver finishes creating the account (environment step, not a request)
                for u in db.users:
                    if u['state'] == 'creating':
                        u['state'] = 'active'
                cls.add('seq_account_activated_between_requests')
                continue
            elif kind == 'cookie':          # the browser presents a session cookie it held earlier (or none)
                v = browser.history[op['k'] % len(browser.history)]
                if v is None:
                    browser.cookies.pop(COOKIE, None)
                else:
                    browser.cookies[COOKIE] = v
                cls.add('seq_cookie_replayed_or_dropped')
                continue
            else:
                raise ValueError(kind)
            status, loc, saved_on_error = r
            if status is None:
                cls.add('seq_op_skipped_query_not_encodable')
                continue
            trace.append(f'{kind}->{status}')
            cls.add(f'seq_{kind}_{status}')
            if saved_on_error:
                cls.add('seq_session_saved_with_error_response')
            if kind in ('login', 'signup'):
                if last_start is not None and status >= 400 and last_start[0] < 400:
                    cls.add('seq_rejected_start_after_accepted_start')
                last_start = (status, op.get('next'))
            if kind == 'idp' and last_start is not None and last_start[0] >= 400:
                cls.add('seq_callback_after_rejected_start')
            if loc is not None and 300 <= status < 400:
                if loc in flow.issued:
                    cls.add('seq_redirect_to_identity_provider')
                    browser.seen_state = loc.rsplit('=', 1)[-1]
                else:
                    ok = _judge_location(case, cfgname, loc, f'request #{i + 1} ({" ".join(trace)})', fails, cls)
                    if kind in ('idp', 'creating') and loc not in own:
                        cls.add('seq_flow_completed_redirect_to_next')
                        custom = any(o.get('next') is not None for o in case['ops'][:i] if o['op'] in ('login', 'signup'))
                        if custom:
                            cls.add('seq_flow_completed_custom_next')
                        if had_error:
                            cls.add('seq_flow_completed_after_error_response')
                        if kind == 'creating':
                            cls.add('seq_flow_completed_via_creating_page')
                        nontrivial = nontrivial or custom or had_error or not ok
            had_error = had_error or status >= 400
    finally:
        A.deploy_config = saved_dc
    cls.add(f'seq_cfg_{cfgname}')
    cls.add(f'seq_flow_{case.get("flow", "google")}')
    dedup = {}
    for f in fails:
        dedup.setdefault(f[0], f)
    return nontrivial, sorted(cls), list(dedup.values())


_seq_loop = None


def check_seq(case):
    global _seq_loop
    import asyncio
    if _seq_loop is None:
        _seq_loop = asyncio.new_event_loop()
    return _seq_loop.run_until_complete(_run_seq(case))


def _seq_strategy(cfg):
    from hypothesis import strategies as st
    url_any = _strategy(cfg, 2).map(lambda c: c['url'])
    url_acc = _strategy_accepted(cfg).map(lambda c: c['url'])
    hosts = CONFIGS[cfg]['hosts']
    plain = st.builds(lambda h, p: f'https://{h}{p}', st.sampled_from(hosts), st.sampled_from(['', '/', '/batches/1', '/user']))
    evil = st.sampled_from(['https://evil.com/', '//evil.com', 'https://evil.com/?https://' + hosts[0] + '/', 'javascript:alert(1)',
                            'https://' + hosts[0] + '.evil.com/', 'http://evil.com\\@' + hosts[0] + '/', '/\\evil.com'])
    nxt = st.one_of(st.none(), plain, plain, url_acc, url_any, url_any, evil)
    people = ['a@x.org', 'a@x.org', 'a@x.org', 'c@x.org', 'c@x.org', 'n@x.org', 'n@x.org', 'd@x.org', 'm@other.org']
    start = st.builds(lambda k, n: dict(op=k, next=n), st.sampled_from(['login', 'login', 'signup']), nxt)
    idp = st.builds(lambda w, ok, s: dict(op='idp', who=w, ok=ok, state=s), st.sampled_from(people),
                    st.sampled_from([True] * 7 + [False]), st.sampled_from(['seen'] * 6 + ['wrong', 'none']))
    other = st.one_of(st.just(dict(op='creating')), st.just(dict(op='activate')), st.just(dict(op='logout')),
                      st.builds(lambda k: dict(op='cookie', k=k), st.integers(0, 6)), start, idp)

    @st.composite
    def build(draw):
        ops = []
        for _ in range(draw(st.integers(1, 3))):
            # a login attempt: one or two starts (the later one may be answered differently), then the identity provider's answer
            ops.append(draw(start))
            if draw(st.integers(0, 2)) == 0:
                ops.append(draw(start))
            ops.extend(draw(st.lists(other, max_size=2)))
            ops.append(draw(idp))
            if draw(st.booleans()):
                ops.extend(draw(st.lists(st.sampled_from([dict(op='creating'), dict(op='activate'), dict(op='creating')]),
                                         min_size=1, max_size=3)))
        users = [dict(login_id='a@x.org', username='a', state='active'),
                 dict(login_id='c@x.org', username='c', state=draw(st.sampled_from(['creating', 'creating', 'active']))),
                 dict(login_id='d@x.org', username='d', state=draw(st.sampled_from(['deleted', 'deleting', 'inactive'])))]
        return dict(seq=True, cfg=cfg, flow=draw(st.sampled_from(['google', 'google', 'azure'])), users=users, ops=ops)
    return build()


def run_shard(spec, seed, tier):
    res = Result()
    env()
    kind = spec['kind']
    if kind == 'grid':
        _grid(res, spec['part'], spec['of'])
    elif kind == 'atheris':
        _run_atheris(res, spec, seed)
    else:
        from vlib.hyp import search
        strat = (_strategy_accepted(spec['cfg']) if kind == 'hyp_accepted' else _seq_strategy(spec['cfg']) if kind == 'hyp_seq'
                 else _strategy(spec['cfg'], spec['edits']))
        search(res, PROPERTY, strat, check_case, spec['n'], seed, shrink=True)
    return res


def replay(case):
    nt, cls, fl = check_case(case)
    return [dict(signature=sig, clause=cl, message=m, case=case) for sig, cl, m in fl]


# --------------------------------------------------------------------------------------------------------------- atheris
def _dict_entry(tok):
    return '"' + ''.join('\\x%02x' % b for b in tok.encode('utf-8')) + '"'


def _run_atheris(res, spec, seed):
    import shutil
    verif = os.path.dirname(os.path.dirname(os.path.abspath(__file__)))
    tmp = tempfile.mkdtemp(prefix='verif-c29-atheris-')
    try:
        cfg = spec['cfg']
        corpus = os.path.join(tmp, 'corpus')
        os.makedirs(corpus)
        seeds = [p + '/batches/1' for p in CONFIGS[cfg]['prefixes']] + ['//' + CONFIGS[cfg]['hosts'][0] + '/x?y#z',
                                                                         'http://' + CONFIGS[cfg]['hosts'][-1]]
        for i, s in enumerate(seeds):
            with open(os.path.join(corpus, f'seed{i}'), 'wb') as f:
                f.write(s.encode())
        dpath = os.path.join(tmp, 'tokens.dict')
        comp = components(cfg)
        toks = sorted(set(TOKENS + [t for k in comp for t in comp[k] if t]))
        with open(dpath, 'w') as f:
            for t in toks:
                f.write(_dict_entry(t) + '\n')
        out = os.path.join(tmp, 'out.json')
        envv = dict(os.environ, PYTHONPATH=verif + os.pathsep + os.environ.get('PYTHONPATH', ''))
        cmd = [sys.executable, '-c', 'import checks.c29 as m; m._atheris_main()', out, cfg, f'-runs={spec["runs"]}',
               f'-seed={(seed % 0x7fffffff) or 1}', '-max_len=160', f'-dict={dpath}', corpus]
        try:
            r = subprocess.run(cmd, cwd=verif, env=envv, capture_output=True, text=True, timeout=1500)
        except Exception as e:
            res.notes['atheris_skipped'] = f'{type(e).__name__}: {e}'
            return
        if not os.path.exists(out):
            res.notes['atheris_skipped'] = 'atheris did not run: ' + (r.stderr or r.stdout)[-300:]
            return
        with open(out) as f:
            d = json.load(f)
        res.evaluations += d['evaluations']
        res.nontrivial.update(d['nontrivial'])
        for k, v in d['classes'].items():
            res.count(k, v)
        res.count('atheris_execs', d['evaluations'])
        res.samples.extend(d['samples'][:2])
        for fl in d['failures']:
            res.fail(fl['signature'], fl['clause'], fl['message'], fl['case'])
    finally:
        shutil.rmtree(tmp, ignore_errors=True)


def _atheris_main():
    hostenv.install()
    import atheris
    out, cfg = sys.argv[1], sys.argv[2]
    argv = [sys.argv[0]] + sys.argv[3:]
    runs = 0
    for a in argv:
        if a.startswith('-runs='):
            runs = int(a[6:])
    with atheris.instrument_imports(include=['urllib.parse']):
        import urllib.parse  # noqa: F401
    env()
    state = dict(evaluations=0, nontrivial=set(), classes={}, samples=[], failures={})

    def dump():
        with open(out, 'w') as f:
            json.dump(dict(evaluations=state['evaluations'], nontrivial=sorted(state['nontrivial'])[:200000],
                           classes=state['classes'], samples=state['samples'],
                           failures=list(state['failures'].values())), f)

    @atheris.instrument_func
    def target(data):
        s = data.decode('utf-8', 'replace')
        case = dict(cfg=cfg, url=s)
        state['evaluations'] += 1
        nt, cls, fl = check_case(case)
        if nt and len(state['nontrivial']) < 200000:
            state['nontrivial'].add(case_hash(case))
            if len(state['samples']) < 3 and state['evaluations'] % 97 == 1:
                state['samples'].append(case)
        for c in cls:
            state['classes'][c] = state['classes'].get(c, 0) + 1
        for sig, cl, m in fl:
            old = state['failures'].get(sig)
            if old is None or len(s) < len(old['case']['url']):
                state['failures'][sig] = dict(signature=sig, clause=cl, message=m, case=case)
        n = state['evaluations']
        if n % 20000 == 0 or n == runs or n == runs - 1:     # libFuzzer leaves through _exit: no atexit hook runs
            dump()

    atheris.Setup(argv, target)
    atheris.Fuzz()
