"""C29 - post-login redirects stay on Hail hosts.

Real code: auth.auth.validate_next_page_url (accept = returns without raising; reject = web.HTTPBadRequest; any other
exception (urllib raises ValueError for some netlocs) aborts the handler with a 500 and is counted as a rejection).  The
callers (/login, /signup, /oauth2callback, /creating) substitute external_url('auth','/user') when no `next` is given and
later do `raise web.HTTPFound(next_page)` with the *unmodified* string, so what matters is where a browser goes when it is
handed that string in a Location header of a response from the auth service's own https origin.

Oracle: an independent WHATWG-URL-style resolver (whatwg_target) written from the URL Standard's state machine, not from
urllib: it never looks at urllib's result.
"""
from __future__ import annotations

import json
import os
import re
import subprocess
import sys
import tempfile
import unicodedata

from vlib import hostenv
from vlib.runner import Result, case_hash

PROPERTY = 'C29'
LEVEL = 'exploration'
RULE = ('next-URL strings composed from a component grammar  ws scheme slashes userinfo host port path query fragment ws  whose '
        'alternatives are the valid URLs of the batch/auth/ci/monitoring services and the known parser-differential tricks '
        '(userinfo @, ports, backslashes, extra/missing slashes, tab/LF/CR/C0 anywhere, percent-encodings, scheme case and '
        'exotic schemes, scheme-relative and path-relative forms, IDN/full-width dots and slashes, host prefix/suffix tricks, '
        'hosts inside query/fragment); (i) an exhaustive grid over reduced component lists, (ii) Hypothesis over the full '
        'lists with 0-3 further token insertions/deletions at arbitrary positions, (iii) thorough: atheris with a token '
        'dictionary. Two deployment configurations: default namespace (four service hosts) and a dev namespace (all four '
        'services under internal.<domain>). Oracle (one-directional): if validate_next_page_url returns, the WHATWG '
        'resolution of the string against the auth service origin has scheme http/https and a host in the configured set. '
        'Non-trivial: the input is ACCEPTED by the repo function and is not byte-equal to "https://<service host>" + a '
        'plain path; distinct by (config, string).')
ASSUMPTIONS = ['browser behaviour = WHATWG URL Standard basic URL parser with the auth service https origin as base URL',
               'HAIL_DOMAIN=hail.test, location external; default namespace and one non-default namespace (dev)',
               'a host with a trailing dot or different case than configured is only compared after WHATWG host normalisation '
               '(lower-casing, percent-decoding, NFKC/IDNA dot mapping)']
TRUSTED = ['whatwg_target resolver in checks/c29.py (hand-written from the URL Standard; IDNA mapping approximated by NFKC + '
           'lower-case + ideographic-dot mapping + removal of ignorable code points)']

SERVICES = ['batch', 'auth', 'ci', 'monitoring']
DOMAIN = 'hail.test'
CONFIGS = {
    'default': dict(ns='default', hosts=[f'{s}.{DOMAIN}' for s in SERVICES], base_host=f'auth.{DOMAIN}',
                    prefixes=[f'https://{s}.{DOMAIN}' for s in SERVICES]),
    'dev': dict(ns='dev', hosts=[f'internal.{DOMAIN}'], base_host=f'internal.{DOMAIN}',
                prefixes=[f'https://internal.{DOMAIN}/dev/{s}' for s in SERVICES]),
}

# ------------------------------------------------------------------------------------------------ WHATWG-style resolver
_C0_SPACE = ''.join(chr(i) for i in range(0x21))
_ALPHA = frozenset('abcdefghijklmnopqrstuvwxyzABCDEFGHIJKLMNOPQRSTUVWXYZ')
_SCHEME_CHARS = _ALPHA | frozenset('0123456789+-.')
_SPECIAL = {'http', 'https', 'ftp', 'ws', 'wss', 'file'}
_FORBIDDEN_DOMAIN = frozenset([chr(i) for i in range(0x21)] + list('#/:<>?@[\\]^|%') + ['\x7f'])
_HEX = '0123456789abcdefABCDEF'
_IGNORED = frozenset(['\u00ad', '\u034f', '\u180b', '\u180c', '\u180d', '\u200b', '\u2060', '\u2064', '\ufeff'] +
                     [chr(c) for c in range(0xfe00, 0xfe10)])


def _percent_decode(s):
    b = bytearray()
    raw = s.encode('utf-8', 'surrogatepass')
    i = 0
    while i < len(raw):
        c = raw[i]
        if c == 0x25 and i + 2 < len(raw) and chr(raw[i + 1]) in _HEX and chr(raw[i + 2]) in _HEX:
            b.append(int(raw[i + 1:i + 3].decode(), 16))
            i += 3
        else:
            b.append(c)
            i += 1
    return bytes(b).decode('utf-8', 'replace')


def _host_special(h):
    """Host parser for special schemes -> canonical host string or None (failure)."""
    if h.startswith('['):
        return h.lower() if h.endswith(']') else None
    d = _percent_decode(h)
    d = ''.join(ch for ch in d if ch not in _IGNORED)
    d = unicodedata.normalize('NFKC', d).lower()
    d = d.replace('\u3002', '.').replace('\uff0e', '.').replace('\uff61', '.')
    d = unicodedata.normalize('NFKC', d)
    if d == '':
        return None
    for ch in d:
        if ch in _FORBIDDEN_DOMAIN:
            return None
    return d


def _authority(a, special):
    """a = text after the slashes.  -> host or None (failure)."""
    end = len(a)
    for i, ch in enumerate(a):
        if ch in '/?#' or (special and ch == '\\'):
            end = i
            break
    auth = a[:end]
    if '@' in auth:
        auth = auth[auth.rindex('@') + 1:]
        if auth == '':
            return None                      # host-missing failure
    # host ends at the first ':' outside brackets
    inside = False
    host = auth
    port = ''
    for i, ch in enumerate(auth):
        if ch == '[':
            inside = True
        elif ch == ']':
            inside = False
        elif ch == ':' and not inside:
            host, port = auth[:i], auth[i + 1:]
            break
    if port:
        if any(ch not in '0123456789' for ch in port) or int(port) > 65535:
            return None
    if special:
        if host == '':
            return None
        return _host_special(host)
    # opaque host: forbidden host code points (without %) fail, otherwise kept as is
    for ch in host:
        if ch in '\x00\t\n\r #/:<>?@[\\]^|':
            return None
    return host


def _skip_slashes(s):
    i = 0
    while i < len(s) and s[i] in '/\\':
        i += 1
    return s[i:]


def whatwg_target(inp, base_host):
    """Resolve `inp` the way the URL Standard does against base https://<base_host>/...  -> (scheme, host) ; host None = failure
    or no host."""
    s = inp.strip(_C0_SPACE)
    s = s.replace('\t', '').replace('\n', '').replace('\r', '')
    scheme = None
    rest = s
    if s and s[0] in _ALPHA:
        j = 1
        while j < len(s) and s[j] in _SCHEME_CHARS:
            j += 1
        if j < len(s) and s[j] == ':':
            scheme = s[:j].lower()
            rest = s[j + 1:]
    if scheme is None:
        return _relative(s, base_host)
    if scheme in _SPECIAL:
        if scheme == 'file':
            r = rest
            if r[:2] in ('//', '/\\', '\\/', '\\\\'):
                return 'file', _authority(r[2:], True) if r[2:3] not in ('/', '\\', '?', '#', '') else ''
            return 'file', ''
        if scheme == 'https':                      # same scheme as the base: "special relative or authority state"
            if rest.startswith('//'):
                return scheme, _authority(_skip_slashes(rest[2:]), True)
            return _relative(rest, base_host)
        # "special authority slashes state" -> "special authority ignore slashes state"
        return scheme, _authority(_skip_slashes(rest), True)
    # non-special scheme
    if rest.startswith('//'):
        return scheme, _authority(rest[2:], False)
    return scheme, None


def _relative(s, base_host):
    """relative state with the (special, https) base."""
    if s[:1] in ('/', '\\'):
        if s[1:2] in ('/', '\\'):                   # relative slash state -> special authority ignore slashes state
            return 'https', _authority(_skip_slashes(s[2:]), True)
        return 'https', base_host                   # path-absolute
    return 'https', base_host                       # path-relative, query-only, fragment-only, empty


# ------------------------------------------------------------------------------------------------------- code under test
_env = None


def env():
    global _env
    if _env is None:
        hostenv.prepare_services()
        import auth.auth as A
        from aiohttp import web
        from hailtop.config.deploy_config import DeployConfig
        cfgs = {}
        for name, c in CONFIGS.items():
            if name == 'default':
                dc = DeployConfig('external', 'default', DOMAIN, None)
            else:
                dc = DeployConfig('external', c['ns'], DOMAIN, None).with_default_namespace(c['ns'])
            for svc, pref in zip(SERVICES, c['prefixes']):
                got = dc.external_url(svc, '/x')
                if got != pref + '/x':
                    raise RuntimeError(f'deploy config for {name} gives {got!r}, the check expects {pref + "/x"!r}')
            cfgs[name] = dc
        if A.deploy_config.external_url('batch', '/') != 'https://batch.hail.test/':
            raise RuntimeError('hostenv deploy config is not the default-namespace hail.test configuration')
        _env = dict(A=A, web=web, cfgs=cfgs)
    return _env


def repo_accepts(cfg, url):
    """-> ('accept'|'reject'|'error', detail)"""
    e = env()
    A = e['A']
    saved = A.deploy_config
    A.deploy_config = e['cfgs'][cfg]
    try:
        try:
            r = A.validate_next_page_url(url)
        except e['web'].HTTPBadRequest:
            return 'reject', ''
        except Exception as ex:
            return 'error', type(ex).__name__
        return ('accept', '') if r is None else ('error', f'returned {r!r}')
    finally:
        A.deploy_config = saved


_PLAIN = re.compile(r'(/[A-Za-z0-9/_.\-]*)?\Z')


def is_canonical(cfg, url):
    for p in CONFIGS[cfg]['prefixes'] if cfg == 'dev' else [f'https://{h}' for h in CONFIGS[cfg]['hosts']]:
        if url.startswith(p) and _PLAIN.match(url[len(p):]):
            return True
    return False


def check_case(case):
    """case = {'cfg': name, 'url': str} -> (nontrivial, classes, failures)"""
    cfg, url = case['cfg'], case['url']
    c = CONFIGS[cfg]
    got, det = repo_accepts(cfg, url)
    cls = [f'cfg_{cfg}']
    if got != 'accept':
        cls.append('rejected' if got == 'reject' else 'rejected_by_exception')
        return False, cls, []
    cls.append('accepted')
    fails = []
    scheme, host = whatwg_target(url, c['base_host'])
    canonical = is_canonical(cfg, url)
    if canonical:
        cls.append('accepted_canonical')
    s2 = url.strip(_C0_SPACE)
    if any(ch in url for ch in '\t\n\r') or s2 != url:
        cls.append('accepted_with_tab_lf_cr_or_c0')
    if s2.replace('\t', '').replace('\n', '').replace('\r', '')[:1] in ('/', '\\'):
        cls.append('accepted_scheme_relative')
    if '?' in url or '#' in url:
        cls.append('accepted_with_query_or_fragment')
    if '@' in url or 'evil' in url:
        cls.append('accepted_mentions_foreign_host_or_at')
    if scheme == 'http':
        cls.append('accepted_plain_http')
    if scheme not in ('http', 'https'):
        cls.append('accepted_other_scheme')
        fails.append(('accepts-non-http-scheme', 'an accepted next URL resolves to an http(s) URL',
                      f'validate_next_page_url({url!r}) returns (config {cfg}); a browser resolves it to scheme {scheme!r} '
                      f'host {host!r}: not a web navigation to a Hail host'))
    elif host is None:
        fails.append(('accepts-unparseable-url', 'an accepted next URL is one a browser can resolve',
                      f'validate_next_page_url({url!r}) returns (config {cfg}) but WHATWG parsing fails (no valid host)'))
    elif host not in c['hosts']:
        fails.append(('accepts-foreign-host', 'an accepted next URL resolves to one of the batch/auth/ci/monitoring hosts',
                      f'validate_next_page_url({url!r}) returns (config {cfg}); a browser goes to {scheme}://{host} which is '
                      f'not in {c["hosts"]}'))
    return (not canonical), cls, fails


# ---------------------------------------------------------------------------------------------------- component grammar
def components(cfg):
    hosts = CONFIGS[cfg]['hosts']
    h0 = hosts[0]
    full = dict(
        lead=['', '', '', ' ', '\t', '\n', '\r\n', '\x00', '\x0b', '\x1f', '\xa0', '\u3000', '\ufeff', '  \t'],
        scheme=['https:', 'https:', 'https:', 'http:', 'HTTPS:', 'hTtP:', '', '', 'javascript:', 'data:', 'ftp:', 'file:', 'ws:',
                'wss:', 'x:', 'a+b-c.d:', 'ht\ttps:', 'https :', ':', '1http:', 'blob:', 'view-source:', 'intent:', 'mailto:',
                'https:https:', 'https:http:', 'http:https:', 'ms-msdt:', 'JaVaScRiPt:', 'h\u0131ttp:', 'https\uff1a'],
        slashes=['//', '//', '//', '/', '', '///', '\\\\', '/\\', '\\/', '////', '/\t/', '/\n/', '\\', '/ /', '\uff0f\uff0f', '/\\/'],
        userinfo=['', '', '', '', 'user@', 'evil.com@', h0 + '@', 'a:b@', '@', 'evil.com\\@', 'evil.com#@', 'evil.com?@',
                  'evil.com/@', 'evil.com%40', 'evil.com\\\\@', 'evil.com:443@', 'evil.com\t@', '@@', 'evil.com\uff20',
                  'evil.com%2f@', 'evil.com\\.'],
        host=hosts + hosts + hosts + [h0.upper(), h0 + '.', 'evil.com', h0 + '.evil.com', 'evil' + h0, 'evil.com.' + h0,
                                       h0.replace('.', '\uff0e'), h0.replace('.', '\u3002', 1), h0.replace('a', '%61', 1),
                                       h0 + '%2eevil.com', '[::1]', '127.0.0.1', '', DOMAIN, 'www.' + DOMAIN,
                                       h0[:2] + '\t' + h0[2:], h0 + '\\.evil.com', 'evil.com\\' + h0,
                                       h0.replace('a', '\u0430', 1), h0 + '\x00', h0 + '\x00.evil.com', 'xn--80ak6aa92e.com',
                                       h0 + ' ', ' ' + h0, h0 + '\u2044evil.com', h0 + '\uff0fevil.com', h0 + '\uff03',
                                       '[' + h0 + ']', '[' + h0, h0 + '%00', h0 + ',evil.com', h0 + ';evil.com', h0 + '&evil.com',
                                       'evil.com\n' + h0, h0 + '\nevil.com', h0 + '\u00ad', h0.replace('t', '\u1d57', 1),
                                       '0x7f.1', h0 + '%ff'],
        port=['', '', '', ':443', ':80', ':', ':8080', ':x', ':65536', ':@evil.com', ':443@evil.com', ':\t443'],
        path=['', '/', '/batches/1', '/dev/batch/batches', '/\\evil.com', '//evil.com', '/@evil.com', '/..//evil.com',
              '/%2f%2fevil.com', '/a b', '/\t', '/\xe9', '\\evil.com', '\\\\evil.com', '/%0aalert(1)', '/.evil.com',
              '/\nevil.com', ';evil.com'],
        query=['', '', '?next=https://evil.com', '?@evil.com', '?//evil.com', '?', '?\\evil.com'],
        fragment=['', '', '#@evil.com', '#//evil.com', '#', '#\\@evil.com'],
        trail=['', '', '', ' ', '\n', '\t', '\x00', '\r\n '],
    )
    return full


def grid_components(cfg):
    hosts = CONFIGS[cfg]['hosts']
    h0 = hosts[0]
    return dict(
        scheme=['https:', 'http:', 'HTTPS:', '', 'javascript:', 'data:', 'ftp:', 'file:', 'wss:', 'x:', 'a+b-c.d:', 'ht\ttps:',
                ' https:', ':', '1http:', 'blob:', 'https:https:', 'http:https:', '\nhttp:', 'ms-msdt:', 'https :', '\x00'],
        slashes=['//', '/', '', '///', '\\\\', '/\\', '\\/', '/\t/', '\\', '////'],
        userinfo=['', 'user@', 'evil.com@', h0 + '@', 'evil.com\\@', 'evil.com#@', '@'],
        host=hosts + [h0.upper(), h0 + '.', 'evil.com', h0 + '.evil.com', 'evil' + h0, h0.replace('.', '\uff0e'),
                      h0.replace('a', '%61', 1), '', DOMAIN, h0[:2] + '\n' + h0[2:], h0 + '\\.evil.com', 'evil.com\\' + h0,
                      h0 + '\x00', h0 + ' ', '[' + h0, h0 + '\uff0fevil.com', 'evil.com/' + h0, 'evil.com?' + h0],
        port=['', ':@evil.com'],
        tail=['', '/batches/1?q=1#f', '/\\evil.com', '//evil.com/', '?@evil.com', '#@evil.com', '\\@evil.com', ' ', '/%0aalert(1)\n'],
    )


TOKENS = ['@', '\\', '/', ':', '#', '?', '%', '\t', '\n', '\r', '.', '%2e', '%2f', '%5c', '%40', '%00', '%09', '%0a', '\u2044',
          '\uff0f', '\uff20', '\uff1a', '\uff0e', '\u3002', '//', '\\\\', '/\\', 'evil.com', '.evil.com', 'evil.com@', '@evil.com',
          'https://', 'http://', 'javascript:', 'data:', '//evil.com', '\\evil.com', 'https:', ' ', '\x00', '\x0b', '[', ']',
          'batch.hail.test', 'auth.hail.test', 'ci.hail.test', 'monitoring.hail.test', 'internal.hail.test', 'hail.test', 'x', '1',
          ';', '&', '=', 'HTTPS://', '..', '\u202e', '\u00ad', '\u200b']


def plan(tier):
    specs = [dict(kind='grid', part=i, of=11) for i in range(11)]
    n = 4000 if tier == 'quick' else 60000
    specs.append(dict(kind='hyp', cfg='default', n=n, edits=1))
    specs.append(dict(kind='hyp', cfg='default', n=n, edits=3))
    specs.append(dict(kind='hyp', cfg='dev', n=n, edits=2))
    specs.append(dict(kind='hyp', cfg='default', n=n, edits=0))
    specs.append(dict(kind='hyp_accepted', cfg='default', n=n))
    if tier == 'thorough':
        for i in range(4):
            specs.append(dict(kind='atheris', runs=1500000, idx=i, cfg='default' if i < 3 else 'dev'))
    return specs


def _grid(res, part, of):
    import itertools
    res.exhaustive = True
    local = {}
    n = 0
    for cfg in ('default', 'dev'):
        g = grid_components(cfg)
        schemes = [s for i, s in enumerate(g['scheme']) if i % of == part]
        seen = set()
        for sc, sl, ui, h, po, tl in itertools.product(schemes, g['slashes'], g['userinfo'], g['host'], g['port'], g['tail']):
            url = sc + sl + ui + h + po + tl
            if url in seen:
                continue
            seen.add(url)
            case = dict(cfg=cfg, url=url)
            nt, cls, fl = check_case(case)
            n += 1
            res.evaluations += 1
            if nt:
                res.nontrivial_extra += 1       # distinct by construction: (cfg, url) deduplicated above, schemes partitioned
                if len(res.samples) < 3 and res.nontrivial_extra % 97 == 1:
                    res.samples.append(case)
            for c in cls:
                local[c] = local.get(c, 0) + 1
            for sig, cl, m in fl:
                res.fail(sig, cl, m, case)
    for k, v in local.items():
        res.count(k, v)
    res.count('grid_strings', n)


def _strategy(cfg, edits):
    from hypothesis import strategies as st
    comp = components(cfg)
    order = ['lead', 'scheme', 'slashes', 'userinfo', 'host', 'port', 'path', 'query', 'fragment', 'trail']
    hosts = CONFIGS[cfg]['hosts']
    canonical = dict(lead=st.just(''), scheme=st.sampled_from(['https:', 'https:', 'http:', '']), slashes=st.just('//'),
                     userinfo=st.just(''), host=st.sampled_from(hosts), port=st.just(''), path=st.sampled_from(comp['path']),
                     query=st.sampled_from(comp['query']), fragment=st.sampled_from(comp['fragment']), trail=st.just(''))
    perturbed = st.lists(st.sampled_from(order[:6] + ['trail']), max_size=3, unique=True)
    tok = st.sampled_from(TOKENS)

    @st.composite
    def build(draw):
        which = draw(perturbed)
        url = ''.join(draw(st.sampled_from(comp[k])) if k in which else draw(canonical[k]) for k in order)
        k = draw(st.integers(0, edits)) if edits else 0
        for _ in range(k):
            mode = draw(st.integers(0, 3))
            if mode <= 1 or not url:
                p = draw(st.integers(0, len(url)))
                url = url[:p] + draw(tok) + url[p:]
            elif mode == 2:
                p = draw(st.integers(0, len(url) - 1))
                url = url[:p] + url[p + 1:]
            else:
                p = draw(st.integers(0, len(url) - 1))
                url = url[:p] + draw(tok) + url[p + 1:]
        return dict(cfg=cfg, url=url)
    return build()


def _strategy_accepted(cfg):
    """Strings built to be accepted (valid authority) with free-form everything else: makes non-trivial cases dense."""
    from hypothesis import strategies as st
    comp = components(cfg)
    hosts = CONFIGS[cfg]['hosts']
    junk = st.text(alphabet=st.sampled_from(['\t', '\n', '\r']), max_size=2)
    tail = st.one_of(st.sampled_from(comp['path']), st.text(max_size=12).map(lambda t: '/' + t),
                     st.lists(st.sampled_from(TOKENS), max_size=5).map(lambda xs: '/' + ''.join(xs)))

    @st.composite
    def build(draw):
        scheme = draw(st.sampled_from(['https:', 'https:', 'https:', 'http:', 'http:', '', '', 'HTTPS:', 'hTTp:', 'HttpS:', 'x:',
                                       'javascript:', 'ftp:', 'wss:', 'a+b.c-d:', 'file:', 'data:', 'view-source:']))
        host = draw(st.sampled_from(hosts))
        s = scheme + '//' + host
        # sprinkle removable characters anywhere in the scheme/authority
        for _ in range(draw(st.integers(0, 2))):
            p = draw(st.integers(0, len(s)))
            s = s[:p] + draw(junk) + s[p:]
        lead = draw(st.sampled_from(['', '', ' ', '\x00\x1f', '\t ', '\n']))
        end = draw(st.sampled_from(['', '', '?' + 'x', '#@evil.com', '?//evil.com/', '/' + '\\evil.com']))
        return dict(cfg=cfg, url=lead + s + draw(tail) + draw(st.sampled_from(comp['query'])) + end)
    return build()


def run_shard(spec, seed, tier):
    res = Result()
    env()
    kind = spec['kind']
    if kind == 'grid':
        _grid(res, spec['part'], spec['of'])
    elif kind == 'atheris':
        _run_atheris(res, spec, seed)
    else:
        from vlib.hyp import search
        strat = _strategy_accepted(spec['cfg']) if kind == 'hyp_accepted' else _strategy(spec['cfg'], spec['edits'])
        search(res, PROPERTY, strat, check_case, spec['n'], seed, shrink=True)
    return res


def replay(case):
    nt, cls, fl = check_case(case)
    return [dict(signature=sig, clause=cl, message=m, case=case) for sig, cl, m in fl]


# --------------------------------------------------------------------------------------------------------------- atheris
def _dict_entry(tok):
    return '"' + ''.join('\\x%02x' % b for b in tok.encode('utf-8')) + '"'


def _run_atheris(res, spec, seed):
    import shutil
    verif = os.path.dirname(os.path.dirname(os.path.abspath(__file__)))
    tmp = tempfile.mkdtemp(prefix='verif-c29-atheris-')
    try:
        cfg = spec['cfg']
        corpus = os.path.join(tmp, 'corpus')
        os.makedirs(corpus)
        seeds = [p + '/batches/1' for p in CONFIGS[cfg]['prefixes']] + ['//' + CONFIGS[cfg]['hosts'][0] + '/x?y#z',
                                                                         'http://' + CONFIGS[cfg]['hosts'][-1]]
        for i, s in enumerate(seeds):
            with open(os.path.join(corpus, f'seed{i}'), 'wb') as f:
                f.write(s.encode())
        dpath = os.path.join(tmp, 'tokens.dict')
        comp = components(cfg)
        toks = sorted(set(TOKENS + [t for k in comp for t in comp[k] if t]))
        with open(dpath, 'w') as f:
            for t in toks:
                f.write(_dict_entry(t) + '\n')
        out = os.path.join(tmp, 'out.json')
        envv = dict(os.environ, PYTHONPATH=verif + os.pathsep + os.environ.get('PYTHONPATH', ''))
        cmd = [sys.executable, '-c', 'import checks.c29 as m; m._atheris_main()', out, cfg, f'-runs={spec["runs"]}',
               f'-seed={(seed % 0x7fffffff) or 1}', '-max_len=160', f'-dict={dpath}', corpus]
        try:
            r = subprocess.run(cmd, cwd=verif, env=envv, capture_output=True, text=True, timeout=1500)
        except Exception as e:
            res.notes['atheris_skipped'] = f'{type(e).__name__}: {e}'
            return
        if not os.path.exists(out):
            res.notes['atheris_skipped'] = 'atheris did not run: ' + (r.stderr or r.stdout)[-300:]
            return
        with open(out) as f:
            d = json.load(f)
        res.evaluations += d['evaluations']
        res.nontrivial.update(d['nontrivial'])
        for k, v in d['classes'].items():
            res.count(k, v)
        res.count('atheris_execs', d['evaluations'])
        res.samples.extend(d['samples'][:2])
        for fl in d['failures']:
            res.fail(fl['signature'], fl['clause'], fl['message'], fl['case'])
    finally:
        shutil.rmtree(tmp, ignore_errors=True)


def _atheris_main():
    hostenv.install()
    import atheris
    out, cfg = sys.argv[1], sys.argv[2]
    argv = [sys.argv[0]] + sys.argv[3:]
    runs = 0
    for a in argv:
        if a.startswith('-runs='):
            runs = int(a[6:])
    with atheris.instrument_imports(include=['urllib.parse']):
        import urllib.parse  # noqa: F401
    env()
    state = dict(evaluations=0, nontrivial=set(), classes={}, samples=[], failures={})

    def dump():
        with open(out, 'w') as f:
            json.dump(dict(evaluations=state['evaluations'], nontrivial=sorted(state['nontrivial'])[:200000],
                           classes=state['classes'], samples=state['samples'],
                           failures=list(state['failures'].values())), f)

    @atheris.instrument_func
    def target(data):
        s = data.decode('utf-8', 'replace')
        case = dict(cfg=cfg, url=s)
        state['evaluations'] += 1
        nt, cls, fl = check_case(case)
        if nt and len(state['nontrivial']) < 200000:
            state['nontrivial'].add(case_hash(case))
            if len(state['samples']) < 3 and state['evaluations'] % 97 == 1:
                state['samples'].append(case)
        for c in cls:
            state['classes'][c] = state['classes'].get(c, 0) + 1
        for sig, cl, m in fl:
            old = state['failures'].get(sig)
            if old is None or len(s) < len(old['case']['url']):
                state['failures'][sig] = dict(signature=sig, clause=cl, message=m, case=case)
        n = state['evaluations']
        if n % 20000 == 0 or n == runs or n == runs - 1:     # libFuzzer leaves through _exit: no atexit hook runs
            dump()

    atheris.Setup(argv, target)
    atheris.Fuzz()
