"""C15 - stored job specs and region sets round-trip.

Real code: batch.batch_format_version.BatchFormatVersion (db_spec / get_spec_*) and batch.utils.regions_to_bits_rep /
regions_bits_rep_to_regions.  Specs have the shape front_end.create_jobs hands to db_spec (front_end.py ~l.1398-1640):
'resources' is always a dict carrying preemptible (bool), storage_gib (int), cores_mcpu, memory_bytes, req_storage and either
machine_type or req_cpu/req_memory; 'secrets' is always a list (user secrets {namespace,name,mount_path} without
mount_in_copy, then the gsa-key secret with mount_in_copy True unless HAIL_TERRA, then two mount_tokens secrets with
mount_in_copy False); service_account / input_files / output_files are optional.  The stored column is json.dumps(db_spec) and
readers do json.loads, so the round trip goes through JSON text.  The region mapping is app['regions'] = {name: region_id} with
ids 1..63 (regions_to_bits_rep asserts idx < 64).
"""
from __future__ import annotations

import itertools
import json

from vlib import hostenv
from vlib.runner import Result

PROPERTY = 'C15'
LEVEL = 'exploration'
RULE = ('(a) job specs of the shape the front end passes to db_spec: 0-4 secrets (with / without mount_in_copy, k8s-style and '
        'unicode mount paths), optional service account, input/output files absent / empty / non-empty, resources with or '
        'without machine_type (preemptible both ways, storage_gib 0..65536), plus unrelated spec fields; every format version '
        '1..BATCH_FORMAT_VERSION; an exhaustive grid over the field-presence shapes x versions and Hypothesis for contents. '
        'Oracle: get_spec_*(json.loads(json.dumps(db_spec(spec)))) equals the corresponding part of the spec (missing = [] = '
        'None for secrets, mount_in_copy defaults to False, machine spec only for versions >= 5, None otherwise). '
        '(b) region universes of 1-63 names with distinct ids in 1..63 in arbitrary dict order, selections in any order with '
        'duplicates; exhaustive: all 4096 subsets of a 12-region universe at ids 1..12 and at ids 52..63, and all singletons '
        'and pairs over ids 1..63. Oracle: set(decode(encode(S))) == set(S), no duplicates decoded, popcount == |set(S)|, '
        '0 <= bits < 2**63. '
        'Non-trivial: spec case = at least one secret and at least one of {service account, non-empty input files, non-empty '
        'output files, machine_type}; region case = |set(S)| >= 2 and S is a proper subset of the universe. Distinct by case.')
ASSUMPTIONS = ['"same secrets" compares the four fields namespace/name/mount_path/mount_in_copy with mount_in_copy defaulting to '
               'False; an empty secrets list and None are the same',
               'format versions < 5 do not carry a machine spec (get_spec_machine_spec returns None by design)']
TRUSTED = ['expected-value projection of the spec in checks/c15.py', 'json module']

REGION_NAMES = ['us-central1', 'us-east1', 'us-east4', 'us-west1', 'us-west2', 'us-west3', 'us-west4', 'europe-west1',
                'europe-west2', 'europe-west3', 'europe-west4', 'asia-east1', 'australia-southeast1', 'eastus', 'westus2']

_mods = None


def mods():
    global _mods
    if _mods is None:
        hostenv.prepare_services()
        from batch.batch_format_version import BatchFormatVersion
        from batch.globals import BATCH_FORMAT_VERSION
        from batch.utils import regions_bits_rep_to_regions, regions_to_bits_rep
        _mods = dict(BFV=BatchFormatVersion, CUR=BATCH_FORMAT_VERSION, enc=regions_to_bits_rep, dec=regions_bits_rep_to_regions)
    return _mods


# ------------------------------------------------------------------------------------------------------------------ specs
def _norm_secrets(x):
    if not x:
        return []
    out = []
    for s in x:
        out.append(dict(namespace=s['namespace'], name=s['name'], mount_path=s['mount_path'],
                        mount_in_copy=s.get('mount_in_copy', False)))
    return out


def check_spec(case):
    m = mods()
    v, spec = case['version'], case['spec']
    fails = []
    fv = m['BFV'](v)
    pristine = json.dumps(spec, sort_keys=True)
    try:
        stored = json.loads(json.dumps(fv.db_spec(spec)))
    except Exception as e:
        return [('db-spec-raises', 'db_spec produces a JSON-serialisable compact form', f'v{v}: {type(e).__name__}: {e}')]
    if json.dumps(spec, sort_keys=True) != pristine:
        fails.append(('db-spec-mutates-spec', 'db_spec does not alter the full spec that is written to cloud storage',
                      f'v{v}: spec changed by db_spec'))

    def get(name):
        try:
            return True, getattr(fv, name)(stored)
        except Exception as e:
            fails.append((f'{name}-raises', f'{name} reads the stored form', f'v{v}: {type(e).__name__}: {e}; stored={stored!r}'))
            return False, None

    ok, got = get('get_spec_secrets')
    if ok:
        want = _norm_secrets(spec.get('secrets'))
        try:
            gotn = _norm_secrets(got)
            types_ok = all(isinstance(s['mount_in_copy'], bool) for s in gotn)
        except Exception:
            gotn, types_ok = got, True
        if gotn != want or not types_ok:
            fails.append(('secrets-differ', 'stored form yields back the same secrets', f'v{v}: got {got!r}, spec has {want!r}'))
    ok, got = get('get_spec_service_account')
    if ok:
        want = spec.get('service_account') or None
        if got != want:
            fails.append(('service-account-differs', 'stored form yields back the same service account',
                          f'v{v}: got {got!r}, spec has {want!r}'))
    ok, got = get('get_spec_has_input_files')
    if ok:
        want = len(spec.get('input_files') or []) > 0
        if got is not want:
            fails.append(('has-input-files-differs', 'stored form yields back the input-files flag',
                          f'v{v}: got {got!r}, spec has input_files={spec.get("input_files")!r}; stored={stored!r}'))
    ok, got = get('get_spec_has_output_files')
    if ok:
        want = len(spec.get('output_files') or []) > 0
        if got is not want:
            fails.append(('has-output-files-differs', 'stored form yields back the output-files flag',
                          f'v{v}: got {got!r}, spec has output_files={spec.get("output_files")!r}; stored={stored!r}'))
    ok, got = get('get_spec_machine_spec')
    if ok:
        res = spec['resources']
        if v >= 5 and res.get('machine_type'):
            want = dict(machine_type=res['machine_type'], preemptible=res['preemptible'], storage_gib=res['storage_gib'])
        else:
            want = None
        if got != want or (got is not None and not isinstance(got['preemptible'], bool)):
            fails.append(('machine-spec-differs', 'stored form yields back the same machine spec (versions >= 5)',
                          f'v{v}: got {got!r}, expected {want!r}'))
    return fails


def classify_spec(case):
    spec = case['spec']
    cls = [f'v{case["version"]}']
    secrets = spec.get('secrets') or []
    if secrets:
        cls.append('has_secrets')
        if any('mount_in_copy' not in s for s in secrets):
            cls.append('secret_without_mount_in_copy')
        if any(s.get('mount_in_copy') for s in secrets) and any(not s.get('mount_in_copy', False) for s in secrets):
            cls.append('mixed_mount_in_copy')
    others = 0
    if spec.get('service_account'):
        cls.append('has_service_account')
        others += 1
    i, o = bool(spec.get('input_files')), bool(spec.get('output_files'))
    if i != o:
        cls.append('io_flags_differ')
    others += int(i) + int(o)
    if spec['resources'].get('machine_type'):
        cls.append('has_machine_type')
        others += 1
    return bool(secrets) and others >= 1, cls


def _resources(machine_type, preemptible, storage_gib):
    r = dict(preemptible=preemptible, storage_gib=storage_gib, cores_mcpu=1000, memory_bytes=3_750_000_000, req_storage='10Gi')
    if machine_type:
        r['machine_type'] = machine_type
    else:
        r['req_cpu'] = '1'
        r['req_memory'] = 'standard'
    return r


GSA = dict(namespace='default', name='user-gsa-key', mount_path='/gsa-key', mount_in_copy=True)
TOK = [dict(namespace='default', name='user-tokens', mount_path='/user-tokens', mount_in_copy=False),
       dict(namespace='default', name='ssl-config-batch-user-code', mount_path='/ssl-config', mount_in_copy=False)]
USR = dict(namespace='ns-1', name='my.secret', mount_path='/secrets/a')
USR2 = dict(namespace='other', name='zz-9', mount_path='/x y/\xe9')


def spec_grid():
    secret_shapes = [None, [], [GSA], [USR], [USR, GSA], [USR, USR2, GSA] + TOK, [GSA] + TOK]
    sas = [None, dict(namespace='default', name='batch-sa')]
    files = [None, [], [{'from': 'gs://b/a', 'to': '/io/a'}]]
    machines = [(None, True, 10), (None, False, 0), ('n1-standard-4', True, 375), ('n1-highmem-8', False, 10)]
    cur = mods()['CUR']
    for v in range(1, cur + 1):
        for sec, sa, fin, fout, (mt, pre, sto) in itertools.product(secret_shapes, sas, files, files, machines):
            spec = dict(job_id=3, process=dict(type='docker', image='ubuntu', command=['true']), env=[], always_run=False,
                        resources=_resources(mt, pre, sto))
            if sec is not None:
                spec['secrets'] = [dict(s) for s in sec]
            if sa is not None:
                spec['service_account'] = dict(sa)
            if fin is not None:
                spec['input_files'] = [dict(f) for f in fin]
            if fout is not None:
                spec['output_files'] = [dict(f) for f in fout]
            yield dict(kind='spec', version=v, spec=spec)


def spec_strategy():
    from hypothesis import strategies as st
    cur = mods()['CUR']
    lab = st.text(alphabet='abz09', min_size=1, max_size=4)
    k8s = st.one_of(st.sampled_from(['default', 'a', 'batch-pods', 'user-gsa-key', 'x.y', 'a-b.c-d.e', '0', 'ssl-config-batch-user-code']),
                    st.builds(lambda a, sep, b: a + sep + b, lab, st.sampled_from(['-', '.', '--', '']), lab))
    path = st.one_of(st.sampled_from(['/gsa-key', '/user-tokens', '/ssl-config', '/a', '/io/x', '']), st.text(max_size=10))
    secret = st.builds(lambda ns, n, mp, mic: dict(namespace=ns, name=n, mount_path=mp, **({} if mic is None else {'mount_in_copy': mic})),
                       k8s, k8s, path, st.sampled_from([None, None, True, False]))
    secrets = st.one_of(st.none(), st.just([]), st.lists(secret, min_size=1, max_size=4), st.lists(secret, min_size=1, max_size=2))
    sa = st.one_of(st.none(), st.builds(lambda ns, n: dict(namespace=ns, name=n), k8s, k8s))
    ft = st.builds(lambda a, b: {'from': a, 'to': b}, st.text(max_size=8), st.text(max_size=8))
    files = st.one_of(st.none(), st.lists(ft, max_size=3))
    mt = st.sampled_from([None, None, 'n1-standard-1', 'n1-highmem-16', 'n1-highcpu-2', 'g2-standard-4', 'Standard_D2ds_v4'])
    extra = st.dictionaries(st.sampled_from(['always_run', 'attributes', 'network', 'timeout', 'n_max_attempts', 'regions',
                                             'cloudfuse', 'user_code', 'unconfined']),
                            st.one_of(st.booleans(), st.integers(0, 9), st.text(max_size=4)), max_size=3)

    @st.composite
    def build(draw):
        spec = dict(job_id=draw(st.integers(1, 10**6)), process=dict(type='docker', image='x', command=['true']), env=[])
        spec.update(draw(extra))
        spec['resources'] = _resources(draw(mt), draw(st.booleans()), draw(st.sampled_from([0, 1, 10, 375, 65536]) | st.integers(0, 65536)))
        s = draw(secrets)
        if s is not None:
            spec['secrets'] = s
        a = draw(sa)
        if a is not None:
            spec['service_account'] = a
        for k in ('input_files', 'output_files'):
            f = draw(files)
            if f is not None:
                spec[k] = f
        return dict(kind='spec', version=draw(st.sampled_from(list(range(1, cur + 1)))), spec=spec)
    return build()


# ---------------------------------------------------------------------------------------------------------------- regions
def check_regions(case):
    m = mods()
    mapping = {name: idx for name, idx in case['mapping']}
    sel = case['selected']
    fails = []
    try:
        bits = m['enc'](sel, mapping)
    except Exception as e:
        return [('regions-encode-raises', 'regions_to_bits_rep encodes any selection over ids 1..63',
                 f'{type(e).__name__}: {e}; selected={sel!r} mapping={case["mapping"]!r}')]
    if not isinstance(bits, int) or isinstance(bits, bool) or not (0 <= bits < 2 ** 63):
        fails.append(('bits-out-of-bigint-range', 'the stored bitset fits a signed 64-bit BIGINT',
                      f'bits={bits!r} for ids {sorted(mapping[s] for s in set(sel))}'))
        if not isinstance(bits, int):
            return fails
    if bin(bits).count('1') != len(set(sel)):
        fails.append(('popcount-differs', 'one bit per distinct selected region',
                      f'bits={bits:#x} has {bin(bits).count("1")} bits for {len(set(sel))} distinct regions '
                      f'(ids {sorted(mapping[s] for s in set(sel))})'))
    try:
        back = m['dec'](json.loads(json.dumps(bits)), mapping)
    except Exception as e:
        fails.append(('regions-decode-raises', 'regions_bits_rep_to_regions decodes the stored value', f'{type(e).__name__}: {e}'))
        return fails
    if set(back) != set(sel) or len(back) != len(set(back)):
        fails.append(('region-set-differs', 'the selected region set is recovered exactly from the stored bitset',
                      f'selected ids {sorted(mapping[s] for s in set(sel))} -> bits {bits:#x} -> ids '
                      f'{sorted(mapping.get(s, -1) for s in back)}'))
    return fails


def classify_regions(case):
    sel = case['selected']
    ids = {n: i for n, i in case['mapping']}
    d = set(sel)
    cls = []
    if len(sel) != len(d):
        cls.append('selection_has_duplicates')
    if [ids[s] for s in sel] != sorted(ids[s] for s in sel):
        cls.append('selection_unordered')
    if any(ids[s] == 63 for s in d):
        cls.append('uses_id_63')
    if any(ids[s] == 1 for s in d):
        cls.append('uses_id_1')
    if len(case['mapping']) >= 32:
        cls.append('universe_ge_32')
    return len(d) >= 2 and len(d) < len(case['mapping']), cls


def regions_strategy():
    from hypothesis import strategies as st

    @st.composite
    def build(draw):
        n = draw(st.one_of(st.integers(1, 63), st.sampled_from([1, 2, 62, 63])))
        ids = draw(st.lists(st.integers(1, 63), min_size=n, max_size=n, unique=True))
        if draw(st.booleans()):
            ids = sorted(ids)
        names = [REGION_NAMES[i] if i < len(REGION_NAMES) and n <= len(REGION_NAMES) else f'region-{i}' for i in range(n)]
        mapping = [[nm, i] for nm, i in zip(names, ids)]
        sel = draw(st.lists(st.sampled_from(names), min_size=1, max_size=min(70, 2 * n + 2)))
        return dict(kind='regions', mapping=mapping, selected=sel)
    return build()


# ------------------------------------------------------------------------------------------------------------ plan / run
def check_case(case):
    if case['kind'] == 'spec':
        nt, cls = classify_spec(case)
        return nt, cls + ['spec'], check_spec(case)
    nt, cls = classify_regions(case)
    return nt, cls + ['regions'], check_regions(case)


def plan(tier):
    n = 2000 if tier == 'quick' else 15000
    specs = [dict(kind='exh_regions12', lo=1), dict(kind='exh_regions12', lo=52), dict(kind='exh_pairs'), dict(kind='exh_specgrid')]
    specs += [dict(kind='hyp_spec', n=(n * 3) // 5) for _ in range(7)]
    specs += [dict(kind='hyp_regions', n=n) for _ in range(5)]
    return specs


def _enumerate(res, cases, label):
    res.exhaustive = True
    local = {}
    n = 0
    for case in cases:
        nt, cls, fl = check_case(case)
        n += 1
        res.evaluations += 1
        if nt:
            res.nontrivial_extra += 1           # enumeration without repetition
            if len(res.samples) < 2 and res.nontrivial_extra % 211 == 7:
                res.samples.append(case)
        for c in cls:
            local[c] = local.get(c, 0) + 1
        for sig, cl, msg in fl:
            res.fail(sig, cl, msg, case)
    for k, v in local.items():
        res.count(k, v)
    res.count(label, n)


def _regions12(lo):
    names = REGION_NAMES[:12]
    mapping = [[nm, lo + i] for i, nm in enumerate(names)]
    for mask in range(1 << 12):
        sel = [names[i] for i in range(12) if mask >> i & 1]
        if mask % 3 == 1:
            sel = sel[::-1]                      # order must not matter
        yield dict(kind='regions', mapping=mapping, selected=sel)


def _pairs():
    mapping = [[f'region-{i}', i] for i in range(63, 0, -1)]     # dict order deliberately not id order
    for i in range(1, 64):
        yield dict(kind='regions', mapping=mapping, selected=[f'region-{i}'])
        for j in range(i + 1, 64):
            yield dict(kind='regions', mapping=mapping, selected=[f'region-{j}', f'region-{i}'])
    yield dict(kind='regions', mapping=mapping, selected=[f'region-{i}' for i in range(1, 64)])


def run_shard(spec, seed, tier):
    res = Result()
    mods()
    kind = spec['kind']
    if kind == 'exh_regions12':
        _enumerate(res, _regions12(spec['lo']), 'exhaustive_region_subsets')
    elif kind == 'exh_pairs':
        _enumerate(res, _pairs(), 'exhaustive_region_pairs')
    elif kind == 'exh_specgrid':
        _enumerate(res, spec_grid(), 'exhaustive_spec_shapes')
    else:
        from vlib.hyp import search
        strat = spec_strategy() if kind == 'hyp_spec' else regions_strategy()
        search(res, PROPERTY, strat, check_case, spec['n'], seed, shrink=True)
    return res


def replay(case):
    nt, cls, fl = check_case(case)
    return [dict(signature=sig, clause=cl, message=m, case=case) for sig, cl, m in fl]
