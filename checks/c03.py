"""C03 — billed attempt time is monotone and bounded by the attempt."""
from vlib.batchsim import histcheck as H, oracle as O

PROPERTY = 'C03'
LEVEL = 'fault_enumeration'
RULE = ('every sequence of reports reaching one or two attempts of a job through the real procedures and the attempts_before_update '
        'trigger: schedule, job-private creating, started(t), billing heartbeat(t), complete(start in {none,t}, end t), unschedule, '
        'deactivate(reason incl. activation_timeout), duplicated and late, with timestamps from {-50,-5,0,1,5,50,1000} ms around a '
        'moving clock; Hypothesis-generated sequences of up to 40 reports (the enumeration of the alphabet is by generated search, '
        'not exhaustive). After every op, comparing each attempt row before/after: billed >= 0; billed <= end - start once ended; '
        'billed does not decrease unless the end is set/corrected earlier or the reason is activation_timeout; start never moves later; '
        'once a reason is set, (end, reason) only change to an earlier end; after a report that marks an activation timeout every attempt on that instance is billed 0. Non-trivial: an attempt receives >= 3 effective updates '
        'including one after it has an end.')
ASSUMPTIONS = ['serializable at transaction granularity on minimysql', 'observed per op (each op issues at most one UPDATE per attempt row)']
TRUSTED = ['vlib/minimysql trigger semantics (BEFORE UPDATE may rewrite NEW)', 'vlib/batchsim']


def step(w, prev, cur, op, res):
    if not hasattr(w, 'att_updates'):
        w.att_updates = {}
        w.att_after_end = set()
    for k, a in cur.attempts.items():
        p = prev.attempts.get(k)
        if p is not None and any(p[c] != a[c] for c in ('start_time', 'rollup_time', 'end_time', 'reason')):
            w.att_updates[k] = w.att_updates.get(k, 0) + 1
            if p['end_time'] is not None:
                w.att_after_end.add(k)
        elif p is not None and p['end_time'] is not None and op[0] in ('billing', 'complete', 'started', 'unschedule', 'deactivate'):
            w.att_after_end.add(k)
    # the statement's exceptions are about the *report*: a deactivation that marks an activation timeout (instance never activated)
    timeout_instance = res.get('instance') if (op[0] == 'deactivate' and res.get('ok') and res.get('reason') == 'activation_timeout') else None
    if timeout_instance is not None:
        w.saw_timeout_with_attempts = getattr(w, 'saw_timeout_with_attempts', False) or any(
            a['instance_name'] == timeout_instance for a in cur.attempts.values())
    return O.check_attempt_monotone(prev, cur, timeout_instance)


def extra(w):
    out = set()
    ups = getattr(w, 'att_updates', {})
    if any(n >= 3 for n in ups.values()):
        out.add('attempt_with_3_updates')
    if getattr(w, 'att_after_end', None):
        out.add('report_after_end')
    if getattr(w, 'saw_timeout_with_attempts', False):
        out.add('activation_timeout_with_attempts')
    return out


def nontrivial(w, cls):
    return 'attempt_with_3_updates' in cls and 'report_after_end' in cls


plan, run_shard, replay = H.standard_module(PROPERTY, 'billing', step, nontrivial, RULE, quick_n=60, thorough_n=1500, extra_classes=extra)
