"""C32 — Value JSON conversion round-trips.

For every Hail type t and every Python value v of that type:  from_json(loads(dumps(to_json(v)))) ≡ v and the result
is well typed.  The pair under test is the one the front end itself uses: `t._convert_to_json_na` + the front end's
`hail.utils.jsonx.JSONEncoder` for the text hop (exactly what `ir.Literal.head_str` -> `dump_json` does) and
`t._convert_from_json_na` on the way back; the plain `t._to_json` / `t._from_json` pair is checked as well whenever
the value holds no numpy scalar that the std-lib encoder cannot print.
"""
from __future__ import annotations

import json
import traceback

from vlib import hailenv, hailgen, hostenv
from vlib.runner import Result

PROPERTY = 'C32'
LEVEL = 'exploration'
RULE = ('(type, value) pairs from vlib.hailgen: recursive types over int32/int64/float32/float64/bool/str/call/locus/'
        'interval/array/set/dict/tuple/struct/ndarray (field and reference-genome names from an escaping-stress '
        'alphabet); values with missing at every nullable position, NaN/±inf/-0.0, int extremes, numpy scalars, all call '
        'ploidies/phasings, loci at contig ends, 4 interval closures, empty/nested/frozen containers, C/F/strided '
        'ndarrays with zero-length axes; plus a deterministic grid pool-value x container context. Oracle: '
        'from_json(loads(dumps(to_json(v)))) == v under Hail value equality (NaN==NaN, -0.0!=0.0, sets/dicts unordered) and '
        'result typechecks. Non-trivial: value has >=1 missing AND (>=1 nested container OR a float special); distinct by '
        'canonical (type, value) descriptor.')
ASSUMPTIONS = [
    'a Hail str is a UTF-8 sequence: no lone surrogates are generated',
    'float32 values are float32-representable; python ints given as floats are exactly representable',
    'struct values are full mappings (hl.Struct / dict / frozendict); set elements and dict keys use the frozen forms',
    'well-typed means accepted by the traversal hl.literal performs (_traverse + _typecheck_one_level)',
    'ndarray element types are the numeric types (+bool); set<ndarray> is not representable in Python',
]
TRUSTED = ['vlib/hailgen.py value builder and canon() equality', 'vlib/hailenv.py (PEG shim, FakeBackend, stubs)',
           'python json module']

_ready = None


def _env():
    global _ready
    if _ready is None:
        hl = hailenv.init()
        from hail.utils.jsonx import JSONEncoder
        _ready = (hl, JSONEncoder)
    return _ready


def _frame(exc):
    """innermost frame inside the repository: 'Class.function' (stable part of a signature)."""
    root = hostenv.REPO
    best = None
    for fs, _ in traceback.walk_tb(exc.__traceback__):
        if fs.f_code.co_filename.startswith(root):
            slf = fs.f_locals.get('self')
            best = (type(slf).__name__ + '.' if slf is not None else '') + fs.f_code.co_name
    return best or '?'


def _has_np_scalar(vd):
    if isinstance(vd, list):
        if len(vd) == 2 and vd[0] == 'np' and not isinstance(vd[1], list):
            return True
        return any(_has_np_scalar(x) for x in vd)
    if isinstance(vd, dict):
        return False
    return False


def oracle(td, vd):
    """None if the round trip holds for (td, vd), else dict(phase, exc, msg)."""
    hl, JSONEncoder = _env()
    t = hailgen.build_type(td)
    v = hailgen.build_value(td, vd)
    try:
        j = t._convert_to_json_na(v)
    except Exception as e:
        return dict(phase='to_json', exc=type(e).__name__, frame=_frame(e), msg=f'_convert_to_json_na raised {e!r}')
    try:
        wire = json.dumps(j, cls=JSONEncoder)
    except Exception as e:
        return dict(phase='dumps', exc=type(e).__name__, frame='json.dumps', msg=f'json.dumps(JSONEncoder) raised {e!r} on {j!r}')
    try:
        back = t._convert_from_json_na(json.loads(wire))
    except Exception as e:
        return dict(phase='from_json', exc=type(e).__name__, frame=_frame(e),
                    msg=f'_convert_from_json_na raised {e!r} on wire {wire[:300]}')
    ca, cb = hailgen.canon(t, v), hailgen.canon(t, back)
    if ca != cb:
        return dict(phase='mismatch', exc='neq', frame='-', msg=f'value {v!r} came back as {back!r} (wire {wire[:300]})')
    try:
        hailgen.typechecks(t, back)
    except Exception as e:
        return dict(phase='typecheck', exc=type(e).__name__, frame=_frame(e), msg=f'result {back!r} does not typecheck: {e!r}')
    if not _has_np_scalar(vd):
        try:
            back2 = t._from_json(t._to_json(v))
        except Exception as e:
            return dict(phase='public_pair', exc=type(e).__name__, frame=_frame(e), msg=f'_from_json(_to_json(v)) raised {e!r}')
        if hailgen.canon(t, back2) != ca:
            return dict(phase='public_pair', exc='neq', frame='-', msg=f'_from_json(_to_json(v)): {v!r} came back as {back2!r}')
    return None


ROOT_QUALS = {'missing-value', 'missing-key', 'field-named-self', 'missing-element', 'numpy-scalar',
              'python-int-as-float', 'order-F', 'order-S', 'zero-axis', 'top-level-missing'}


def diagnose(td, vd, orc):
    """-> (signature, clause, message) for a failing (td, vd) under oracle `orc` (localised + root-cause qualified)."""
    path, ltd, lvd, f = hailgen.localize(td, vd, orc)
    lvd = hailgen.shrink_locus(ltd, lvd, orc)
    f = orc(ltd, lvd) or f
    quals = [q for q in hailgen.qualifiers(ltd, lvd, orc) if q in ROOT_QUALS]
    k = hailgen.kind(ltd)
    if k == 'struct' and 'field-named-self' in quals:
        renamed = ['struct', [[('self_' if n == 'self' else n), x] for n, x in ltd[1]]]
        if orc(renamed, lvd):          # still fails without the field name: the name is not the cause
            quals.remove('field-named-self')
    if quals:
        sig = f'{k}:{"+".join(sorted(quals))}'
    else:
        sig = f'{k}:{f["phase"]}:{f["exc"]}'
    msg = (f'{f["msg"]} | minimal sub-case at /{"/".join(path)}: type={hailgen.build_type(ltd)} '
           f'tdesc={json.dumps(ltd)} vdesc={json.dumps(lvd)} frame={f["frame"]}')
    return sig, f'{f["phase"]}', msg


CLAUSES = {
    'to_json': 'conversion to the JSON wire form succeeds for every well-typed value',
    'dumps': 'the JSON form serialises with the front end\'s JSONEncoder',
    'from_json': 'conversion back from the JSON wire form succeeds',
    'mismatch': 'converting to JSON and back yields an equal value',
    'typecheck': 'the value converted back is well typed',
    'public_pair': '_from_json(_to_json(v)) yields an equal value',
}


def check_case(case, orc=None):
    orc = orc or oracle
    td, vd = case['t'], case['v']
    t = hailgen.build_type(td)
    v = hailgen.build_value(td, vd)
    hailgen.typechecks(t, v)        # generator contract; a TypeError here is a harness error (exit 2)
    stats = hailgen.value_stats(td, vd)
    nontrivial = bool(stats.get('missing')) and bool(stats.get('nested_container') or stats.get('float_special'))
    classes = hailgen.classes_of(stats) + [f'top_{hailgen.kind(td)}']
    fails = []
    if orc(td, vd):
        sig, phase, msg = diagnose(td, vd, orc)
        fails.append((sig, CLAUSES.get(phase, phase), msg))
    return nontrivial, classes, fails


# ---------------------------------------------------------------------------------------------------------------
# deterministic grid: pool value x container context
# ---------------------------------------------------------------------------------------------------------------

def grid_cases():
    leafs = []
    for k, pool in (('int32', hailgen.I32), ('int64', hailgen.I64), ('float32', hailgen.F32), ('float64', hailgen.F64)):
        for x in pool:
            leafs.append((k, x))
        leafs.append((k, ['np', pool[3]]))
    leafs += [('float64', ['int', 7]), ('float32', ['int', -3]), ('bool', True), ('bool', False)]
    leafs += [('str', s) for s in hailgen.STR_POOL]
    leafs += [('call', c) for c in ([[], False], [[], True], [[0], False], [[3], True], [[0, 1], False], [[2, 1], False],
                                    [[1, 0], True], [[0, 0], True], [[1000, 999], True], [[7, 8], False])]
    for rg in ('GRCh37', 'GRCh38', 'vrf:r`g'):
        for c, n in hailgen._contigs_of(rg):
            leafs += [(['locus', rg], [c, 1]), (['locus', rg], [c, n])]
    for elt, vals in (('float64', ['nan', (-0.0).hex(), 'inf']), ('int64', [2 ** 63 - 1, -2 ** 63, 0]), ('bool', [True, False, True]),
                      ('float32', ['nan', '-inf', (0.5).hex()]), ('int32', [-2 ** 31, 1, 2])):
        for order in 'CFS':
            leafs.append((['ndarray', elt, 1], {'shape': [3], 'order': order, 'data': vals}))
            leafs.append((['ndarray', elt, 2], {'shape': [3, 2], 'order': order, 'data': vals + vals}))
            leafs.append((['ndarray', elt, 3], {'shape': [1, 3, 2], 'order': order, 'data': vals + vals}))
            leafs.append((['ndarray', elt, 2], {'shape': [0, 2], 'order': order, 'data': []}))
        leafs.append((['ndarray', elt, 0], {'shape': [], 'order': 'C', 'data': vals[:1]}))
    for td, vd in leafs:
        hashable = hailgen.kind(td) != 'ndarray'
        yield {'t': td, 'v': vd}
        yield {'t': ['array', td], 'v': ['list', [vd, None, vd]]}
        yield {'t': ['array', td], 'v': ['list', [None] * 9 + [vd]]}
        yield {'t': ['tuple', [td, td]], 'v': [vd, None]}
        yield {'t': ['struct', [['a', td], ['b c', td]]], 'v': ['Struct', [vd, None]]}
        yield {'t': ['struct', [['a', td]]], 'v': ['dict', [vd]]}
        yield {'t': ['interval', td], 'v': [vd, vd, True, True]}
        yield {'t': ['interval', td], 'v': [None, vd, False, True]}
        yield {'t': ['dict', 'str', td], 'v': ['dict', [['k', vd]]]}
        yield {'t': ['dict', 'str', ['array', td]], 'v': ['dict', [['k', ['list', [vd, None]]]]]}
        if hashable:
            yield {'t': ['set', td], 'v': ['set', [vd]]}
            yield {'t': ['set', td], 'v': ['frozenset', [vd, None]]}
            yield {'t': ['dict', td, 'int32'], 'v': ['dict', [[vd, 1]]]}
            yield {'t': ['set', ['struct', [['x', td]]]], 'v': ['set', [['Struct', [vd]], ['Struct', [None]]]]}
            yield {'t': ['set', ['array', td]], 'v': ['set', [['frozenlist', [vd, None]]]]}
            yield {'t': ['dict', ['tuple', [td, 'str']], td], 'v': ['frozendict', [[[vd, None], vd]]]}


def plan(tier):
    n = 16
    per = 1200 if tier == 'quick' else 20000
    return [dict(kind='grid')] + [dict(kind='hyp', n=per, max_leaves=(4, 6, 8, 12)[i % 4]) for i in range(n - 1)]


def run_shard(spec, seed, tier, orc=None):
    res = Result()
    _env()
    chk = (lambda case: check_case(case, orc)) if orc else check_case
    if spec['kind'] == 'grid':
        for case in grid_cases():
            nt, classes, fails = chk(case)
            res.case(case, nt, classes)
            for sig, cl, msg in fails:
                res.fail(sig, cl, msg, case)
        res.notes['grid_cases'] = res.evaluations
        return res
    from vlib.hyp import search
    search(res, PROPERTY, hailgen.cases(spec['max_leaves']), chk, spec['n'], seed, shrink=True)
    return res


def replay(case):
    _env()
    _, _, fails = check_case(case)
    return [dict(signature=s, clause=c, message=m, case=case) for s, c, m in fails]
