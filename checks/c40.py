"""C40 — hailtop.aiotools.weighted_semaphore.WeightedSemaphore is safe and releases on cancellation."""
from __future__ import annotations

from vlib import hostenv
from vlib.runner import Result

PROPERTY = 'C40'
LEVEL = 'exploration'
RULE = ('op lists over enter(w<=max) [new task doing `async with sem.acquire_manager(w)` whose body waits on a harness gate], '
        'finish(i), fail(i) [body raises], cancel(i) at any stage (queued / granted-but-not-yet-resumed / holding); the loop is '
        'drained after each op. Oracle from the statement: sum of weights inside bodies <= max; at every quiescent point '
        'sem.value == max - sum(weights of tasks that hold or have been granted and are still alive) [a waiter cancelled before '
        'being granted consumes nothing]; no live waiter with weight <= value stays blocked when it is the smallest queued; '
        'after all tasks are done value == max and the wait list is empty. Exhaustive sequences for small max; Hypothesis lists '
        'for max 1..16. Non-trivial: a cancel or fail hits a task while >= 1 other task is queued.')
ASSUMPTIONS = ['single-threaded asyncio; op order fixes the schedule', 'grant order is not part of C40 (the semaphore serves smallest weight first)']
TRUSTED = ['vlib/aiosched.py virtual loop']


class Boom(Exception):
    pass


def run_case(case):
    hostenv.install()
    import asyncio
    from hailtop.aiotools.weighted_semaphore import WeightedSemaphore
    from vlib.aiosched import new_loop, close_loop, Gate

    mx = case['max']
    ops = case['ops']
    loop = new_loop()
    fails = []
    classes = set()
    nontrivial = False
    try:
        sem = WeightedSemaphore(mx)
        inside = {}      # id -> weight, while in body
        gates = {}
        weights = {}
        tasks = {}
        order = []

        async def body(i, w):
            async with sem.acquire_manager(w):
                inside[i] = w
                try:
                    r = await gates[i]
                    if r == 'fail':
                        raise Boom()
                finally:
                    del inside[i]

        def live_waiters():
            return [i for i in order if not tasks[i].done() and i not in inside]

        def audit(step, final=False):
            held = sum(inside.values())
            if held > mx:
                fails.append(('over-capacity', 'sum of weights inside bodies <= max', f'step {step}: held {held} > max {mx}'))
            # tasks alive and not inside are waiters (settled loop => granted tasks have resumed into the body)
            if sem.value != mx - held:
                fails.append(('capacity-leak', 'value == max - sum(held): cancelled/finished tasks return or never take capacity',
                              f'step {step}: value {sem.value}, max {mx}, held {held}, inside {dict(inside)}, '
                              f'waiters {[(i, weights[i]) for i in live_waiters()]}'))
            lw = live_waiters()
            if lw:
                smallest = min(weights[i] for i in lw)
                if smallest <= mx - held:
                    fails.append(('blocked-with-capacity', 'a waiter is not left blocked while capacity for it is free',
                                  f'step {step}: waiters {[(i, weights[i]) for i in lw]} free {mx - held} value {sem.value}'))
            if final:
                if sem.value != mx:
                    fails.append(('final-value', 'after all holders exit value == max', f'value {sem.value} max {mx}'))
                if len(sem.events) != 0:
                    fails.append(('stale-waiter-entry', 'no event left queued after all tasks are done',
                                  f'{len(sem.events)} entries left in wait list'))

        nid = 0
        for step, op in enumerate(ops):
            kind = op[0]
            if kind == 'e':
                w = 1 + (op[1] - 1) % mx
                i = nid
                nid += 1
                weights[i] = w
                gates[i] = Gate(loop)
                order.append(i)
                tasks[i] = loop.create_task(body(i, w))
            else:
                alive = [i for i in order if not tasks[i].done()]
                if kind in ('f', 'x'):
                    hs = [i for i in alive if i in inside]
                    if not hs:
                        classes.add('skipped')
                        continue
                    i = hs[op[1] % len(hs)]
                    if len(live_waiters()) >= 1 and kind == 'x':
                        nontrivial = True
                        classes.add('fail_with_waiters')
                    gates[i].open('fail' if kind == 'x' else 'ok')
                elif kind == 'c':
                    if not alive:
                        classes.add('skipped')
                        continue
                    i = alive[op[1] % len(alive)]
                    if i in inside:
                        classes.add('cancel_holder')
                        if live_waiters():
                            nontrivial = True
                    else:
                        classes.add('cancel_waiter')
                        if len(live_waiters()) >= 2 or inside:
                            nontrivial = True
                    tasks[i].cancel()
                elif kind == 'cf':
                    # cancel a waiter in the same tick in which a release grants it (granted-not-resumed)
                    hs = [i for i in alive if i in inside]
                    ws = live_waiters()
                    if not hs or not ws:
                        classes.add('skipped')
                        continue
                    h = hs[op[1] % len(hs)]
                    wtr = ws[op[2] % len(ws)]
                    gates[h].open('ok')
                    # let the holder exit (release -> event.set) but cancel the waiter before it resumes
                    for _ in range(op[3] % 4):
                        with loop._Running(loop):
                            if loop._ready:
                                saved = loop._auto_jump
                                loop._auto_jump = False
                                try:
                                    super(type(loop), loop)._run_once()
                                finally:
                                    loop._auto_jump = saved
                    tasks[wtr].cancel()
                    classes.add('cancel_racing_grant')
                    nontrivial = True
            loop.settle()
            audit(step)
            if fails:
                break
        if not fails:
            # close: finish every holder repeatedly until nothing is alive
            for _ in range(len(order) + 2):
                for i in list(inside):
                    gates[i].open('ok')
                loop.settle()
                if all(t.done() for t in tasks.values()):
                    break
            alive = [i for i in order if not tasks[i].done()]
            if alive:
                fails.append(('stuck-waiters', 'waiters are eventually granted once holders exit',
                              f'tasks {[(i, weights[i]) for i in alive]} never finished; value {sem.value}'))
            else:
                audit('final', final=True)
        for t in tasks.values():
            if t.done() and not t.cancelled():
                t.exception()
    finally:
        close_loop(loop)
    return nontrivial, sorted(classes), fails


def plan(tier):
    if tier == 'quick':
        return [dict(kind='exh', max=m, maxlen=l) for m, l in ((1, 6), (2, 6), (3, 5))] + [dict(kind='hyp', n=1500) for _ in range(10)]
    return [dict(kind='exh', max=m, maxlen=l) for m, l in ((1, 9), (2, 8), (3, 7))] + [dict(kind='hyp', n=25000) for _ in range(13)]


def _enumerate(mx, maxlen):
    import itertools
    alphabet = [['e', w] for w in range(1, mx + 1)] + [['f', 0], ['f', 1], ['x', 0], ['c', 0], ['c', 1], ['c', 2],
                                                        ['cf', 0, 0, 1], ['cf', 0, 0, 2]]
    for seq in itertools.product(alphabet, repeat=maxlen):
        if seq[0][0] != 'e':
            continue
        yield [list(o) for o in seq]


def run_shard(spec, seed, tier):
    res = Result()
    if spec['kind'] == 'exh':
        res.exhaustive = True
        for ops in _enumerate(spec['max'], spec['maxlen']):
            case = dict(max=spec['max'], ops=ops)
            nt, cls, fl = run_case(case)
            res.case(case, nt, cls)
            for s, c, m in fl:
                res.fail(s, c, m, case)
    else:
        from hypothesis import strategies as st
        from vlib.hyp import search
        op = st.one_of(
            st.tuples(st.just('e'), st.integers(1, 16)).map(list),
            st.tuples(st.sampled_from(['f', 'x', 'c']), st.integers(0, 7)).map(list),
            st.tuples(st.just('cf'), st.integers(0, 3), st.integers(0, 3), st.integers(0, 3)).map(list))
        strat = st.builds(lambda m, ops: dict(max=m, ops=ops), st.integers(1, 16), st.lists(op, min_size=1, max_size=40))
        search(res, PROPERTY, strat, run_case, spec['n'], seed)
    return res


def replay(case):
    nt, cls, fl = run_case(case)
    return [dict(signature=s, clause=c, message=m, case=case) for s, c, m in fl]
