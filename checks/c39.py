"""C39 — job lifecycle protocol terminates and never double-runs."""
from vlib.batchsim import histcheck as H, oracle as O

PROPERTY = 'C39'
LEVEL = 'exploration'
RULE = ('small committed batches (DAGs, always_run mix, nested groups) on pool and job-private instances; actors interleaved by a '
        'Hypothesis-generated op list: the real PoolScheduler.schedule_loop_body, the four Canceller loop bodies, simulated workers '
        '(started / complete reports, duplicated, late, stale), preemption (deactivate), user cancels. Safety after every op: a job '
        'has at most one current attempt (jobs.attempt_id) and a Running/Creating job always has one; a worker report for a '
        'non-current attempt never changes the job state. Then a FAIR CLOSING PHASE without faults: workers exist for every pool '
        'with ready jobs, every un-ended attempt on an active instance (current or stale) reports success, pending job-private instances activate, '
        'scheduler / canceller / orphan bodies run round-robin until a full round changes nothing. Liveness (bounded): at that '
        'fixpoint every job of a committed update is terminal, every batch with a committed update is complete, and every always_run '
        'job whose parents are terminal has RUN (not Cancelled). Hitting the round bound (60) without fixpoint is inconclusive. '
        'Non-trivial: a preemption or cancel happened while a job was Running.')
ASSUMPTIONS = ['liveness only as fixpoint detection under the stated fairness model, at transaction granularity; no real time',
               'known findings (nested cancel error 1242, uncommitted-update defects, commit after cancel) are excluded by construction']
TRUSTED = ['vlib/minimysql', 'vlib/batchsim', 'vlib/batchsim/oracle.py']
ROUNDS = 60


def step(w, prev, cur, op, res):
    for k, j in cur.jobs.items():
        if j['state'] in ('Running', 'Creating'):
            if j['attempt_id'] is None or (k[0], k[1], j['attempt_id']) not in cur.attempts:
                return [('running-without-attempt', 'a running job has exactly one current attempt', f'job {k} is {j["state"]} with attempt_id {j["attempt_id"]}')]
    if op[0] in ('complete', 'started', 'unschedule') and res.get('ok') and res.get('job') is not None:
        k = tuple(res['job'])
        p, c = prev.jobs.get(k), cur.jobs.get(k)
        if p is not None and c is not None and p['attempt_id'] is not None and p['attempt_id'] != res['attempt_id'] and p['state'] != c['state']:
            return [('stale-report-changed-state', 'a report for a non-current attempt never changes the job state',
                     f'job {k}: current attempt {p["attempt_id"]}, report for {res["attempt_id"]} moved {p["state"]} -> {c["state"]}')]
    if op[0] in ('deactivate', 'cancel') and res.get('ok'):
        if any(j['state'] == 'Running' for j in prev.jobs.values()):
            w.fault_while_running = True
    return []


async def closing(w, last_view):
    from vlib.batchsim.oracle import View
    fails = []
    prev_sig = None
    for rnd in range(ROUNDS):
        v = View(w.snap())
        # workers exist for every pool that has ready jobs
        for pi, pname in enumerate(w.pools):
            if any(j['state'] == 'Ready' and j['inst_coll'] == pname for j in v.jobs.values()) and \
                    not any(i.state == 'active' and i.inst_coll.name == pname for i in w.instances.values()):
                await w.apply(['instance', pi, True])
        for pi in range(len(w.pools)):
            await w.apply(['sched_loop', pi])
        for i in range(4):
            await w.apply(['creating', i, 0, None])
        for n in list(w.inst_list):
            if w.instances[n].state == 'pending' and w.instances[n].inst_coll is w.jpim:
                await w.apply(['activate', w.inst_list.index(n)])
        for i in range(4):
            await w.apply(['jp_schedule', i])
        for kind in ('cancel_ready', 'cancel_creating', 'cancel_running', 'cancel_orphans'):
            await w.apply([kind])
        v = View(w.snap())
        # every current attempt on an active instance finishes successfully
        live = [x for x in w.attempts if x['instance'] in w.instances and w.instances[x['instance']].state == 'active']
        # every attempt a worker was handed (current or not) that has not ended runs to completion and is reported
        for idx, a in enumerate(live):
            row = v.attempts.get((a['batch_id'], a['job_id'], a['attempt_id']))
            if row is not None and row['end_time'] is None:
                await w.apply(['started', idx, 0, None])
                await w.apply(['complete', idx, 0, 0, 1, None, True, 1])
        v = View(w.snap())
        sig = (tuple(sorted((k, j['state'], j['attempt_id']) for k, j in v.jobs.items())),
               tuple(sorted((k, g['state']) for k, g in v.groups.items())), len(v.attempts),
               tuple(sorted((i['name'], i['state']) for i in v.S['instances'])))
        if sig == prev_sig:
            break
        prev_sig = sig
    else:
        w.inconclusive = True
        return []
    w.closing_rounds = rnd
    # jobs whose completion the harness itself withholds (known finding: a parent with a child in a still uncommitted later update
    # must not complete in guarded runs) are not judged, nor are their batches
    frozen = set(w._frozen_parents()) if 'uncommitted-child-made-ready-by-parent-completion' in w.guards else set()
    if frozen:
        w.closing_blocked_by_guard = True
    # a committed job that (transitively) depends on a job of an update that was never committed can never become ready: the
    # submission itself is at fault (cf. C08: counted, not judged), so neither it nor its batch is judged
    blocked = {k for k, j in v.jobs.items() if not v.committed(k[0], j['update_id'])}
    parents = {}
    for r in v.S['job_parents']:
        parents.setdefault((r['batch_id'], r['job_id']), []).append((r['batch_id'], r['parent_id']))
    grew = True
    while grew:
        grew = False
        for k, ps in parents.items():
            if k not in blocked and any(p in blocked for p in ps):
                blocked.add(k)
                grew = True
    dangling = {k for k in blocked if v.committed(k[0], v.jobs[k]['update_id'])} if blocked else set()
    if dangling:
        w.closing_dangling_dependency = True
    skip_batches = {fb for fb, _ in frozen} | {k[0] for k in dangling}
    for k, j in v.jobs.items():
        if not v.committed(k[0], j['update_id']) or k[0] in skip_batches:
            continue          # (descendants of a withheld job cannot finish either: the whole batch is left unjudged)
        if j['state'] not in O.TERMINAL:
            return [('job-never-terminates', 'every job of a committed batch whose attempts finish reaches a terminal state',
                     f'fixpoint after {rnd} fair rounds with job {k} in state {j["state"]} (cancelled={j["cancelled"]}, always_run={j["always_run"]}, '
                     f'group cancelled={v.group_cancelled(k[0], j["job_group_id"])})')]
        if j['always_run'] and j['state'] == 'Cancelled':
            return [('always-run-cancelled', 'always-run jobs of a cancelled batch still run to completion', f'job {k} always_run ended Cancelled')]
    for (b, g), grp in v.groups.items():
        if b in skip_batches:
            continue
        if g == 0 and any(u['committed'] and u['batch_id'] == b for u in v.S['batch_updates']) and grp['state'] != 'complete':
            js = [j for (bb, _), j in v.jobs.items() if bb == b and v.committed(b, j['update_id'])]
            if js:
                return [('batch-never-completes', 'a (cancelled) batch eventually completes', f'batch {b} state {grp["state"]} at the fixpoint with all jobs terminal')]
    return fails


def extra(w):
    out = set()
    if getattr(w, 'closing_blocked_by_guard', False):
        out.add('closing_not_judged_for_frozen_parent')
    if getattr(w, 'closing_dangling_dependency', False):
        out.add('closing_not_judged_dependency_on_uncommitted_update')
    if getattr(w, 'fault_while_running', False):
        out.add('fault_while_running')
    if getattr(w, 'inconclusive', False):
        out.add('closing_inconclusive')
    if getattr(w, 'closing_rounds', 0) >= 3:
        out.add('closing_needed_3plus_rounds')
    return out


def nontrivial(w, cls):
    return 'fault_while_running' in cls


plan, run_shard, replay = H.standard_module(PROPERTY, 'lifecycle', step, nontrivial, RULE, quick_n=40, thorough_n=1000, extra_classes=extra,
                                           final_oracle=closing, max_ops=30)
