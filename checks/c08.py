"""C08 — accepted job graphs can always finish."""
from __future__ import annotations

import json

from vlib.runner import Result

PROPERTY = 'C08'
LEVEL = 'exploration'
RULE = ('JSON bodies for POST create-fast, update-fast, updates/{id}/jobs/create and the deprecated jobs/create, produced by a '
        'schema-directed generator (always pass job_validator) through the real aiohttp application (validation is part of the '
        'property); job ids / parent ids drawn adversarially: missing (> n), later, self, <= 0, duplicates, ids outside the '
        "update's reserved range, absolute ids into another update's unfilled range; bunches in and out of order. Oracle: if the "
        'server answers 2xx to every request of the submission and the commit succeeds, then every job_parents.parent_id of the '
        'committed batch names an existing job with a smaller id, every job id lies in its update range, and driving the batch '
        'fairly (real scheduler loop + every attempt succeeds) reaches complete=true with all jobs Success; if a request is refused '
        '(non-2xx) the committed-visible state of the batch (committed jobs, job_parents, n_jobs, group states) is unchanged. '
        'Non-trivial: the submission contains >= 1 adversarial reference.')
ASSUMPTIONS = ['serializable at transaction granularity on minimysql', 'fair drive: workers exist, every attempt succeeds (as C39 closing phase)']
TRUSTED = ['vlib/minimysql', 'vlib/batchsim (HttpWorld)', 'committed-state projection in checks/c08.py']

OWNER = {'username': 'u1', 'hail_credentials_secret_name': 'u1-gsa-key', 'tokens_secret_name': 'u1-tokens', 'is_developer': 0,
         'is_service_account': 0, 'login_id': 'u1', 'hail_identity': 'u1@x', 'state': 'active', 'display_name': 'u1', 'id': 1,
         'namespace_name': 'default', 'hail_credentials_secret_name_2': None, 'trial_bp_name': None, 'last_activated': None}
H = {'Authorization': 'Bearer tok-owner', 'Content-Type': 'application/json'}


def job_spec(j, k):
    spec = {'job_id': j.get('id', k + 1), 'process': {'type': 'docker', 'command': ['true'], 'image': 'ubuntu'},
            'resources': {'cpu': '0.25'}}
    if j.get('ar'):
        spec['always_run'] = True
    if j.get('inp') is not None:
        spec['in_update_parent_ids'] = j['inp']
    if j.get('absp') is not None:
        spec['absolute_parent_ids'] = j['absp']
    if j.get('oldp') is not None:
        spec['parent_ids'] = j['oldp']
    spec['in_update_job_group_id' if j.get('ing') else 'absolute_job_group_id'] = j.get('g', 0)
    return spec


def committed_projection(w, b):
    q = w.q
    jobs = q('''SELECT jobs.job_id, jobs.update_id, jobs.state, jobs.n_pending_parents, jobs.job_group_id FROM jobs
INNER JOIN batch_updates ON batch_updates.batch_id = jobs.batch_id AND batch_updates.update_id = jobs.update_id
WHERE jobs.batch_id = %s AND batch_updates.committed ORDER BY jobs.job_id''', (b,))
    parents = q('''SELECT job_parents.job_id, parent_id FROM job_parents INNER JOIN jobs ON jobs.batch_id = job_parents.batch_id AND jobs.job_id = job_parents.job_id
INNER JOIN batch_updates ON batch_updates.batch_id = jobs.batch_id AND batch_updates.update_id = jobs.update_id
WHERE job_parents.batch_id = %s AND batch_updates.committed ORDER BY job_parents.job_id, parent_id''', (b,))
    bt = q('SELECT n_jobs, state FROM batches WHERE id = %s', (b,))
    grp = q('SELECT job_group_id, n_jobs, state FROM job_groups WHERE batch_id = %s ORDER BY job_group_id', (b,))
    return json.dumps([jobs, parents, bt, [g for g in grp if g['n_jobs'] or g['job_group_id'] == 0]], default=str, sort_keys=True)


async def drive(w, rounds=40):
    """fair closing: scheduler loop + every live attempt succeeds, until nothing changes"""
    prev = None
    for _ in range(rounds):
        for pi in range(len(w.pools)):
            await w.apply(['sched_loop', pi])
        rows = w.q('SELECT batch_id, job_id, attempt_id, end_time FROM attempts')
        ended = {(r['batch_id'], r['job_id'], r['attempt_id']) for r in rows if r['end_time'] is not None}
        live = [x for x in w.attempts if x['instance'] in w.instances and w.instances[x['instance']].state == 'active']
        for idx, a in enumerate(live):
            if (a['batch_id'], a['job_id'], a['attempt_id']) not in ended:
                await w.apply(['started', idx, 0, None])
                await w.apply(['complete', idx, 0, 0, 1, None, True, 1])
        sig = json.dumps(w.q('SELECT batch_id, job_id, state FROM jobs ORDER BY batch_id, job_id'))
        if sig == prev:
            break
        prev = sig


def run_case(case):
    from vlib.batchsim.httpapp import HttpWorld
    from vlib.batchsim.histcheck import all_known_signatures
    from vlib.aiosched import new_loop, close_loop, Deadlock
    out = {}

    async def go():
        w = HttpWorld(n_tokens=1, seed_draws=[0], guards=all_known_signatures())
        await w.start()
        fails = []
        classes = set()
        try:
            w.tokens['tok-owner'] = dict(OWNER)
            await w.apply(['instance', 0, True])
            adversarial = False
            bid = None
            for si, sub in enumerate(case['subs']):
                kind = sub['kind']
                jobs = [job_spec(j, k) for k, j in enumerate(sub['jobs'])]
                n_decl = sub.get('n_jobs', len(jobs))
                adversarial = adversarial or sub.get('adv', False)
                before = committed_projection(w, bid) if bid is not None else None
                statuses = []
                if kind == 'create_fast' or bid is None:
                    body = {'batch': {'billing_project': 'bp1', 'token': f'bt{si}', 'n_jobs': n_decl, 'n_job_groups': 0}, 'bunch': jobs, 'job_groups': []}
                    r = await w.request('POST', '/api/v1alpha/batches/create-fast', headers=H, body=json.dumps(body).encode())
                    statuses.append(r['status'])
                    if r['status'] == 200 and r['json']:
                        bid = r['json']['id']
                    elif bid is None:
                        row = w.q('SELECT id FROM batches ORDER BY id DESC LIMIT 1')
                        bid = row[0]['id'] if row else None
                    classes.add('create_fast')
                elif kind == 'update_fast':
                    body = {'update': {'token': f'ut{si}', 'n_jobs': n_decl, 'n_job_groups': 0}, 'bunch': jobs, 'job_groups': []}
                    r = await w.request('POST', f'/api/v1alpha/batches/{bid}/update-fast', headers=H, body=json.dumps(body).encode())
                    statuses.append(r['status'])
                    classes.add('update_fast')
                else:   # slow path: create update, send bunches (possibly split / out of order), commit
                    r = await w.request('POST', f'/api/v1alpha/batches/{bid}/updates/create', headers=H,
                                        body=json.dumps({'token': f'ut{si}', 'n_jobs': n_decl, 'n_job_groups': 0}).encode())
                    statuses.append(r['status'])
                    classes.add('slow_path')
                    if r['status'] == 200:
                        uid = r['json']['update_id']
                        cut = sub.get('cut', len(jobs))
                        bunches = [jobs[:cut], jobs[cut:]] if 0 < cut < len(jobs) else [jobs]
                        if sub.get('swap') and len(bunches) == 2:
                            bunches.reverse()
                            classes.add('bunches_out_of_order')
                        for bn in bunches:
                            if not bn:
                                continue
                            path = f'/api/v1alpha/batches/{bid}/updates/{uid}/jobs/create'
                            if sub.get('deprecated') and uid == 1:
                                path = f'/api/v1alpha/batches/{bid}/jobs/create'
                                classes.add('deprecated_endpoint')
                            r = await w.request('POST', path, headers=H, body=json.dumps(bn).encode())
                            statuses.append(r['status'])
                        r = await w.request('PATCH', f'/api/v1alpha/batches/{bid}/updates/{uid}/commit', headers=H)
                        statuses.append(r['status'])
                if r.get('notsupported'):
                    raise RuntimeError('NotSupported: ' + str(r['notsupported']))
                all_ok = all(s is not None and 200 <= s < 300 for s in statuses)
                classes.add('accepted' if all_ok else 'refused')
                if bid is None:
                    continue
                if not all_ok and ({'uncommitted-update1-job-scheduled', 'uncommitted-child-made-ready-by-parent-completion'} & w.guards) and \
                        w.q('SELECT 1 AS x FROM batch_updates INNER JOIN jobs ON jobs.batch_id = batch_updates.batch_id AND jobs.update_id = batch_updates.update_id '
                            'WHERE batch_updates.batch_id = %s AND NOT committed', (bid,)):
                    # known findings (C41/C01): jobs of an update that stays uncommitted would be made ready / scheduled by the
                    # driver as soon as the batch runs; the case stops here (excluded by construction, counted)
                    classes.add('excluded_known_uncommitted_update1')
                    stop_after = True
                else:
                    stop_after = False
                if not all_ok:
                    refused_500 = any(s is not None and s >= 500 for s in statuses)
                    if refused_500:
                        classes.add('refused_with_5xx')
                    after = committed_projection(w, bid)
                    if before is not None and after != before and statuses[-1] is not None and not (200 <= statuses[-1] < 300):
                        fails.append(('refused-but-changed', 'a rejected submission leaves the batch unchanged',
                                      f'submission #{si} statuses {statuses}: committed-visible state changed'))
                        break
                    if stop_after:
                        out['skip_drive'] = True
                        break
                    continue
                # accepted: structural validity of the committed batch
                jobs_rows = w.q('SELECT job_id, update_id FROM jobs WHERE batch_id = %s', (bid,))
                ids = {r_['job_id'] for r_ in jobs_rows}
                rng = {u['update_id']: (u['start_job_id'], u['start_job_id'] + u['n_jobs']) for u in
                       w.q('SELECT update_id, start_job_id, n_jobs FROM batch_updates WHERE batch_id = %s', (bid,))}
                for r_ in jobs_rows:
                    lo, hi = rng[r_['update_id']]
                    if not (lo <= r_['job_id'] < hi):
                        fails.append(('job-id-outside-update-range', 'a job id outside its update reserved range is rejected',
                                      f'job {r_["job_id"]} of update {r_["update_id"]} outside [{lo},{hi})'))
                        break
                for p in w.q('SELECT job_id, parent_id FROM job_parents WHERE batch_id = %s', (bid,)):
                    if p['parent_id'] not in ids or p['parent_id'] >= p['job_id']:
                        fails.append(('accepted-missing-later-or-self-parent',
                                      'the API only accepts jobs that depend on jobs that already exist earlier in the same batch',
                                      f'submission #{si} accepted (statuses {statuses}) with job {p["job_id"]} depending on {p["parent_id"]}'))
                        break
                if fails:
                    break
            dep_uncommitted = bid is not None and bool(w.q('''SELECT 1 AS x FROM job_parents
INNER JOIN jobs AS c ON c.batch_id = job_parents.batch_id AND c.job_id = job_parents.job_id
INNER JOIN batch_updates AS cu ON cu.batch_id = c.batch_id AND cu.update_id = c.update_id
INNER JOIN jobs AS p ON p.batch_id = job_parents.batch_id AND p.job_id = job_parents.parent_id
INNER JOIN batch_updates AS pu ON pu.batch_id = p.batch_id AND pu.update_id = p.update_id
WHERE job_parents.batch_id = %s AND cu.committed AND NOT pu.committed''', (bid,)))
            if dep_uncommitted:
                # the parent exists but its own update was never committed by the client: whether the batch can finish then
                # depends on that other submission, which the statement does not settle -> not judged
                classes.add('depends_on_uncommitted_update')
            if not fails and bid is not None and not dep_uncommitted and not out.get('skip_drive'):
                await drive(w)
                rows = w.q('''SELECT jobs.job_id, jobs.state FROM jobs INNER JOIN batch_updates ON batch_updates.batch_id = jobs.batch_id AND
batch_updates.update_id = jobs.update_id WHERE jobs.batch_id = %s AND batch_updates.committed''', (bid,))
                stuck = [(r_['job_id'], r_['state']) for r_ in rows if r_['state'] != 'Success']
                bt = w.q('SELECT state FROM batches WHERE id = %s', (bid,))
                if stuck or (rows and bt[0]['state'] != 'complete'):
                    fails.append(('committed-batch-cannot-finish', 'every committed batch can reach completion once its jobs finish',
                                  f'after a fair drive jobs {stuck} are not Success; batch state {bt[0]["state"]}'))
            out['adv'] = adversarial
        finally:
            out['classes'] = classes
            await w.close()
        return fails

    loop = new_loop()
    loop.set_exception_handler(lambda lp, ctx: None)
    loop.detect_deadlock = True
    loop.max_time = loop.time() + 3.0e6
    try:
        try:
            fails = loop.run_until_complete(go())
        except Deadlock as e:
            fails = [('deadlock', 'every request is answered', str(e))]
    finally:
        loop.detect_deadlock = False
        close_loop(loop)
    cls = out.get('classes', set())
    return bool(out.get('adv')), sorted(cls | ({'adversarial'} if out.get('adv') else set())), fails


def strategy():
    from hypothesis import strategies as st

    @st.composite
    def sub(draw, first):
        n = draw(st.integers(1, 5))
        adv = False
        start = 1
        if draw(st.integers(0, 7)) == 0:
            start = draw(st.sampled_from([0, 2, 3, -1]))      # ids outside [1, n]
            adv = True
        jobs = []
        for k in range(n):
            j = {'id': start + k}
            mode = draw(st.integers(0, 9))
            if mode <= 3 and k > 0:
                j['inp'] = sorted(set(draw(st.lists(st.integers(1, k), min_size=1, max_size=2))))
            elif mode == 4:
                j['inp'] = [draw(st.sampled_from([k + 1, k + 2, n + 1, n + 3, 0, -1]))]       # self / later / missing / <= 0
                adv = True
            elif mode == 5 and not first:
                j['absp'] = [draw(st.integers(1, 12))]
                adv = True
            elif mode == 6:
                j['absp'] = [draw(st.sampled_from([0, -1, 50]))]
                adv = True
            elif mode == 7 and k > 0:
                p = draw(st.integers(1, k))
                j['inp'] = [p, p]                                                             # duplicate parent
                adv = True
            if draw(st.integers(0, 5)) == 0:
                j['ar'] = True
            jobs.append(j)
        s = {'kind': 'create_fast' if first and draw(st.booleans()) else draw(st.sampled_from(['update_fast', 'slow', 'slow'])),
             'jobs': jobs, 'adv': adv}
        if draw(st.integers(0, 5)) == 0:
            s['n_jobs'] = n + draw(st.sampled_from([-1, 1]))
            s['adv'] = True
        if s['kind'] == 'slow':
            s['cut'] = draw(st.integers(0, n))
            s['swap'] = draw(st.sampled_from([False, False, True]))
            s['deprecated'] = draw(st.sampled_from([False, False, True]))
        return s

    @st.composite
    def case(draw):
        subs = [draw(sub(True))]
        for _ in range(draw(st.integers(0, 2))):
            subs.append(draw(sub(False)))
        return {'subs': subs}
    return case()


def plan(tier):
    n = 40 if tier == 'quick' else 1300
    return [dict(kind='hyp', n=n) for _ in range(16)]


def run_shard(spec, seed, tier):
    from vlib.hyp import search
    res = Result()
    search(res, PROPERTY, strategy(), run_case, spec['n'], seed)
    return res


def replay(case):
    nt, cls, fl = run_case(case)
    return [dict(signature=s, clause=c, message=m, case=case) for s, c, m in fl]
