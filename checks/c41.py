"""C41 — uncommitted updates have no effect on a batch."""
from vlib.batchsim import histcheck as H, oracle as O

PROPERTY = 'C41'
LEVEL = 'exploration'
RULE = ('Hypothesis-generated histories (see C01) weighted towards updates whose bunches are inserted and then committed late or '
        'never (jobs with parents in earlier updates, new groups, jobs in old groups) while earlier jobs are scheduled by the real '
        'scheduler loop, complete, fail or are cancelled and canceller bodies run. After every op: a job of an uncommitted update is '
        'Pending (or, for the first update, staged Ready), has no attempt and is not selected by the scheduler; the scheduling '
        'counters equal the recomputation over committed jobs only (C01 oracle); batch / job-group n_jobs, tallies and state computed '
        'from committed jobs only equal what the real _get_batch / _get_job_group report (so an uncommitted update never changes '
        'completeness). Non-trivial: an uncommitted update has a child whose parent completes or is cancelled before the commit.')
ASSUMPTIONS = ['serializable at transaction granularity on minimysql', 'known findings are excluded by construction in 12 of 16 shards and re-demonstrated from the corpus']
TRUSTED = ['vlib/minimysql', 'vlib/batchsim', 'vlib/batchsim/oracle.py']


def step(w, prev, cur, op, res):
    for k, j in cur.jobs.items():
        b = k[0]
        if cur.committed(b, j['update_id']):
            continue
        allowed = ('Pending', 'Ready') if j['update_id'] == 1 else ('Pending',)
        if j['state'] not in allowed:
            live_parents = [p for p in cur.parents.get(k, []) if cur.jobs.get((k[0], p), {}).get('state') not in O.TERMINAL]
            if live_parents:
                # the known finding releases an uncommitted child when its LAST parent completes; a child that leaves Pending while
                # another parent is still unfinished is something else ('!': never attributed to the known finding)
                return [('!uncommitted-job-released-with-live-parent', 'jobs of an uncommitted update are never made ready, scheduled or completed',
                         f'job {k} of uncommitted update {j["update_id"]} is {j["state"]} while parents {live_parents} are unfinished')]
            return [('uncommitted-job-left-pending', 'jobs of an uncommitted update are never made ready, scheduled or completed',
                     f'job {k} of uncommitted update {j["update_id"]} is {j["state"]}')]
        if j['attempt_id'] is not None or any(a[0] == b and a[1] == k[1] for a in cur.attempts):
            return [('uncommitted-job-has-attempt', 'jobs of an uncommitted update are never scheduled',
                     f'job {k} of uncommitted update {j["update_id"]} has an attempt')]
    f = O.check_user_counters(cur)
    if f:
        return f
    # completeness / tallies as reported by the service must equal the recomputation over committed jobs only
    for (b, g), grp in cur.groups.items():
        sub = cur.subtree(b, g)
        js = [j for (bb, _), j in cur.jobs.items() if bb == b and j['job_group_id'] in sub and cur.committed(b, j['update_id'])]
        n = len(js)
        done = sum(1 for j in js if j['state'] in O.TERMINAL)
        if int(grp['n_jobs']) != n:
            return [('uncommitted-changes-n-jobs', 'uncommitted jobs are never counted in batch / job-group tallies',
                     f'group {(b, g)}: n_jobs={grp["n_jobs"]}, committed jobs in subtree {n}')]
        want_complete = (done == n)
        if (grp['state'] == 'complete') != want_complete:
            return [('uncommitted-changes-completeness', 'an uncommitted update never changes whether the batch or a group is complete',
                     f'group {(b, g)}: state={grp["state"]}, committed jobs {n}, terminal {done}')]
    return []


def extra(w):
    out = set()
    # an uncommitted update with a child (absolute parent) whose parent finished while the update was still uncommitted
    for u in w.updates:
        if any(kd == 'abs' for j in u['jobs'] for kd, _ in j['parents']) and u['sent_jobs']:
            out.add('sent_update_with_cross_parents')
            if not u['committed']:
                out.add('never_committed_update_with_cross_parents')
    return out


def nontrivial(w, cls):
    return 'complete' in cls and 'sent_update_with_cross_parents' in cls


plan, run_shard, replay = H.standard_module(PROPERTY, 'uncommitted', step, nontrivial, RULE, quick_n=60, thorough_n=1500, extra_classes=extra, unguarded_shards=5)
