"""C06 — batch and job-group completion reflect their jobs."""
from vlib.batchsim import histcheck as H, oracle as O

PROPERTY = 'C06'
LEVEL = 'exploration'
RULE = ('Hypothesis-generated histories (see C01) weighted towards nested job groups, updates that add jobs to old groups / new '
        'sub-groups / only groups, empty updates, completion in all orders and outcomes, cancels. After every op, for every batch and '
        'every job group visible through the REAL front_end._get_batch / _get_job_group (+ batch_record_to_dict): complete <=> every '
        'committed job in the subtree is terminal (empty => complete); n_jobs, n_completed, n_succeeded, n_failed, n_cancelled equal '
        'the counts over those jobs; the state string is consistent (success only if all succeeded; the assert inside '
        'batch_record_to_dict never fires); time_completed is null iff not complete; committing an update with >= 1 job under g makes '
        'g and all its ancestors not complete. Non-trivial: depth >= 2 and >= 2 committed updates, with at least one completion.')
ASSUMPTIONS = ['serializable at transaction granularity on minimysql']
TRUSTED = ['vlib/minimysql', 'vlib/batchsim', 'vlib/batchsim/oracle.py']


async def step(w, prev, cur, op, res):
    for (b, g), grp in sorted(cur.groups.items()):
        bt = cur.batches[b]
        if bt['deleted']:
            continue
        upd = grp.get('update_id')
        if g != 0 and not cur.committed(b, upd):
            r = await w._guard(w.m.fe._get_job_group(w.app, b, g))
            if r.get('ok') or r.get('http') != 404:
                return [('uncommitted-group-visible', 'a job group of an uncommitted update is not reported', f'_get_job_group{(b, g)} -> {r}')]
            continue
        sub = cur.subtree(b, g)
        js = [j for (bb, _), j in cur.jobs.items() if bb == b and j['job_group_id'] in sub and cur.committed(b, j['update_id'])]
        n = len(js)
        cnt = dict(n_completed=sum(1 for j in js if j['state'] in O.TERMINAL), n_succeeded=sum(1 for j in js if j['state'] == 'Success'),
                   n_failed=sum(1 for j in js if j['state'] in ('Failed', 'Error')), n_cancelled=sum(1 for j in js if j['state'] == 'Cancelled'))
        if g == 0:
            r = await w._guard(w.m.fe._get_batch(w.app, b))
        else:
            r = await w._guard(w.m.fe._get_job_group(w.app, b, g))
        if not r.get('ok'):
            sig = 'get-raises-AssertionError' if 'AssertionError' in str(r.get('exc')) else 'get-fails'
            return [(sig, 'the batch / job group can be read and its reported state is consistent', f'reading {(b, g)} failed: {r}')]
        d = r['value']
        want_complete = cnt['n_completed'] == n
        if bool(d['complete']) != want_complete:
            return [('complete-flag', 'reported complete exactly when every job in it (incl. descendant groups) is terminal',
                     f'{(b, g)}: complete={d["complete"]}, committed jobs {n}, terminal {cnt["n_completed"]}')]
        if d['n_jobs'] != n:
            return [('n-jobs', 'reported job count equals the number of committed jobs in the subtree', f'{(b, g)}: n_jobs={d["n_jobs"]}, counted {n}')]
        for k, v in cnt.items():
            if int(d[k] or 0) != v:
                return [('tally-' + k, 'reported completed/succeeded/failed/cancelled counts equal the counts over its jobs',
                         f'{(b, g)}: {k}={d[k]}, counted {v}')]
        if d['state'] == 'success' and cnt['n_succeeded'] != n:
            return [('state-success', 'success only if every job succeeded', f'{(b, g)}: {d}')]
        if (d.get('time_completed') is None) != (not want_complete) and n > 0:
            return [('time-completed', 'time_completed is set exactly when complete', f'{(b, g)}: time_completed={d.get("time_completed")}, complete={want_complete}')]
    return []


def nontrivial(w, cls):
    deep = any(kd == 'in' for u in w.updates for kd, _ in u['groups'])
    return deep and 'two_commits' in cls and 'complete' in cls


plan, run_shard, replay = H.standard_module(PROPERTY, 'groups', step, nontrivial, RULE, quick_n=50, thorough_n=1200)
