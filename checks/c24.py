"""C24 — hailtop.utils.rate_limiter.RateLimiter never exceeds its rate and admits as soon as possible."""
from __future__ import annotations

from vlib import hostenv
from vlib.runner import Result

PROPERTY = 'C24'
LEVEL = 'exploration'
RULE = ('count 1..5, window in {0.5,1,2,3.25}s, 1..25 entrants with arrival offsets on a 1/8 s grid (exactly representable, '
        'bursts and ties), under a virtual clock (time.time and the loop clock are the same harness-owned clock). Oracle: for '
        'the rate-limited body of an entrant may fail or be cancelled after admission (that must not refund a slot); every admit t, |{admits in [t, t+W)}| <= count; sorted admit times equal the work-conserving reference '
        'T_k = max(k-th arrival, T_{k-count} + W); every entrant is admitted once the loop drains. '
        'Non-trivial: at least one entrant had to wait (admit time > its arrival) and >= 2 distinct arrival instants.')
ASSUMPTIONS = ['time.time() and asyncio loop time advance together (virtual clock); no wall-clock skew is modelled']
TRUSTED = ['vlib/aiosched.py virtual loop', 'closed-form reference schedule in checks/c24.py']

WINDOWS = [0.5, 1.0, 2.0, 3.25]


def run_case(case):
    hostenv.install()
    import asyncio
    import hailtop.utils.rate_limiter as rl
    from vlib.aiosched import new_loop, close_loop

    count = case['count']
    W = WINDOWS[case['window'] % len(WINDOWS)]
    offs = sorted(o / 8.0 for o in case['arrivals'])
    loop = new_loop()
    fails = []
    classes = set()

    class _T:
        @staticmethod
        def time():
            return loop.time()
    saved = rl.time
    rl.time = _T
    try:
        limiter = rl.RateLimiter(rl.RateLimit(count, W))
        t0 = loop.time()
        admits = []
        tasks = []

        bodies = case.get('bodies') or []

        async def entrant(i):
            async with limiter:
                admits.append(loop.time() - t0)
                b = bodies[i % len(bodies)] if bodies else 0
                if b == 1:
                    raise ValueError('body failed')          # the rate-limited operation itself fails
                if b == 2:
                    raise asyncio.CancelledError()           # ... or is cancelled

        from vlib.aiosched import Livelock
        try:
            for i, o in enumerate(offs):
                dt = (t0 + o) - loop.time()
                if dt > 0:
                    loop.advance(dt)
                tasks.append(loop.create_task(entrant(i)))
                loop.settle()
            loop.run_all()
        except Livelock as e:
            fails.append(('livelock', 'every entrant is eventually admitted', f'limiter spins without admitting: {e}'))
            return True, [], fails
        not_done = [i for i, t in enumerate(tasks) if not t.done()]
        if not_done:
            fails.append(('starved', 'every entrant is eventually admitted', f'entrants {not_done} never admitted'))
        for i, t in enumerate(tasks):
            b = bodies[i % len(bodies)] if bodies else 0
            if t.done() and not t.cancelled() and t.exception() is not None and not (b == 1 and isinstance(t.exception(), ValueError)):
                fails.append(('raised', 'entering the limiter does not raise', repr(t.exception())))
        if any(bodies):
            classes.add('body_failed_or_cancelled')
        T = sorted(admits)
        for t in T:
            n = sum(1 for x in T if t <= x < t + W)
            if n > count:
                fails.append(('rate-exceeded', 'at most count admits in any half-open window of length W',
                              f'{n} admits in [{t}, {t + W}) > count {count}; admits {T}'))
                break
        ref = []
        for k, a in enumerate(offs):
            ref.append(max(a, ref[k - count] + W) if k >= count else a)
        if not not_done and T != ref:
            late = [(x, r) for x, r in zip(T, ref) if x != r]
            sig = 'admitted-late' if any(x > r for x, r in late) else 'admitted-early'
            fails.append((sig, 'an entry is admitted as soon as that is possible (work-conserving)',
                          f'admits {T} vs reference {ref}'))
        waited = any(x > a for x, a in zip(T, offs))
        if waited:
            classes.add('someone_waited')
        if len(set(offs)) < len(offs):
            classes.add('tied_arrivals')
        nontrivial = waited and len(set(offs)) >= 2
    finally:
        rl.time = saved
        close_loop(loop)
    return nontrivial, sorted(classes), fails


def plan(tier):
    n = 2500 if tier == 'quick' else 40000
    return [dict(kind='hyp', n=n) for _ in range(16)]


def run_shard(spec, seed, tier):
    from hypothesis import strategies as st
    from vlib.hyp import search
    res = Result()
    bursts = st.lists(st.tuples(st.integers(0, 80), st.integers(1, 6)), min_size=1, max_size=8).map(
        lambda bs: [o for o, n in bs for _ in range(n)][:25])
    arrivals = st.one_of(st.lists(st.integers(0, 80), min_size=1, max_size=25), bursts)
    bodies = st.one_of(st.just([]), st.lists(st.sampled_from([0, 0, 1, 2]), min_size=1, max_size=6))
    strat = st.builds(lambda c, w, a, b: dict(count=c, window=w, arrivals=a, bodies=b), st.integers(1, 5), st.integers(0, 3), arrivals, bodies)
    search(res, PROPERTY, strat, run_case, spec['n'], seed)
    return res


def replay(case):
    nt, cls, fl = run_case(case)
    return [dict(signature=s, clause=c, message=m, case=case) for s, c, m in fl]
