"""C33 — Value binary encoding round-trips and matches the engine layout.

(a) t._from_encoding(t._to_encoding(v)) ≡ v with every byte consumed, result well typed.
(b) layout differential: Python's bytes are decoded by an INDEPENDENT reference decoder written from the EType layout
    semantics (EBaseStruct / EArray / EBinary / ENDArrayColumnMajor / EDictAsUnsortedArrayOfPairs / EUnsortedSet /
    EInt32.. in <repo>/hail/hail/src/is/hail/types/encoded/), parameterised by the EType descriptor that the engine
    declares for Python-encoded values: the body of `EType.fromPythonTypeEncoding` in EType.scala is parsed at run
    time and *interpreted* for the generated type.  An edit to that Scala function changes what the reference decoder
    expects.  If the function can no longer be parsed/interpreted -> DescriptorError -> harness error (exit 2).
"""
from __future__ import annotations

import json
import math
import re
import struct
import traceback

from vlib import hailenv, hailgen, hostenv
from vlib.runner import Result

PROPERTY = 'C33'
LEVEL = 'exploration'
RULE = ('(type, value) pairs from vlib.hailgen (as C32; top-level value non-missing because the wire form has no '
        'top-level missing bit; ndarrays in C, Fortran and strided memory order, zero-length axes; structs/tuples with '
        '9-18 fields and arrays with 7-20 elements so several missing-bit bytes occur) plus a deterministic grid. '
        'Oracle (a): _from_encoding(_to_encoding(v)) == v, all bytes consumed, result typechecks. Oracle (b): an '
        'independent decoder driven by the EType descriptor obtained by interpreting the parsed body of '
        'EType.fromPythonTypeEncoding (EType.scala) consumes exactly Python\'s bytes and yields v. Non-trivial: value '
        'has >=1 missing field/element AND >=1 nested container; distinct by canonical (type, value) descriptor. '
        'SEQUENCES (seq shards): ONE type-object tree built from a generated type (bare primitives wrapped in a container) serves '
        '2-7 steps: enc = encode a well-formed value (through HailType._to_encoding or through ir.EncodedLiteral(t, v).encoded_value, '
        'as hl.literal does), bad = encode an ill-formed variant of a well-formed value - a struct without its last field, a '
        'tuple that is one short, an int32/int64/float32 out of range, a wrong Python type - placed at a generated position '
        'counted from the END of the value so that the encoder has written a prefix before it raises (classes '
        'seq_encode_raised_after_partial_write, seq_bad_<how>), dec = decode the reference bytes of an earlier value again; a '
        'step may address a SUB-type object of the shared tree (element / field / key / value type) instead of the root. Every '
        'sequence ends with a well-formed encode on the type object of the last failing encode. Oracle: every successful encode '
        'equals the bytes a FRESH type object produces (signature seq:encode-differs-after-<previous step>), then passes the '
        'whole single-value oracle (a) + (b) with the SHARED type object; every decode gives the value. Non-trivial sequence: a '
        'well-formed encode follows an encode that raised after writing >= 1 byte, on the same type object.')
ASSUMPTIONS = [
    'top-level value is non-missing (the engine asserts this; hl.literal sends missing as NA IR)',
    'a Hail str is a UTF-8 sequence; float32 values are float32-representable; call alleles <= 1000 (limits are C34)',
    'layout semantics of each EType constructor are a trusted transcription of the Scala sources (the generated '
    'decoders are not executed); default `required` of every EType constructor is false',
    'booleans are encoded as the bytes 0/1 (the engine reads byte != 0)',
    'sequences: a type object outlives one literal and callers may retry after an encoder error (hl.literal checks a value one '
    'level deep, so ill-formed values do reach _to_encoding); an ill-formed value that the encoder happens to accept is outside '
    'the property and is not judged (class seq_bad_value_did_not_raise); how many bytes the encoder had written when it raised '
    'is measured, for the class label only, with the encoder\'s own ByteWriter on a fresh type object',
]
TRUSTED = ['reference decoder + Scala-subset parser/interpreter in checks/c33.py', 'vlib/hailgen.py builder and canon()',
           'vlib/hailenv.py']


class DescriptorError(Exception):
    """EType.fromPythonTypeEncoding could not be parsed / interpreted: harness error (exit 2), never a violation."""


# ---------------------------------------------------------------------------------------------------------------
# 1. parse `def fromPythonTypeEncoding(t: Type): EType = t match { case ... => expr ... }`
# ---------------------------------------------------------------------------------------------------------------

_TOK = re.compile(r'''
    (?P<ws>\s+|//[^\n]*|/\*.*?\*/)
  | (?P<str>"(?:[^"\\]|\\.)*")
  | (?P<num>\d+)
  | (?P<arrow>=>)
  | (?P<id>[A-Za-z_][A-Za-z_0-9]*)
  | (?P<p>[(){}\[\],.=:;!<>&|+\-*/$])
''', re.X | re.S)


def _tokenize(src):
    out = []
    pos = 0
    while pos < len(src):
        m = _TOK.match(src, pos)
        if not m:
            raise DescriptorError(f'cannot tokenise Scala at {src[pos:pos + 40]!r}')
        pos = m.end()
        if m.lastgroup == 'ws':
            continue
        out.append((m.lastgroup, m.group(m.lastgroup)))
    return out


def _function_body(src, name='fromPythonTypeEncoding'):
    m = re.search(r'def\s+' + name + r'\s*\(\s*(\w+)\s*:\s*Type\s*\)\s*:\s*EType\s*=\s*(\w+)\s+match\s*\{', src)
    if not m:
        raise DescriptorError(f'`def {name}(t: Type): EType = t match {{` not found in EType.scala')
    if m.group(1) != m.group(2):
        raise DescriptorError('scrutinee of the match is not the parameter')
    i = m.end()
    depth = 1
    j = i
    in_str = False
    while j < len(src) and depth:
        c = src[j]
        if in_str:
            if c == '\\':
                j += 1
            elif c == '"':
                in_str = False
        elif c == '"':
            in_str = True
        elif c == '/' and src[j:j + 2] == '//':
            j = src.index('\n', j)
        elif c == '{':
            depth += 1
        elif c == '}':
            depth -= 1
        j += 1
    if depth:
        raise DescriptorError('unbalanced braces in fromPythonTypeEncoding')
    return m.group(1), src[i:j - 1]


class _P:
    """Parser for the expression subset used on the right-hand sides."""

    def __init__(self, toks):
        self.t = toks
        self.i = 0

    def peek(self, k=0):
        return self.t[self.i + k] if self.i + k < len(self.t) else ('eof', '')

    def eat(self, val=None, kind=None):
        k, v = self.peek()
        if (val is not None and v != val) or (kind is not None and k != kind):
            raise DescriptorError(f'Scala parse: expected {val or kind}, found {v!r} (token {self.i})')
        self.i += 1
        return v

    def at(self, val):
        return self.peek()[1] == val and self.peek()[0] != 'str'

    # cases ------------------------------------------------------------------------------------------------
    def cases(self):
        out = []
        while self.peek()[0] != 'eof':
            self.eat('case')
            pat = []
            while not (self.peek()[0] == 'arrow'):
                if self.peek()[0] == 'eof':
                    raise DescriptorError('case without =>')
                pat.append(self.peek())
                self.i += 1
            self.eat(kind='arrow')
            out.append((self._pattern(pat), self.expr()))
        if not out:
            raise DescriptorError('no cases in fromPythonTypeEncoding')
        return out

    @staticmethod
    def _pattern(toks):
        vals = [v for _, v in toks]
        # `t: TDict` | `TInt32` | `TLocus(_)` | `_`
        if len(vals) == 3 and vals[1] == ':':
            return dict(var=vals[0], cls=vals[2])
        if len(vals) == 1:
            return dict(var=None, cls=vals[0])
        if len(vals) >= 3 and vals[1] == '(' and vals[-1] == ')' and all(v in ('_', ',') for v in vals[2:-1]):
            return dict(var=None, cls=vals[0])
        raise DescriptorError(f'unsupported case pattern: {" ".join(vals)}')

    # expressions ------------------------------------------------------------------------------------------
    def expr(self):
        e = self.primary()
        while True:
            if self.at('.'):
                self.eat('.')
                e = ('sel', e, self.eat(kind='id'))
            elif self.at('('):
                args, kwargs = self.args()
                e = ('app', e, args, kwargs)
            elif self.at('{'):
                e = ('app', e, [self.lambda_block()], {})
            else:
                return e

    def primary(self):
        k, v = self.peek()
        if k == 'id':
            self.i += 1
            if v in ('true', 'false'):
                return ('lit', v == 'true')
            return ('id', v)
        if k == 'num':
            self.i += 1
            return ('lit', int(v))
        if k == 'str':
            self.i += 1
            return ('lit', json.loads(v))
        if v == '(':
            self.eat('(')
            e = self.expr()
            self.eat(')')
            return e
        raise DescriptorError(f'Scala parse: unexpected token {v!r}')

    def args(self):
        self.eat('(')
        args, kwargs = [], {}
        while not self.at(')'):
            if self.peek()[0] == 'id' and self.peek(1) == ('p', '=') and self.peek(2)[0] != 'arrow':
                name = self.eat(kind='id')
                self.eat('=')
                kwargs[name] = self.expr()
            else:
                args.append(self.expr())
            if self.at(','):
                self.eat(',')
            elif not self.at(')'):
                raise DescriptorError(f'Scala parse: expected , or ) found {self.peek()[1]!r}')
        self.eat(')')
        return args, kwargs

    def lambda_block(self):
        self.eat('{')
        param = self.eat(kind='id')
        self.eat(kind='arrow')
        stmts = []
        while True:
            if self.at('val'):
                self.eat('val')
                name = self.eat(kind='id')
                self.eat('=')
                stmts.append(('val', name, self.expr()))
            elif self.at('if'):        # `if (cond) throw new X(...)` — a guard, skipped
                self.eat('if')
                self._skip_balanced('(', ')')
                self.eat('throw')
                self.eat('new')
                self.eat(kind='id')
                self._skip_balanced('(', ')')
            else:
                body = self.expr()
                if self.at(';'):
                    self.eat(';')
                self.eat('}')
                return ('lambda', param, stmts, body)
            if self.at(';'):
                self.eat(';')

    def _skip_balanced(self, o, c):
        self.eat(o)
        depth = 1
        while depth:
            k, v = self.peek()
            if k == 'eof':
                raise DescriptorError('unbalanced parentheses')
            if k != 'str':
                depth += (v == o) - (v == c)
            self.i += 1


_parsed_cache = {}


def parsed_descriptor_function():
    """-> (param name, [(pattern, expr)])   parsed from <repo>/.../EType.scala (honours VERIF_REPO)."""
    key = hostenv.REPO
    if key not in _parsed_cache:
        try:
            src = hailenv.scala_source('is/hail/types/encoded/EType.scala')
        except OSError as e:
            raise DescriptorError(f'cannot read EType.scala: {e}')
        param, body = _function_body(src)
        _parsed_cache[key] = (param, _P(_tokenize(body)).cases())
    return _parsed_cache[key]


# ---------------------------------------------------------------------------------------------------------------
# 2. interpret the parsed function for a Hail type descriptor -> EType descriptor (plain dicts)
# ---------------------------------------------------------------------------------------------------------------

SCALA_CLASSES = {     # Python type kind -> Scala classes/objects it matches (virtual type hierarchy, trusted)
    'int32': ['TInt32'], 'int64': ['TInt64'], 'float32': ['TFloat32'], 'float64': ['TFloat64'], 'bool': ['TBoolean'],
    'str': ['TString'], 'call': ['TCall'], 'locus': ['TLocus'], 'interval': ['TInterval'],
    'array': ['TArray', 'TContainer', 'TIterable'], 'set': ['TSet', 'TContainer', 'TIterable'],
    'dict': ['TDict', 'TContainer', 'TIterable'], 'tuple': ['TTuple', 'TBaseStruct'], 'struct': ['TStruct', 'TBaseStruct'],
    'ndarray': ['TNDArray'], 'binary': ['TBinary'],
}
PRIM_ETYPES = {'EInt32': 'int32', 'EInt64': 'int64', 'EFloat32': 'float32', 'EFloat64': 'float64', 'EBoolean': 'bool',
               'EBinary': 'binary'}


class _TypeVal:
    def __init__(self, td):
        self.td = td

    def fields(self):
        k = hailgen.kind(self.td)
        if k == 'struct':
            return [_FieldVal(n, x, i) for i, (n, x) in enumerate(self.td[1])]
        if k == 'tuple':
            return [_FieldVal(str(i), x, i) for i, x in enumerate(self.td[1])]
        raise DescriptorError(f'.fields on {k}')

    def attr(self, name):
        k = hailgen.kind(self.td)
        if name == 'pointType' and k == 'interval':
            return _TypeVal(self.td[1])
        if name == 'elementType' and k in ('array', 'set', 'ndarray'):
            return _TypeVal(self.td[1])
        if name == 'elementType' and k == 'dict':
            return _TypeVal(['struct', [['key', self.td[1]], ['value', self.td[2]]]])
        if name == 'keyType' and k == 'dict':
            return _TypeVal(self.td[1])
        if name == 'valueType' and k == 'dict':
            return _TypeVal(self.td[2])
        if name == 'nDims' and k == 'ndarray':
            return self.td[2]
        if name == 'size' and k in ('struct', 'tuple'):
            return len(self.td[1])
        if name == 'fields' and k in ('struct', 'tuple'):
            return ('fn', lambda i: self.fields()[i])
        if name == 'types' and k in ('struct', 'tuple'):
            return [f.typ for f in self.fields()]
        raise DescriptorError(f'unsupported type attribute .{name} on {k}')


class _FieldVal:
    def __init__(self, name, td, index):
        self.name, self.typ, self.index = name, _TypeVal(td), index


def _ev(e, env, depth=0):
    tag = e[0]
    if tag == 'lit':
        return e[1]
    if tag == 'id':
        if e[1] in env:
            return env[e[1]]
        if e[1] in PRIM_ETYPES or e[1] in ('EBaseStruct', 'EArray', 'EUnsortedSet', 'EDictAsUnsortedArrayOfPairs',
                                          'ENDArrayColumnMajor', 'EField', 'ArraySeq', 'FastSeq', 'IndexedSeq', 'Array',
                                          'fromPythonTypeEncoding'):
            return ('ctor', e[1])
        raise DescriptorError(f'unknown identifier {e[1]}')
    if tag == 'sel':
        o = _ev(e[1], env, depth)
        if isinstance(o, _TypeVal):
            return o.attr(e[2])
        if isinstance(o, _FieldVal):
            if e[2] in ('name', 'typ', 'index'):
                return getattr(o, e[2])
            raise DescriptorError(f'unsupported field attribute .{e[2]}')
        if isinstance(o, dict) and e[2] == 'setRequired':
            return ('fn', lambda b, o=o: dict(o, req=_bool(b)))
        if isinstance(o, tuple) and o[0] == 'ctor' and o[1] in ('ArraySeq', 'FastSeq', 'IndexedSeq', 'Array') and e[2] == 'tabulate':
            return ('fn', lambda n: ('fn', lambda f: [f(i) for i in range(_int(n))]))
        raise DescriptorError(f'unsupported selection .{e[2]}')
    if tag == 'lambda':
        _, param, stmts, body = e

        def fn(x):
            env2 = dict(env)
            env2[param] = x
            for _, name, ex in stmts:
                env2[name] = _ev(ex, env2, depth)
            return _ev(body, env2, depth)
        return fn
    if tag == 'app':
        f = _ev(e[1], env, depth)
        args = [_ev(a, env, depth) for a in e[2]]
        kwargs = {k: _ev(a, env, depth) for k, a in e[3].items()}
        if callable(f):
            return f(*args)
        if isinstance(f, tuple) and f[0] == 'fn':
            fn_args = [(a if not callable(a) else a) for a in args]
            return f[1](*fn_args)
        if isinstance(f, tuple) and f[0] == 'ctor':
            return _construct(f[1], args, kwargs, depth)
        raise DescriptorError('call of a non-function')
    raise DescriptorError(f'bad AST node {tag}')


def _bool(x):
    if not isinstance(x, bool):
        raise DescriptorError(f'expected Boolean, got {x!r}')
    return x


def _int(x):
    if isinstance(x, bool) or not isinstance(x, int):
        raise DescriptorError(f'expected Int, got {x!r}')
    return x


def _arg(args, kwargs, i, name, default=None, required=True):
    if name in kwargs:
        return kwargs[name]
    if i < len(args):
        return args[i]
    if required:
        raise DescriptorError(f'missing constructor argument {name}')
    return default


def _etype(x):
    if not (isinstance(x, dict) and 'k' in x):
        raise DescriptorError(f'expected an EType, got {x!r}')
    return x


def _construct(name, args, kwargs, depth):
    if name == 'fromPythonTypeEncoding':
        if len(args) != 1 or not isinstance(args[0], _TypeVal):
            raise DescriptorError('fromPythonTypeEncoding(<type>) expected')
        return etype_for(args[0].td, depth + 1)
    if name in ('ArraySeq', 'FastSeq', 'IndexedSeq', 'Array'):
        return list(args)
    if name in PRIM_ETYPES:
        return dict(k=name, req=_bool(_arg(args, kwargs, 0, 'required', False, required=False)))
    if name == 'EField':
        return dict(k='EField', name=_arg(args, kwargs, 0, 'name'), typ=_etype(_arg(args, kwargs, 1, 'typ')),
                    index=_int(_arg(args, kwargs, 2, 'index')))
    if name == 'EBaseStruct':
        fields = _arg(args, kwargs, 0, 'fields')
        if not isinstance(fields, list) or not all(isinstance(f, dict) and f.get('k') == 'EField' for f in fields):
            raise DescriptorError('EBaseStruct(fields) expects a sequence of EField')
        return dict(k='EBaseStruct', fields=fields, req=_bool(_arg(args, kwargs, 1, 'required', False, required=False)))
    if name in ('EArray', 'EUnsortedSet', 'EDictAsUnsortedArrayOfPairs'):
        return dict(k=name, elt=_etype(_arg(args, kwargs, 0, 'elementType')),
                    req=_bool(_arg(args, kwargs, 1, 'required', False, required=False)))
    if name == 'ENDArrayColumnMajor':
        return dict(k=name, elt=_etype(_arg(args, kwargs, 0, 'elementType')), ndims=_int(_arg(args, kwargs, 1, 'nDims')),
                    req=_bool(_arg(args, kwargs, 2, 'required', False, required=False)))
    raise DescriptorError(f'unknown constructor {name}')


class NoCase(Exception):
    """The engine's match has no case for this type (it would throw MatchError): a layout violation, not exit 2."""


def etype_for(td, depth=0):
    if depth > 60:
        raise DescriptorError('descriptor recursion too deep')
    param, cases = parsed_descriptor_function()
    classes = SCALA_CLASSES[hailgen.kind(td)] + ['Type', '_']
    for pat, rhs in cases:
        if pat['cls'] in classes:
            env = {param: _TypeVal(td)}
            if pat['var']:
                env[pat['var']] = _TypeVal(td)
            try:
                return _etype(_ev(rhs, env, depth))
            except (DescriptorError, NoCase):
                raise
            except RecursionError:
                raise
            except Exception as e:      # interpreter bug or un-modelled construct: harness error
                raise DescriptorError(f'cannot interpret case {pat["cls"]}: {type(e).__name__}: {e}')
    raise NoCase(hailgen.kind(td))


# ---------------------------------------------------------------------------------------------------------------
# 3. reference decoder: bytes + EType descriptor + Hail type descriptor -> canonical value (hailgen.canon form)
# ---------------------------------------------------------------------------------------------------------------

class LayoutMismatch(Exception):
    pass


class _R:
    def __init__(self, b):
        self.b = b
        self.p = 0

    def take(self, n):
        if n < 0 or self.p + n > len(self.b):
            raise LayoutMismatch(f'engine layout needs {n} byte(s) at offset {self.p} but only {len(self.b) - self.p} remain')
        s = self.b[self.p:self.p + n]
        self.p += n
        return s

    def i32(self):
        return struct.unpack('<i', self.take(4))[0]

    def i64(self):
        return struct.unpack('<q', self.take(8))[0]


def _isqrt_pair(i):
    """diploid gt index -> (j, k) with j <= k, i = k(k+1)/2 + j   (Genotype.allelePair semantics, exact arithmetic)."""
    k = (math.isqrt(8 * i + 1) - 1) // 2
    return i - k * (k + 1) // 2, k


def _decode_call(c):
    u = c & 0xFFFFFFFF
    phased = bool(u & 1)
    ploidy = (u >> 1) & 3
    rep = u >> 3
    if ploidy == 0:
        al = ()
    elif ploidy == 1:
        al = (rep,)
    elif ploidy == 2:
        j, k = _isqrt_pair(rep)
        al = (j, k - j) if phased else (j, k)
    else:
        raise LayoutMismatch(f'call with ploidy {ploidy}')
    return ('c', al, phased)


def _f(x):
    return ('f', 'nan') if x != x else ('f', x.hex())


def ref_decode(et, td, r, rg_of=None):
    k = hailgen.kind(td)
    ek = et['k']
    if ek in PRIM_ETYPES:
        if ek == 'EInt32':
            n = r.i32()
            if k == 'int32':
                return ('i', n)
            if k == 'call':
                return _decode_call(n)
        elif ek == 'EInt64' and k == 'int64':
            return ('i', r.i64())
        elif ek == 'EFloat32' and k == 'float32':
            return _f(struct.unpack('<f', r.take(4))[0])
        elif ek == 'EFloat64' and k == 'float64':
            return _f(struct.unpack('<d', r.take(8))[0])
        elif ek == 'EBoolean' and k == 'bool':
            b = r.take(1)[0]
            if b not in (0, 1):
                raise LayoutMismatch(f'boolean byte {b}')
            return ('b', bool(b))
        elif ek == 'EBinary' and k == 'str':
            n = r.i32()
            raw = r.take(n)
            try:
                return ('s', raw.decode('utf-8'))
            except UnicodeDecodeError as e:
                raise LayoutMismatch(f'string bytes are not UTF-8: {e}')
        raise LayoutMismatch(f'engine declares {ek} for a value of type {k}')
    if ek == 'EBaseStruct':
        fields = et['fields']
        if k == 'struct':
            want = [(n, x) for n, x in td[1]]
        elif k == 'tuple':
            want = [(str(i), x) for i, x in enumerate(td[1])]
        elif k == 'locus':
            want = [('contig', 'str'), ('position', 'int32')]
        elif k == 'interval':
            want = [('start', td[1]), ('end', td[1]), ('includesStart', 'bool'), ('includesEnd', 'bool')]
        else:
            raise LayoutMismatch(f'engine declares EBaseStruct for a value of type {k}')
        # the engine matches EFields to the target's fields BY NAME and silently skips unknown ones
        if [f['name'] for f in fields] != [n for n, _ in want]:
            raise LayoutMismatch(f'EField names {[f["name"] for f in fields]} != target fields {[n for n, _ in want]}')
        if [f['index'] for f in fields] != list(range(len(fields))):
            raise LayoutMismatch('EField indices are not 0..n-1')
        n_opt = sum(1 for f in fields if not f['typ']['req'])
        mbytes = r.take((n_opt + 7) >> 3)
        vals = []
        midx = 0
        for f, (_, ftd) in zip(fields, want):
            if f['typ']['req']:
                vals.append(ref_decode(f['typ'], ftd, r))
            else:
                missing = (mbytes[midx >> 3] >> (midx & 7)) & 1          # LSB-first
                midx += 1
                vals.append(('NA',) if missing else ref_decode(f['typ'], ftd, r))
        if n_opt & 7:   # padding bits of the last missing byte: the engine masks them on write; Python must send 0
            if mbytes[-1] >> (n_opt & 7):
                raise LayoutMismatch('padding bits of the missing byte are set')
        if k == 'struct':
            return ('st', tuple((n, v) for (n, _), v in zip(want, vals)))
        if k == 'tuple':
            return ('t', tuple(vals))
        if k == 'locus':
            if vals[0] == ('NA',) or vals[1] == ('NA',):
                raise LayoutMismatch('locus with missing contig/position')
            return ('l', vals[0][1], vals[1][1], td[1])
        if vals[2] == ('NA',) or vals[3] == ('NA',):
            raise LayoutMismatch('interval with missing inclusiveness flag')
        return ('iv', vals[0], vals[1], vals[2][1], vals[3][1])
    if ek in ('EArray', 'EUnsortedSet', 'EDictAsUnsortedArrayOfPairs'):
        elt = et['elt']
        if ek == 'EDictAsUnsortedArrayOfPairs':
            if k != 'dict':
                raise LayoutMismatch(f'engine declares {ek} for a value of type {k}')
            if elt['k'] != 'EBaseStruct':
                raise LayoutMismatch('EDictAsUnsortedArrayOfPairs element is not an EBaseStruct (engine assertion)')
            etd = ['struct', [['key', td[1]], ['value', td[2]]]]
        elif ek == 'EUnsortedSet':
            if k != 'set':
                raise LayoutMismatch(f'engine declares {ek} for a value of type {k}')
            etd = td[1]
        else:
            if k not in ('array', 'set', 'dict'):
                raise LayoutMismatch(f'engine declares EArray for a value of type {k}')
            etd = td[1] if k != 'dict' else ['struct', [['key', td[1]], ['value', td[2]]]]
        n = r.i32()
        if n < 0:
            raise LayoutMismatch(f'negative length {n}')
        out = []
        if elt['req']:
            for _ in range(n):
                out.append(ref_decode(elt, etd, r))
        else:
            mbytes = r.take((n + 7) >> 3)
            for i in range(n):
                if (mbytes[i >> 3] >> (i & 7)) & 1:
                    out.append(('NA',))
                else:
                    out.append(ref_decode(elt, etd, r))
            if n & 7 and mbytes[-1] >> (n & 7):
                raise LayoutMismatch('padding bits of the missing byte are set')
        if k == 'array':
            return ('a', tuple(out))
        if k == 'set':
            return ('S', len(out), frozenset(out))
        pairs = []
        for o in out:
            if o == ('NA',):
                raise LayoutMismatch('missing key/value pair in dict')
            pairs.append((o[1][0][1], o[1][1][1]))
        return ('D', len(pairs), frozenset(pairs))
    if ek == 'ENDArrayColumnMajor':
        if k != 'ndarray':
            raise LayoutMismatch(f'engine declares {ek} for a value of type {k}')
        if not et['elt']['req']:
            raise LayoutMismatch('ENDArrayColumnMajor element type is not required (PCanonicalNDArray requires it)')
        if et['ndims'] != td[2]:
            raise LayoutMismatch(f'nDims {et["ndims"]} != {td[2]}')
        shape = [r.i64() for _ in range(et['ndims'])]
        if any(d < 0 for d in shape):
            raise LayoutMismatch(f'negative dimension in {shape}')
        total = 1
        for d in shape:
            total *= d
        flat = [ref_decode(et['elt'], td[1], r) for _ in range(total)]       # column-major: first axis fastest
        # re-index to C order for comparison with canon()
        c_order = []
        if total:
            strides = []
            s = 1
            for d in shape:
                strides.append(s)
                s *= d
            idx = [0] * len(shape)
            for _ in range(total):
                c_order.append(flat[sum(i * st for i, st in zip(idx, strides))])
                for ax in range(len(shape) - 1, -1, -1):
                    idx[ax] += 1
                    if idx[ax] < shape[ax]:
                        break
                    idx[ax] = 0
        npname = {'int32': 'int32', 'int64': 'int64', 'float32': 'float32', 'float64': 'float64', 'bool': 'bool'}[td[1]]
        return ('nd', tuple(shape), npname, tuple(c_order))
    raise LayoutMismatch(f'unknown EType {ek}')


def pretty_etype(et):
    k = et['k']
    r = '+' if et['req'] else ''
    if k in PRIM_ETYPES:
        return r + k
    if k == 'EBaseStruct':
        return r + 'EBaseStruct{' + ','.join(f'{f["name"]}:{pretty_etype(f["typ"])}' for f in et['fields']) + '}'
    if k == 'ENDArrayColumnMajor':
        return f'{r}{k}[{pretty_etype(et["elt"])},{et["ndims"]}]'
    return f'{r}{k}[{pretty_etype(et["elt"])}]'


# ---------------------------------------------------------------------------------------------------------------
# 4. oracle
# ---------------------------------------------------------------------------------------------------------------

def _frame(exc):
    root = hostenv.REPO
    best = None
    for fs, _ in traceback.walk_tb(exc.__traceback__):
        if fs.f_code.co_filename.startswith(root):
            slf = fs.f_locals.get('self')
            best = (type(slf).__name__ + '.' if slf is not None else '') + fs.f_code.co_name
    return best or '?'


def oracle(td, vd, t=None):
    """`t` = the type object to use (default: a fresh one built from the descriptor)."""
    if vd is None:
        return None           # no top-level missing in the wire form
    hailenv.init()
    from hail.utils.byte_reader import ByteReader
    t = hailgen.build_type(td) if t is None else t
    v = hailgen.build_value(td, vd)
    try:
        enc = t._to_encoding(v)
    except Exception as e:
        return dict(phase='encode', exc=type(e).__name__, frame=_frame(e), msg=f'_to_encoding raised {e!r}')
    if not isinstance(enc, bytes):
        return dict(phase='encode', exc='not-bytes', frame='-', msg=f'_to_encoding returned {type(enc).__name__}')
    want = hailgen.canon(t, v)
    try:
        br = ByteReader(memoryview(enc))
        back = t._convert_from_encoding(br)
        used = br._offset
        back_pub = t._from_encoding(enc)
    except Exception as e:
        return dict(phase='decode', exc=type(e).__name__, frame=_frame(e), msg=f'_from_encoding raised {e!r} on {enc.hex()}')
    if used != len(enc):
        return dict(phase='consumed', exc='leftover', frame='-', msg=f'decoder consumed {used} of {len(enc)} bytes ({enc.hex()})')
    if hailgen.canon(t, back) != want or hailgen.canon(t, back_pub) != want:
        return dict(phase='mismatch', exc='neq', frame='-', msg=f'value {v!r} came back as {back!r} (bytes {enc.hex()})')
    try:
        hailgen.typechecks(t, back)
    except Exception as e:
        return dict(phase='typecheck', exc=type(e).__name__, frame=_frame(e), msg=f'result {back!r} does not typecheck: {e!r}')
    # (b) engine layout
    try:
        et = etype_for(td)
    except NoCase as e:
        return dict(phase='layout', exc='no-case', frame='EType.fromPythonTypeEncoding',
                    msg=f'engine has no EType case for type kind {e} (MatchError)')
    r = _R(enc)
    try:
        got = ref_decode(et, td, r)
    except LayoutMismatch as e:
        return dict(phase='layout', exc='undecodable', frame='EType.fromPythonTypeEncoding',
                    msg=f'engine layout {pretty_etype(et)} cannot decode python bytes {enc.hex()}: {e}')
    if r.p != len(enc):
        return dict(phase='layout', exc='leftover', frame='EType.fromPythonTypeEncoding',
                    msg=f'engine layout {pretty_etype(et)} consumes {r.p} of {len(enc)} python bytes ({enc.hex()})')
    if got != want:
        return dict(phase='layout', exc='neq', frame='EType.fromPythonTypeEncoding',
                    msg=f'engine layout {pretty_etype(et)} reads python bytes {enc.hex()} as {got!r}, python meant {want!r}')
    return None


CLAUSES = {
    'encode': 'every well-typed value can be encoded',
    'decode': 'the binary encoding decodes',
    'consumed': 'decoding consumes all bytes',
    'mismatch': 'the binary encoding decodes back to an equal value',
    'typecheck': 'the decoded value is well typed',
    'layout': 'the byte layout is the one the engine expects for Python-encoded values (EType.fromPythonTypeEncoding)',
}
ROOT_QUALS = {'field-named-self', 'numpy-scalar', 'python-int-as-float', 'order-F', 'order-S', 'zero-axis'}


def diagnose(td, vd, orc):
    path, ltd, lvd, f = hailgen.localize(td, vd, orc)
    lvd = hailgen.shrink_locus(ltd, lvd, orc)
    f = orc(ltd, lvd) or f
    quals = [q for q in hailgen.qualifiers(ltd, lvd, orc) if q in ROOT_QUALS]
    k = hailgen.kind(ltd)
    if k == 'struct' and 'field-named-self' in quals:
        renamed = ['struct', [[('self_' if n == 'self' else n), x] for n, x in ltd[1]]]
        if orc(renamed, lvd):
            quals.remove('field-named-self')
    sig = f'{k}:{f["phase"]}:' + ('+'.join(sorted(quals)) if quals else f['exc'])
    msg = (f'{f["msg"]} | minimal sub-case at /{"/".join(path)}: type={hailgen.build_type(ltd)} '
           f'tdesc={json.dumps(ltd)} vdesc={json.dumps(lvd)} frame={f["frame"]}')
    return sig, f['phase'], msg


def check_case(case, orc=None):
    if case.get('seq'):
        return check_seq(case)
    orc = orc or oracle
    td, vd = case['t'], case['v']
    t = hailgen.build_type(td)
    v = hailgen.build_value(td, vd)
    hailgen.typechecks(t, v)
    stats = hailgen.value_stats(td, vd)
    nontrivial = bool(stats.get('missing')) and bool(stats.get('nested_container'))
    classes = hailgen.classes_of(stats) + [f'top_{hailgen.kind(td)}']
    fails = []
    if orc(td, vd):
        sig, phase, msg = diagnose(td, vd, orc)
        fails.append((sig, CLAUSES.get(phase, phase), msg))
    return nontrivial, classes, fails


# ---------------------------------------------------------------------------------------------------------------
# 5. sequences of encodes / decodes that share type objects
# ---------------------------------------------------------------------------------------------------------------
# A HailType object lives as long as the expression / table that carries it and is used for every literal of that type
# (hl.literal(v, t) -> EncodedLiteral(t, v) -> t._to_encoding(v) when the IR is rendered).  hl.literal checks a value
# one level deep only, so an ill-formed value (struct without one of its fields inside an array, wrong Python type or
# out-of-range int deep inside) reaches the encoder and makes it raise PART-WAY; the caller catches the error, fixes
# the value and encodes again with the same type object.  Property: what an encode/decode returns does not depend on
# what the type objects involved were used for before.

def _subtype(t, td, path):
    """Follow `path` (child indices) from the type object / descriptor to a sub-type OBJECT of the same tree."""
    for i in path:
        k = hailgen.kind(td)
        if k in ('array', 'set'):
            t, td = t.element_type, td[1]
        elif k == 'interval':
            t, td = t.point_type, td[1]
        elif k == 'dict':
            t, td = (t.key_type, td[1]) if i % 2 == 0 else (t.value_type, td[2])
        elif k == 'tuple' and td[1]:
            j = i % len(td[1])
            t, td = t.types[j], td[1][j]
        elif k == 'struct' and td[1]:
            j = i % len(td[1])
            t, td = t.types[j], td[1][j][1]
        else:
            break
    return t, td


def subtype_desc(td, path):
    for i in path:
        k = hailgen.kind(td)
        if k in ('array', 'set', 'interval'):
            td = td[1]
        elif k == 'dict':
            td = td[1] if i % 2 == 0 else td[2]
        elif k == 'tuple' and td[1]:
            td = td[1][i % len(td[1])]
        elif k == 'struct' and td[1]:
            td = td[1][i % len(td[1])][1]
        else:
            break
    return td


def _corrupt_here(td, v, how):
    """An ill-formed stand-in for the well-formed `v` of type `td` -> (value, how applied) ; (v, None) = not possible here."""
    k = hailgen.kind(td)
    if how == 'drop-field' and k == 'struct' and td[1]:
        names = [n for n, _ in td[1]]
        return {n: v[n] for n in names[:-1]}, 'drop-field'
    if how == 'short' and k == 'tuple' and td[1]:
        return tuple(v)[:-1], 'short'
    if how == 'out-of-range' and k in ('int32', 'int64', 'float32'):
        return {'int32': 2 ** 31 + 5, 'int64': 2 ** 63 + 5, 'float32': 1e300}[k], 'out-of-range'
    if k == 'bool':
        return v, None
    if k == 'str':
        return 7, 'wrong-type'
    if k in ('int32', 'int64', 'float32', 'float64', 'call', 'locus', 'ndarray'):
        return 'x', 'wrong-type'
    return 5, 'wrong-type'


def _sites(td, v, path, out):
    """every non-missing position of the built value that can be reached through plain containers: (path, td, value)"""
    if v is None:
        return
    out.append((path, td, v))
    k = hailgen.kind(td)
    if k == 'array':
        for i, x in enumerate(v):
            _sites(td[1], x, path + (i,), out)
    elif k == 'tuple':
        for i, x in enumerate(v):
            _sites(td[1][i], x, path + (i,), out)
    elif k == 'struct':
        for n, x in td[1]:
            _sites(x, v[n], path + (n,), out)
    elif k == 'dict':
        for kk, x in v.items():
            _sites(td[2], x, path + (kk,), out)


def _replace(td, v, path, new):
    """copy of v (plain list / tuple / dict along the path) with the value at `path` replaced"""
    if not path:
        return new
    k = hailgen.kind(td)
    key = path[0]
    if k in ('array', 'tuple'):
        out = list(v)
        out[key] = _replace(td[1] if k == 'array' else td[1][key], v[key], path[1:], new)
        return out if k == 'array' else tuple(out)
    if k == 'struct':
        out = {n: v[n] for n, _ in td[1]}
        out[key] = _replace(dict((n, x) for n, x in td[1])[key], v[key], path[1:], new)
        return out
    out = dict(v)
    out[key] = _replace(td[2], v[key], path[1:], new)
    return out


def corrupt(td, v, picks, how):
    """Replace one position of the well-formed built value `v` by an ill-formed stand-in: among the positions where `how` applies
    (else: where a wrong Python type can be put), counted from the LAST one in encoding order (so that the encoder has already
    written something when it meets it), the picks[0]-th.  -> (value, how applied or None)."""
    sites = []
    _sites(td, v, (), sites)
    native = [s for s in sites if _corrupt_here(s[1], s[2], how)[1] == how]
    cands = native or [s for s in sites if _corrupt_here(s[1], s[2], 'wrong-type')[1] is not None]
    if not cands:
        return v, None
    path, std, sv = cands[-1 - ((picks[0] if picks else 0) % len(cands))]
    new, applied = _corrupt_here(std, sv, how)
    return _replace(td, v, path, new), applied


def _bytes_before_raise(td, bad):
    """How many bytes has the encoder produced when it gives up on `bad`?  (class label only; measured on a fresh type object
    with the encoder's own writer)"""
    try:
        from hail.utils.byte_reader import ByteWriter
        buf = bytearray()
        try:
            hailgen.build_type(td)._convert_to_encoding(ByteWriter(buf), bad)
        except Exception:
            return len(buf)
        return None
    except Exception:
        return None


def _encode(t, v, via):
    if via == 'ir':
        import base64
        import hail as hl
        return base64.b64decode(hl.ir.EncodedLiteral(t, v).encoded_value)
    return t._to_encoding(v)


SEQ_CLAUSE = ('what an encode / decode returns is the reference encoding / the value, independent of what the same type objects were '
              'used for before (earlier encodes, encodes that raised part-way, decodes)')


def check_seq(case):
    """case = {'seq': True, 't': td, 'steps': [...]}; ONE type object tree built from td serves every step."""
    hailenv.init()
    td = case['t']
    root = hailgen.build_type(td)
    cls = set()
    fails = []
    encs = []                  # (sub td, sub type object, want canon, reference bytes) of the successful encodes
    prev = None                # what the previous step did: 'encode' | 'failed-encode' | 'decode'
    partial_fail_pending = False
    nontrivial = False
    for si, step in enumerate(case['steps']):
        op = step['op']
        path = step.get('path', [])
        t, std = _subtype(root, td, path)
        if path and t is not root:
            cls.add('seq_uses_subtype_object_of_shared_tree')
        via = step.get('via', 'type')
        if via == 'ir':
            cls.add('seq_via_EncodedLiteral')
        if op == 'dec':
            if not encs:
                continue
            dtd, dt, want, ref = encs[step['k'] % len(encs)]
            cls.add('seq_decode_again')
            try:
                back = dt._from_encoding(ref)
                ok = hailgen.canon(dt, back) == want
                detail = f'decoded to {back!r}'
            except Exception as e:
                ok, detail = False, f'raised {e!r}'
            if not ok:
                try:
                    fresh_ok = hailgen.canon(dt, hailgen.build_type(dtd)._from_encoding(ref)) == want
                except Exception:
                    fresh_ok = False
            if not ok and fresh_ok:      # (a decode that a fresh type object gets wrong too was reported by the encode step)
                fails.append((f'seq:decode-differs-after-{prev}', SEQ_CLAUSE,
                              f'step {si + 1}: decoding the reference bytes {ref.hex()} of an earlier value again with the same type '
                              f'object ({dt}) {detail}; previous step: {prev}'))
            prev = 'decode'
            continue
        vd = step['v']
        if vd is None:
            continue
        v = hailgen.build_value(std, vd)
        if op == 'bad':
            bad, applied = corrupt(std, v, step.get('picks', []), step.get('how', 'wrong-type'))
            if applied is None:
                cls.add('seq_bad_value_not_constructible')
                continue
            cls.add(f'seq_bad_{applied}')
            try:
                _encode(t, bad, via)
                cls.add('seq_bad_value_did_not_raise')       # not well typed, accepted anyway: outside the property, not judged
                prev = 'encode'
            except Exception:
                n = _bytes_before_raise(std, bad)
                cls.add('seq_encode_raised')
                if n:
                    cls.add('seq_encode_raised_after_partial_write')
                    partial_fail_pending = True
                prev = 'failed-encode'
            continue
        # a well-formed value
        hailgen.typechecks(hailgen.build_type(std), v)
        want = hailgen.canon(t, v)
        fresh_t = hailgen.build_type(std)
        try:
            ref = fresh_t._to_encoding(v)
        except Exception:
            ref = None
        if ref is None:
            # the single-value property already fails for this value on a fresh type object: report it as such
            if oracle(std, vd):
                sig, phase, msg = diagnose(std, vd, oracle)
                fails.append((sig, CLAUSES.get(phase, phase), msg))
            prev = 'failed-encode'
            continue
        if si > 0:
            cls.add('seq_later_encode')
        if prev == 'failed-encode':
            cls.add('seq_encode_after_failed_encode')
        if partial_fail_pending:
            cls.add('seq_encode_after_partial_write_failure')
            nontrivial = True
        try:
            got = _encode(t, v, via)
        except Exception as e:
            fails.append((f'seq:encode-raises-after-{prev}', SEQ_CLAUSE,
                          f'step {si + 1}: encoding {v!r} with the shared type object {t} raised {e!r}; a fresh type object '
                          f'encodes it to {ref.hex()}; previous step: {prev}'))
            prev = 'failed-encode'
            continue
        if got != ref:
            fails.append((f'seq:encode-differs-after-{prev}', SEQ_CLAUSE,
                          f'step {si + 1}: encoding {v!r} with the shared type object {t} gives {bytes(got).hex()}, a fresh type '
                          f'object gives {ref.hex()}; previous step: {prev} (steps so far: '
                          f'{[s["op"] for s in case["steps"][:si + 1]]})'))
        else:
            f = oracle(std, vd, t)
            if f:
                if oracle(std, vd) is None:
                    fails.append((f'seq:{f["phase"]}-differs-after-{prev}', SEQ_CLAUSE,
                                  f'step {si + 1}: with the shared type object {t}: {f["msg"]}; with a fresh type object the value '
                                  f'round-trips; previous step: {prev}'))
                else:
                    sig, phase, msg = diagnose(std, vd, oracle)
                    fails.append((sig, CLAUSES.get(phase, phase), msg))
        encs.append((std, t, want, ref))
        partial_fail_pending = False
        prev = 'encode'
    cls.add(f'seq_top_{hailgen.kind(td)}')
    dedup = {}
    for f in fails:
        dedup.setdefault(f[0], f)
    return nontrivial, sorted(cls), list(dedup.values())


def seq_cases(max_leaves):
    from hypothesis import strategies as st
    tds = hailgen.type_descs(max_leaves)
    picks = st.lists(st.sampled_from([0, 0, 0, 0, 1, 1, 2, 3, 5, 8]), min_size=1, max_size=1)
    how = st.sampled_from(['drop-field', 'drop-field', 'wrong-type', 'wrong-type', 'out-of-range', 'short'])
    via = st.sampled_from(['type', 'type', 'ir'])

    @st.composite
    def build(draw):
        td = draw(tds)
        if not isinstance(td, list) or hailgen.kind(td) in ('locus', 'ndarray'):
            # a bare primitive has nothing before its only write: put it inside a container (both members of a dict, ...)
            td = draw(st.sampled_from([['array', td], ['tuple', ['int32', td]], ['struct', [['a', 'str'], ['b', td]]],
                                       ['dict', 'str', td]]))
        steps = []
        n_enc = 0
        for _ in range(draw(st.integers(1, 5))):
            r = draw(st.integers(0, 9))
            path = draw(st.lists(st.integers(0, 3), min_size=1, max_size=2)) if draw(st.integers(0, 5)) == 0 else []
            std = subtype_desc(td, path)
            if r < 3:
                steps.append(dict(op='enc', path=path, via=draw(via), v=draw(hailgen.value_descs(std, allow_top_missing=False))))
                n_enc += 1
            elif r < 8:
                steps.append(dict(op='bad', path=path, via=draw(via), v=draw(hailgen.value_descs(std, allow_top_missing=False)),
                                  picks=draw(picks), how=draw(how)))
            elif n_enc:
                steps.append(dict(op='dec', k=draw(st.integers(0, 5))))
        # the sequence ends with a well-formed value for the type object most recently used by a failing encode (or the root)
        last_bad = [s for s in steps if s['op'] == 'bad']
        path = last_bad[-1]['path'] if last_bad and draw(st.integers(0, 4)) else []
        steps.append(dict(op='enc', path=path, via=draw(via),
                          v=draw(hailgen.value_descs(subtype_desc(td, path), allow_top_missing=False))))
        if draw(st.integers(0, 3)) == 0:
            steps.append(dict(op='dec', k=draw(st.integers(0, 5))))
        return dict(seq=True, t=td, steps=steps)
    return build()



def selftest_descriptor():
    """The parsed descriptor for a few types, as text (also proves the Scala function is interpretable)."""
    out = {}
    for name, td in (('int32', 'int32'), ('call', 'call'), ('str', 'str'), ('locus', ['locus', 'GRCh37']),
                     ('interval<int64>', ['interval', 'int64']), ('array<float32>', ['array', 'float32']),
                     ('set<str>', ['set', 'str']), ('dict<str,bool>', ['dict', 'str', 'bool']),
                     ('tuple(int32,str)', ['tuple', ['int32', 'str']]), ('struct{a:float64}', ['struct', [['a', 'float64']]]),
                     ('ndarray<float64,2>', ['ndarray', 'float64', 2])):
        out[name] = pretty_etype(etype_for(td))
    return out


def plan(tier):
    n = 16
    per = 1000 if tier == 'quick' else 20000
    return ([dict(kind='grid')] + [dict(kind='hyp', n=per, max_leaves=(4, 6, 8, 12)[i % 4]) for i in range(n - 1)]
            + [dict(kind='seq', n=per // 2, max_leaves=(4, 6, 8)[i % 3]) for i in range(4)])


def run_shard(spec, seed, tier):
    res = Result()
    hailenv.init()
    res.notes['engine_descriptor'] = '; '.join(f'{k} -> {v}' for k, v in selftest_descriptor().items())  # DescriptorError -> exit 2
    if spec['kind'] == 'grid':
        from checks.c32 import grid_cases
        for case in grid_cases():
            if case['v'] is None:
                continue
            nt, classes, fails = check_case(case)
            res.case(case, nt, classes)
            for sig, cl, msg in fails:
                res.fail(sig, cl, msg, case)
        res.notes['grid_cases'] = res.evaluations
        return res
    from vlib.hyp import search
    if spec['kind'] == 'seq':
        search(res, PROPERTY, seq_cases(spec['max_leaves']), check_case, spec['n'], seed, shrink=True)
        return res
    search(res, PROPERTY, hailgen.cases(spec['max_leaves'], allow_top_missing=False), check_case, spec['n'], seed, shrink=True)
    return res


def replay(case):
    hailenv.init()
    _, _, fails = check_case(case)
    return [dict(signature=s, clause=c, message=m, case=case) for s, c, m in fails]
